#!/usr/bin/env python3
"""Regenerates /verif/MANIFEST.json from the table below (kept valid at all times)."""
import json
import os

V = os.path.dirname(os.path.dirname(os.path.abspath(__file__)))
props = [json.loads(l) for l in open(os.path.join(V, 'properties.jsonl'))]

SCRIPT_NOTE = ('Trusted: Coq kernel + VM; the ast translator gen_ed.py (translates _best_match, ListNode.edits dispatch, surplus slices, '
               'cost formulas; recognises the variants of levenshtein_distance return cell, leaf cost adjustment, MultiSetEdit.bounds, '
               'unshared_kvps container) ; the big-step model is hand-written and tied by EXACT script correspondence (kinds, positions, order, '
               'every own cost) on every run; scipy matching and set order are validated oracle inputs, universally quantified in the theorems; '
               'modelled node classes: leaves, lists, key/value pairs, DictNode/MultiSetNode without duplicate elements, FixedKeyDictNode; '
               'XML/CSV/plist/dataclass nodes not modelled (not claimed).')
CLAIMED = {
    'C01': dict(
        text='Theorem C01 (closed under the global context): for every oracle answer, positions and well-formed trees, if the big-step model '
             'of the edit engine yields a script e for (a, b) then valid a b e: every child of a is paired or removed exactly once, every child '
             'of b paired or inserted exactly once, in order for lists, recursively; string edits spell both strings. The model is tied to the '
             'code by exact script correspondence on ~1200 (quick) document pairs x 9 option sets and the same predicate is evaluated on the '
             "implementation's own scripts.",
        design_ref='5.1', note=SCRIPT_NOTE,
        technique='Coq proof (structural induction over trees + matrix back-trace lemmas) + exact script correspondence'),
    'C03': dict(
        text='Theorem C03: every compound edit of the model script reports the sum of the own costs of the sub-edits it lists, at every level '
             '(EditDistance: path-sum invariant of the cost matrix; MultiSetEdit: the unmatched-node term as the current source computes it), and '
             'the flat list of non-zero leaf edits sums to the same total. The annotated-tree view (edited_cost) is compared on every '
             'implementation run only (not modelled).',
        design_ref='5.3', note=SCRIPT_NOTE,
        technique='Coq proof (path-sum invariant, additivity by induction) + exact script correspondence'),
    'C10': dict(
        text="Theorem C10: at every nesting level of the model script, 'none' strategy pairs only equal keys, 'auto' pairs every shared key "
             'with itself (completeness of the pre-matching loop under distinct keys), list edits off gives positional pairs plus the surplus '
             'tail only, off-when-same-length gives positional pairs only on equal lengths; dispatch conditions and slices are translated from '
             'source on every run.',
        design_ref='5.10', note=SCRIPT_NOTE,
        technique='Coq proof over translated dispatch/slices + exact script correspondence'),
    'C14': dict(
        text='Theorems (Coq 8.16, closed under the global context) about the option resolution that is re-translated from '
             '__main__.py and get_filetype on every run: it equals the documented resolution for every namespace argparse can '
             'produce, the alias spellings coincide, an explicit type wins over the file name. The namespace-to-resolution '
             'model is tied to the running code by an exhaustive enumeration of type-selection options through the real '
             'argparse + main(); CLI output = library output is decided by differential end-to-end runs.',
        design_ref='5.14',
        note='Trusted: Coq kernel + VM; the ast translator (fail-closed); argparse (enumerated, not modelled); mimetypes.guess_type '
             'as an oracle input; CLI-vs-library equality is differential testing, not a theorem.',
        technique='Coq proof over code translated from source on every run + exhaustive correspondence through argparse/main'),
}

CLAIMED.update({
    'C11': dict(
        text='Theorem C11_minimal (closed under the global context), for ALL pairs of strings of any length: the characters the model of '
             'string_edit_distance keeps are a common subsequence of both strings of maximal length (no common subsequence is longer), no '
             'unequal characters are paired, and removed+inserted = |s|+|t|-2*LCS, which no script pairing only equal characters beats '
             '(C11_fewest_marks); the uint16 wrap of the path-length cells is part of the model and shown irrelevant. The model is the '
             'EditDistance matrix engine over the _best_match decision translated from source on every run; it is tied to the code by EXACT '
             'cost-and-script correspondence on exhaustive small alphabets plus sampled long strings, and holds_C11 (proved sound) is '
             "evaluated on the implementation's own scripts.",
        design_ref='5.11',
        note='Trusted: Coq kernel + VM; translator gen_ed.py (_best_match, dispatch); hand-written matrix engine tied by exact script '
             'correspondence; the incremental fringe/tighten schedule of EditDistance is not modelled here (big-step final matrix; see C04/C05).',
        technique='Coq proof (LCS characterisation, cell-by-cell induction over the translated _best_match) + exact script correspondence'),
    'C12': dict(
        text='Theorems C12_json / C12_json5 (closed under the global context): for every layout and every document of the stated domain (any '
             'nesting, every code point incl. lone surrogates, arbitrary number tokens, empty containers) parsing the model printer\'s output '
             'gives back the document; the string codec is proved at full strength with its necessary hypothesis, JSON5 is refuted for astral '
             'characters (open finding D17) and proved on the BMP. The printer model is tied byte-exactly to JSONFormatter on every run and the '
             'model parsers to json.loads / json5.loads; CSV, YAML, plist and XML are decided on this tier by byte-exact model/print '
             'correspondence (CSV) and by print-reload equality through the real loaders only (no theorem yet) - stated in the evidence.',
        design_ref='5.12',
        note='Trusted: Coq kernel + VM; json/json5/csv/PyYAML/plistlib/ElementTree as oracles (tested on every printed text); number tokens are '
             'opaque (json.dumps of the scalar supplied and checked by the harness); YAML/plist/XML/CSV round trips are correspondence + reload '
             'only. Open findings: D15 (YAML empty containers/strings), D17 (JSON5 astral).',
        technique='Coq proof (codec round trip by induction on strings and documents) + byte-exact printer/parser correspondence + reload through the real loaders'),
    'C19': dict(
        text='Theorems over a stack-machine model of Expression.eval/get_value/get_member for ARBITRARY RPN token lists, heaps and locals: '
             'every attribute read the evaluator itself performs passed the translated guard and is not private, every resolved name is a '
             'given variable or whitelisted (C19_direct, unconditional); the full property holds for expressions that do not reach '
             'str.format/format_map over plain-data environments (C19_partial) and is refuted otherwise (C19_refuted_if_not: open finding '
             'D12; C19_needs_clean_env: open finding D20, generator frames). Guard, whitelist and operator table are re-translated from '
             'expressions.py on every run; the model is tied by differential evaluation of grammar-generated and mutated expressions over '
             'tripwired objects (values, exception classes and recorded private reads must agree).',
        design_ref='5.19',
        note='Trusted: Coq kernel + VM; translator gen_expr.py; the hand-audited capability table of built-in callables (only str.format / '
             'format_map read attributes named by data) - an assumption of the theorems, probed on every run by applying every whitelisted '
             'built-in and public member to tripwired objects; built-in callables are summarised, not modelled (partial).',
        technique='Coq proof (invariant over the evaluator\'s event log by induction on the RPN) + differential evaluation with tripwired objects'),
})

CLAIMED.update({
    'C15': dict(
        text='Theorems over a model of min_weight_bipartite_matching (type scan, min/max, replacement value for missing pairs, get_dtype '
             'translated from source on every run, the cast, the final filter) with the solver as a section variable under the contract '
             '"optimal full assignment on a dense matrix": on the stated domain the routine returns a pairing (C15_total) that is one-to-one, '
             'uses only existing pairs and reports true weights (C15_valid), and with no missing pair has min(rows, cols) pairs of minimum '
             'total (C15_opt, against a brute-force optimum proved minimal); an all-missing table gives the empty pairing; outside the domain '
             'a table lies in exactly the three open finding classes (D14b negative weights with a missing pair -> AssertionError, D14c beyond '
             '2^53 -> float64 rounding in scipy, D14d replacement value overflows the dtype), each with a refutation witness. The model is '
             'tied to the code by outcome-exact correspondence on exhaustive tiny tables (against brute force) and sampled larger ones, which '
             'is also where the solver contract is tested against scipy.',
        design_ref='5.15',
        note='Trusted: Coq kernel + VM; translator gen_match.py (get_dtype, INTEGER_DTYPE_INTERVALS); scipy.optimize.linear_sum_assignment '
             'and numpy casts are oracles (contract tested, not proved); the wrapper is hand-modelled and tied by correspondence. Partial: the '
             'solver is not verified.',
        technique='Coq proof (wrapper + dtype + optimality specification, solver as a contracted section variable) + exhaustive/sampled correspondence against brute force'),
})

CLAIMED.update({
    'C02': dict(
        text='Theorems over the big-step script model (closed under the global context), for all trees, oracles and options: '
             'data-equal documents cost 0 (C02_equal_zero); every model script is well priced and a zero total forces the documents '
             'to be equal up to exactly two open findings (C02_zero_sim: zsim = equality modulo D4 Python-== on scalars of different '
             'type inside containers and D16 zero-size elements of leaf-only lists); hence cost = 0 <-> equal as data under the two '
             'carve-out predicates (C02_partial), with refutation witnesses for both (C02_refuted_D4 [1] vs [1.0], C02_refuted_D16 [] vs '
             '[null]) and a classification theorem (C02_classified: the model has no other way to fail). The script-level soundness theorem '
             'C02_spec_sound (valid & additive & priced => zero cost implies zsim) is model-independent and is evaluated on the '
             "IMPLEMENTATION's scripts on every run, together with exact script correspondence. The command-line half (exit status and "
             'change marks vs cost, three output modes x three strategies) is decided by differential runs of the real CLI, not by a theorem.',
        design_ref='5.2', note=SCRIPT_NOTE + ' CLI exit status / marks: implementation runs only. Open findings: D4, D16.',
        technique='Coq proof (induction over scripts via validity, additivity and pricing; pigeonhole for mappings) + exact script correspondence + CLI differential runs'),
    'C09': dict(
        text='Theorems over the loader model load f o d = wrapper(f) o build (json.build_tree model shared by all four loaders; plist wraps '
             'in PLISTNode) and the top-level edit rules of PLISTNode: all loaders build the same tree (C09_same_tree); the same data '
             'costs 0 between every ordered format pair outside the class of open finding D8b (C09_zero_partial, via C09_self_zero: any tree '
             'against itself costs 0 for every oracle) and is == when both sides carry the same wrapper; the cost against a third document '
             'is independent of the formats outside that class (C09_third_partial); INTO a plist from a non-plist the same data is a Replace of '
             'positive cost for every document (C09_into_plist_refuted_), so the full statement is refuted on the model for all inputs. '
             'That the third-party parsers return equal Python values is the tested oracle contract: every case writes the value in four '
             'formats, loads them through the real Filetype.build_tree and requires the loaded tree to equal the model build of the source '
             'value; all 16 format pairs are diffed (==, cost, sampled CLI exit status).',
        design_ref='5.9',
        note='Trusted: Coq kernel + VM; json/json5/PyYAML/plistlib parsers and the harness writers as oracles (tested per case); the script '
             'model as for C01; partial: parsers are not modelled. Open finding: D8b.',
        technique='Coq proof (loader/wrapper model over the script model) + four-format load correspondence + all-pairs differential diffs'),
})

CLAIMED.update({
    'C06': dict(
        text='Theorems over a character-exact model of the JSON diff rendering (jrender: Match/Replace/Remove/Insert.print, '
             'SequenceFormatter delimiter counters, print_StringEdit run batching, key/value pairs, both layouts; each character carries '
             'its mark): for ALL trees and scripts, erasing what is marked inserted (resp. removed) leaves a stream that tokenises like the '
             'plain print of the first (resp. second) projection of the script (C06_first / C06_second, ~ = equal token lists: commas and '
             'whitespace outside string literals only separate tokens, literals/atoms/brackets are kept), which parses through the C12 reader '
             '(C06_reads); for valid ordered scripts the projections ARE the two documents (C06_text_partial, C06_reads_ordered_partial: '
             'lists, leaves, strings, key/value pairs; for mapping edits the identification of the projection with the document up to member '
             'order is evaluated on every implementation output only); marks = [] <-> no non-zero edit (C06_marks), <-> cost 0 under '
             'additivity (C06_marks_cost). Open findings with refutation witnesses: D33 (a mapping replaced inside a list is rendered '
             '`from -> to -> to`), D4 (cross-type zero-cost match printed once), D16 refutes marks<->cost. Tie: the ANSI output of the real '
             'JSONFormatter is decoded per character (pure decoder) and compared with jrender on the implementation\'s own script; '
             'holds_C06 parses both projections of the implementation\'s stream with the lenient reader.',
        design_ref='5.6',
        note='Trusted: Coq kernel + VM; the ANSI decoder of the harness; C12\'s reader as the parser; partial as stated (mapping edits, '
             'no model of the no-colour text). Open findings: D4, D33.',
        technique='Coq proof (structural induction over scripts with the delimiter-counter invariant) + per-character rendering correspondence'),
    'C07': dict(
        text='partial by nature: a theorem cannot exhibit hash randomisation or allocation order. Proved: in the script model every '
             'hash-/address-dependent choice is an explicit adversary argument; the set-order adversary has no influence at all on the '
             'current source (C07_order_irrelevant_now, discharged against the flag re-translated from graphtage.py on every run - it '
             'breaks if a set is reintroduced, with C07_hash_order_refuted_if as the witness that the dependence is then real); two '
             'equally good matching answers give the same cost and exit status (C07_match_cost_partial; optimality of scipy is C15\'s '
             'contract). Completeness of the declared adversaries: a translator pass lists every set iteration / id() / hash() / '
             'address-repr site in graphtage/*.py against a hand-audited table (an unlisted site is a broken tie; C07_sites_audited). '
             'Observed: every case is run as fresh processes under several PYTHONHASHSEEDs, a perturbed allocation order and '
             'PYTHONMALLOC=malloc, and repeatedly in one process; stdout bytes and exit status must be identical; structural snapshots '
             'of both input trees before/after diff, get_all_edits and printing must be equal.',
        design_ref='5.7',
        note='Trusted: Coq kernel + VM; translator gen_det.py and its audited site table; the runtime cannot be modelled (partial). Open '
             'findings on the library path: D34 (Python sets expanded in hash order by BasicBuilder), D35 (placeholder text is an address).',
        technique='Coq proof (adversary-independence of the script model) + audited translator pass over nondeterminism sites + multi-seed / multi-allocation process runs'),
    'C08': dict(
        text='Theorems for all documents with distinct string keys: under the DictNode strategies the builder model sorts, so any '
             'key-permuted copy (dperm, any depth) builds the IDENTICAL tree and the whole script is identical (C08_build_canonical_, '
             'C08_dict_script_); under strategy none the trees differ by permutations of FixedKeyDict children (C08_tree_perm) and the cost '
             'of the script is invariant, for any two oracles (C08_tperm_cost / C08_fixed_cost_ / C08_cost_), with the top-level pairing '
             'invariant (C08_pairing; deeper levels: checked on the implementation only); a document and its permuted copy are equal as '
             'data, == and cost 0 (C08_equal_, C08_node_equal_, C08_copy_zero_); swapping two data-unequal list elements costs > 0 '
             '(C08_swap_partial_, inheriting C02\'s carve-outs D4/D16, with refutation witnesses). Tie: built trees equal the model build of '
             'the permuted value; costs, pair sets (canonicalised in Coq), == and copy cost compared across arrangements.',
        design_ref='5.8', note=SCRIPT_NOTE + ' Open findings: D4, D16 (swap clause). Mixed-type YAML keys are outside the theorems '
             '(non-transitive fallback order); reported in evidence.',
        technique='Coq proof (sorted canonical form; permutation invariance of the fixed-dict script by induction over trees) + build/script correspondence across key arrangements'),
    'C13': dict(
        text='Theorems over a model of the formatter resolution protocol (_get_formatter MRO walk, sub-formatters, parents, global list) '
             'and the single-assignment parent guard, on tables extracted from the code on every run (formatter classes and print methods by '
             'reflection, print-method summaries by ast, hand-audited grammar tables tied to source hashes): every configuration reachable '
             'while rendering ANY tree of an input type lies in a finite reach set (C13_cover, induction over the rendering relation; '
             'closedness by one vm_compute over the finite tables, sizes stated), every such configuration resolves to a printer '
             '(C13_dispatch_total), and outside the two model-defined open finding classes (D9 re-parenting, D19 plist null) every node is '
             'rendered without internal error (C13_partial); C13_refuted gives three witnesses. Tie: the configuration product (8 inputs x '
             '8 formats x modes x styles x equal/different) is run through the real main(); completion vs exception and every recorded '
             'dispatch event must equal the model\'s.',
        design_ref='5.13',
        note='Trusted: Coq kernel + VM; translator gen_dispatch.py incl. hand-audited tables (hash-guarded); exceptions outside the three '
             'modelled kinds are only found by the enumeration (partial). Open findings: D9, D19.',
        technique='Coq proof (finite reachability fixpoint lifted by induction over trees) + exhaustive configuration-product correspondence'),
    'C16': dict(
        text='Theorem C16 (closed under the global context), for ANY strict total order and ANY operation history: the list-based model '
             'of the Fibonacci heap (a transcription of the pointer structure: root/child rings, _extract_min, _consolidate, _cut, '
             '_cascading_cut, deleted flags) never errs or runs out of fuel, keeps Inv (unique ids, heap order, _n = node count, _min minimal), '
             'len = number of live items, peek/pop return a minimal live item and pop removes exactly it, push/decrease_key/remove act on '
             'the abstract multiset as specified (C16_operation); instantiated for min- and max-heap; smallest/largest helpers satisfy their '
             'spec. Tie: structure-exact lock-step after every operation (root order, child order, degrees, marks, _min, _n, return values) '
             'on sampled exhaustive short histories and long random ones.',
        design_ref='5.16',
        note='Trusted: Coq kernel + VM; the hand-written model tied by lock-step correspondence; non-member arguments of decrease_key/remove '
             '(undefined by the docstring) are not modelled.',
        technique='Coq proof (invariant + refinement to a multiset by induction over operation histories) + structure-exact lock-step correspondence'),
    'C17': dict(
        text='Theorems for all finite collections of items given as sound tightening schedules and all adversary inputs (id() tie-breaks, '
             'interval-tree order, heap tie order), with explicit sufficient fuel: the tightening comparator terminates and agrees with final '
             'order (C17_lt/le), min_bounded returns a minimum (C17_min), make_distinct terminates leaving every pair disjoint or both '
             'definitive (C17_distinct), IterativeTighteningSearch.search terminates with an item of minimum final cost and bounds equal to '
             'that single value (C17_search, by an invariant: every input is dominated by a live item, heap keys are sound); ordering: '
             'C17_sort_partial (for every comparison/pop trace the result is a sorted permutation or the trace is rejected; that graphtage\'s '
             'heap produces an accepted trace is C16 restated for a tightening comparator and is checked by correspondence only). Tie: '
             'synthetic Bounded items driven by the same schedules; every tighten event and result must equal the model\'s.',
        design_ref='5.17',
        note='Trusted: Coq kernel + VM; hand mirror of bounds.py Range tied by correspondence; heap inside sort is a validated oracle (partial).',
        technique='Coq proof (invariants with a decreasing schedule measure) + event-exact correspondence on synthetic schedules'),
    'C18': dict(
        text='Theorems over an explicit-stack model of Builder.build_tree (frames, ancestor identity scan, cycle options, placeholder) for '
             'ALL finite object graphs: the machine refines a big-step build with a stated fuel bound and always terminates under cycle '
             'checking (C18_machine_refines, C18_terminates); on acyclic graphs (any sharing) it builds a tree whose to_obj equals the unfolded '
             'value (tuples as lists, sets as multisets), copy equals the tree, no placeholder and no cycle error (C18_acyclic_partial, '
             'C18_shared_partial); a graph reaching a cycle yields CycleError or, when ignored, a placeholder (C18_cyclic_partial); BasicBuilder '
             'and pydiff agree (C18_builders_agree). _partial: custom objects and non-scalar keys are outside the proved domain (modelled and '
             'checked by correspondence). Open findings with witnesses: D18, D28, D31, D32. Tie: generated graphs built as real Python objects '
             'through json.build_tree, BasicBuilder, pydiff under all options; tree, to_obj, copy, exception class compared.',
        design_ref='5.18',
        note='Trusted: Coq kernel + VM; hand-written model tied by correspondence; set iteration order and dir() order are oracle inputs.',
        technique='Coq proof (machine/big-step refinement, termination measure, induction on acyclic unfolding) + object-graph correspondence'),
    'C20': dict(
        text='Theorem C20_full (unconditional for the tables re-translated from the source on every run): for every text format and every '
             'exception class in the raises table, the handler returns a message naming the file, main() writes it to stderr, nothing to '
             'stdout, exits non-zero, and nothing escapes - for either file position. Handler clauses, f-string pieces (incl. the '
             'format-spec -> TypeError rule), the exception lattice and main()\'s error blocks are extracted by the translator; a regression '
             'breaks C20_table_total / main_path_ok and the fault enumeration then supplies the concrete malformed file. That the raises '
             'table is complete for the third-party parsers is established by the fault enumeration only (truncation at every byte, '
             'delimiter/tag/encoding corruptions, kept when the loader rejects them).',
        design_ref='5.20',
        note='Trusted: Coq kernel + VM; translator gen_handlers.py; completeness of raises_table (enumeration, partial). Binary plists are '
             'outside the domain (D13e observed only).',
        technique='Coq proof over handler tables translated from source (finite table check lifted to all exceptions/paths) + fault enumeration through main()'),
})

CLAIMED.update({
    'C04': dict(
        text='Theorems over small-step machines {state; bounds; tighten} mirroring tighten_bounds()/bounds() of the Bounded classes, '
             'with the STRICT contract (bounds never widen, always contain the final value, a True step strictly shrinks, False only on '
             'an interval that already is a single value and stays unchanged, at most width-many True steps): proved for ConstantCostEdit '
             '(C04_const), the component-wise sum = KeyValuePairEdit/XML/DataClass combinator (C04_sum), repeat_until_tightened + '
             'FixedLengthSequenceEdit (C04_fixed_len), EditDistance over children under the contract (C04_edit_distance: monotone fringe '
             'minimum never exceeding the final cell, sound constant lower bound, delete-all/insert-all upper bound, completion step), '
             'StringEdit (C04_string), and by a closing induction every tree of scalars, strings, nested lists (all list options) and '
             'key/value pairs (C04_lists); C04_trace links the contract to the executable statement evaluated on implementation traces. '
             'EditCollection/FixedKeyDictNodeEdit, the matcher, MultiSetEdit and the search are validated by trace only (listed in the '
             'evidence). Tie: every Bounded object created during diff(), get_all_edits() and explicit drives is wrapped from outside; '
             'holds_C04 on its trace, corr_C04 = the model machine reproduces the exact bounds/flag sequence of the root edit. Found and '
             'led to the repair of D23, D24, D25.',
        design_ref='5.4',
        note='Trusted: Coq kernel + VM; hand-written machines tied by trace correspondence; trace-only classes have no theorem (partial).',
        technique='Coq proof (per-class contract lemmas, fringe-diagonal invariants, closing induction over trees) + monitored trace correspondence'),
    'C05': dict(
        text='Theorems over an API machine (each public call bounds/tighten_bounds/is_complete/valid/edits/has_non_zero_cost as a '
             'state-changing step, incl. EditDistance.bounds() finalising and freeing its matrix, the edits() memo, the quiet flag '
             'selecting the extra bounds() reads): for ALL histories of calls on the edit and on listed sub-edits, for every tree of '
             'scalars, strings, nested lists (all list options) and key/value pairs, no call errs, every call is answered, and completion '
             'yields one value v independent of the history and of the quiet flag (C05_model_partial, C05_quiet_irrelevant_partial), which '
             'is the cost of the big-step script model (C05_final_cost_partial); per-class lemmas C05_const/_sum/_fixed_len/'
             '_edit_distance and the history invariant C05_invariant. _partial: MultiSetEdit, the matcher, EditCollection and the search are '
             'not modelled (covered by holds_C05 on the implementation only); the final SCRIPT is compared by correspondence, not proved; '
             'colour is covered by CLI runs only. Tie: exhaustive short and random long histories executed on the real edit objects under '
             'both quiet settings; outcomes call by call and the final script must equal the model\'s.',
        design_ref='5.5',
        note='Trusted: Coq kernel + VM; hand-written API machine (on top of the C04 machines) tied by call-by-call correspondence. Open '
             'finding replayed on every run: D36.',
        technique='Coq proof (history induction with a structural invariant closed under every public call) + call-by-call history correspondence'),
})
CLAIMED['C12']['text'] = (
    'Theorems (closed under the global context): JSON and JSON5 - for every layout and every document of the domain (any nesting, every '
    'code point incl. lone surrogates, arbitrary number tokens, empty containers) parsing the model printer\'s output gives back the '
    'document (C12_json, C12_json5 on the BMP; refuted for astral characters: open finding D17); CSV - csv_read (csv_print t) = Some t '
    'for every table whose cells contain no CR, which is exactly the loader\'s image (C12_csv, with the refutation witness for CR); '
    'YAML, plist, XML over plain content - parse (print t) = Some t for the models of graphtage\'s own structure printing with small '
    'readers for the printers\' image (C12_struct_yaml under the Section hypotheses scalar_rt/scalar_lex about the third-party scalar '
    'emitter, C12_struct_plist, C12_struct_xml; D15 = YAML empty containers is outside the non-empty domain and refuted on the model). '
    'All printer models are tied byte-exactly to the real formatters on every run, the model readers to the real loaders on every printed '
    'text, and reload equality through Filetype.build_tree is checked for every case.')
CLAIMED['C12']['note'] = ('Trusted: Coq kernel + VM; json/json5/csv/PyYAML/plistlib/ElementTree as oracles (compared with the model readers on '
                          'every printed text); number tokens and YAML scalar tokens are opaque (supplied by the harness, contract named in '
                          'the theorem). Open findings: D15, D17. Observation outside the alphanumeric domain: D37 (plist strings are '
                          'written unescaped).')
CLAIMED['C12']['technique'] = 'Coq proof (codec and state-machine round trips by induction) + byte-exact printer/reader correspondence + reload through the real loaders'

CLAIMED['C06']['text'] = (
    'Theorems over a character-exact model of the JSON diff rendering (jrender: Match/Replace/Remove/Insert.print, SequenceFormatter '
    'delimiter counters, print_StringEdit run batching, key/value pairs, both layouts; every character carries its mark). Script level, '
    'for ALL trees and scripts: erasing what is marked inserted (resp. removed) leaves a stream that tokenises like the plain print of '
    'the first (resp. second) projection (C06_first/_second; ~ = equal token lists, commas and whitespace outside string literals only '
    'separate tokens) and parses through the C12 reader (C06_reads); for every valid, well-priced script - mapping edits included, by a '
    'member-permutation argument - both projections read back as the two documents and there are no marks exactly when the cost is 0 '
    '(C06_priced_text, C06_priced_marks). Model level: C06_model - for every script of the big-step model over JSON documents, with only '
    'the three open-finding carve-outs as hypotheses (typed: D4, nozero: D16, clean/nomil: D33), erase-inserted reads as a, erase-removed '
    'reads as b, and no_marks <-> cost 0; each carve-out has a refutation witness on a model script. Tie: the ANSI output of the real '
    'JSONFormatter is decoded per character (pure decoder) and compared with jrender on the implementation\'s own script; holds_C06 '
    'parses both projections of the implementation\'s stream with the lenient reader.')
CLAIMED['C06']['note'] = ('Trusted: Coq kernel + VM; the ANSI decoder of the harness; C12\'s reader as the parser; the script model as for '
                          'C01/C02 (its cone now includes EqualProofs and EdGen); no model of the no-colour text. Open findings: D4, D33 '
                          '(D16 refutes only marks<->cost).')
CLAIMED['C14']['text'] = CLAIMED['C14']['text'] + (
    ' The end-to-end stream covers the three output modes (full diff, -e, -d), --format cross-rendering and all input types; where '
    'rendering raises (C13\'s open findings) command and library must raise the same class.')

CLAIMED['C04']['text'] = (
    'Theorems over small-step machines {state; bounds; tighten} mirroring tighten_bounds()/bounds() of the Bounded classes, with the '
    'STRICT contract (bounds never widen, always contain the final value, a True step strictly shrinks, False only on an interval that '
    'already is a single value and stays unchanged, at most width-many True steps): proved per class for ConstantCostEdit, the sum '
    'combinator (KeyValuePairEdit/XML/DataClass), repeat_until_tightened + FixedLengthSequenceEdit, EditDistance (monotone fringe '
    'minimum below the final cell, sound constant lower bound, delete-all/insert-all upper bound), StringEdit, EditCollection / '
    'FixedKeyDictNodeEdit (C04_collection), WeightedBipartiteMatcher and MultiSetEdit (C04_bracket_lo/_hi: k smallest row minima <= any '
    'k-pair total <= k largest row maxima; C04_matcher, C04_multiset; make_distinct and the assignment are oracle inputs over which the '
    'theorems quantify), and by the closing induction C04_docs for every pair of JSON-path trees without repeated multiset elements and '
    'every oracle: initO orc a b = Some s -> Contract. (initO contains one computed guard - a FixedKeyDictNodeEdit enters only if the sum '
    'of its children\'s initial upper bounds fits its cost_upper_bound; it passed on every generated document but is not proved to '
    'always pass, so C04_docs is conditional on it.) C04_trace links the contract to the executable statement evaluated on '
    'implementation traces. IterativeTighteningSearch/PossibleEdits and multisets with repeated elements (open finding D36) are '
    'validated by trace only. Tie: every Bounded object created during diff(), get_all_edits() and explicit drives is wrapped from '
    'outside; holds_C04 on its trace, corr_C04 = the model machine (fed the recorded oracle answers) reproduces the exact bounds/flag '
    'sequence of the root edit. Found D23, D24, D25 (repaired).')
CLAIMED['C13']['text'] = CLAIMED['C13']['text'].replace(
    'Tie: the configuration product', 'The model is quantified over the dictionary strategy (FixedKeyDictNode vs DictNode grammars) and '
    'rules out same-item re-dispatch loops (C13_no_loop); leaf emitters are tabulated per scalar class (incl. integers outside 64 bits, '
    'non-finite floats, bytes). Tie: the configuration product (now incl. the option flags -k/-ds/-l/-ll and extreme-scalar documents)')
CLAIMED['C13']['note'] = CLAIMED['C13']['note'].replace('Open findings: D9, D19.', 'Open findings: D9, D19, D38, D39.')
CLAIMED['C08']['text'] = CLAIMED['C08']['text'] + (
    ' Trees are built through json.build_tree, BasicBuilder and pydiff; mappings with keys of mixed type (YAML, Python objects) are a '
    'judged stream: cost invariance and copy equality must hold, the pairing clause there is open finding D40 (non-transitive fallback '
    'order of LeafNode.__lt__).')
CLAIMED['C08']['note'] = CLAIMED['C08']['note'].replace('Open findings: D4, D16 (swap clause).', 'Open findings: D4, D16 (swap clause), D40 (pairing under mixed-type keys).')
CLAIMED['C05']['text'] = CLAIMED['C05']['text'] + (
    ' holds_C05 also requires, for every history, equal final costs under quiet and non-quiet, final cost = sum of the leaf edits, and '
    'the get_all_edits / edited_cost views on fresh trees to agree for both settings.')

CLAIMED['C04']['text'] = CLAIMED['C04']['text'].replace(
    "(initO contains one computed guard - a FixedKeyDictNodeEdit enters only if the sum of its children\'s initial upper bounds fits its "
    "cost_upper_bound; it passed on every generated document but is not proved to always pass, so C04_docs is conditional on it.)",
    "initO contains one computed guard (a FixedKeyDictNodeEdit enters only if the sum of its children\'s initial upper bounds fits its "
    "cost_upper_bound): it is PROVED to pass for multiset-free documents whose target holds no null leaf or whose lists have default "
    "options (C04_guard_bound_no_null / _default_lists, C04_docs_none unconditional on it) and REFUTED otherwise (C04_guard_refuted = "
    "open finding D41: graphtage -k -l on [\"\",...] vs [null,...] crashes). IterativeTighteningSearch satisfies the contract "
    "(C04_search, over C17\'s search model).")
CLAIMED['C04']['text'] = CLAIMED['C04']['text'].replace(
    'IterativeTighteningSearch/PossibleEdits and multisets with repeated elements (open finding D36) are validated by trace only.',
    'PossibleEdits and multisets with repeated elements (open finding D36) are validated by trace only.')
CLAIMED['C04']['note'] = CLAIMED['C04']['note'] + ' Open findings: D36, D41.'
CLAIMED['C17']['text'] = (
    'Theorems for all finite collections of items given as sound tightening schedules and all adversary inputs (id() tie-breaks, '
    'interval-tree order, heap tie order), with explicit sufficient fuel: the tightening comparator terminates and agrees with final '
    'order (C17_lt/le), min_bounded returns a minimum (C17_min), make_distinct terminates leaving every pair disjoint or both '
    'definitive (C17_distinct), IterativeTighteningSearch.search terminates with an item of minimum final cost and bounds equal to that '
    'single value (C17_search; C17_search_first_node: modelling only the first node of the inner loop is without loss of generality), '
    'and bounds.sort - modelled in full as the real Fibonacci heap run under the auto-tightening comparator - returns a permutation in '
    'non-decreasing final order (C17_sort, unconditional; C17_heap_oracle generalises the heap\'s push/pop correctness to a comparison '
    'oracle that is only required to confirm established answers, with an example showing that hypothesis cannot be dropped). Tie: '
    'synthetic Bounded items driven by the same schedules; every tighten event, every heap comparison and pop, and the result must '
    'equal the model\'s.')
CLAIMED['C17']['note'] = 'Trusted: Coq kernel + VM; hand mirror of bounds.py Range tied by correspondence; the search heaps are a list abstraction with hints.'
CLAIMED['C18']['text'] = (
    'Theorems over an explicit-stack model of Builder.build_tree (frames, ancestor identity scan, cycle options, placeholder) for ALL '
    'finite object graphs: the machine refines a big-step build with a stated fuel bound and always terminates under cycle checking '
    '(C18_machine_refines, C18_terminates); on acyclic graphs (any sharing; custom objects through pydiff; keys and set elements scalars '
    'or sets) it builds a tree whose to_obj equals the unfolded value (tuples as lists, sets as multisets), copy equals the tree, no '
    'placeholder and no cycle error (C18_acyclic_partial / C18_acyclic_outside_findings: the only carve-outs are exactly the open '
    'finding classes D18, D28 - C18_domain_boundary); a graph reaching a cycle yields CycleError or, when ignored, a placeholder, incl. '
    'cycles running only through custom objects (C18_cyclic_partial, scalar keys); json.build_tree, BasicBuilder and pydiff build the '
    'same tree on json.build_tree\'s domain (C18_entry_points; D31 bytes, D32 cycles are its open boundary); the executable statement has '
    'no violated clause on the model\'s prediction (C18_model_holds_*). Tie: generated graphs built as real Python objects through all '
    'entry points under all options; tree, to_obj, copy, exception class compared.')

CLAIMED['C05']['text'] = CLAIMED['C05']['text'].replace(
    '_partial: MultiSetEdit, the matcher, EditCollection and the search are not modelled (covered by holds_C05 on the implementation only);',
    '_partial: the API machine now also MODELS MultiSetEdit + WeightedBipartiteMatcher and EditCollection / FixedKeyDictNodeEdit call by '
    'call (lazy iterators, memos, forced matching; make_distinct counts and the assignment as oracle inputs) and corr_C05 compares every '
    'outcome and the final script for them, but their class invariants are not proved, so the closing theorems are stated for documents '
    'without mappings (`covered`);')
CLAIMED['C05']['text'] = CLAIMED['C05']['text'] + (
    ' A shared-strings family runs every history in a fresh process and again in a long-lived one (process-global state).')

CLAIMED['C04']['text'] = (
    'Theorems over small-step machines {state; bounds; tighten} mirroring tighten_bounds()/bounds() of the Bounded classes, with the '
    'STRICT contract (never widens / sound / True => strictly shrunk / False => single value and unchanged / finitely many True steps): '
    'machine-checked for ConstantCostEdit, the sum combinator (KeyValuePairEdit, XML/DataClass/PyObj), repeat_until_tightened + '
    'FixedLengthSequenceEdit, EditDistance/StringEdit, EditCollection/FixedKeyDictNodeEdit, WeightedBipartiteMatcher + MultiSetEdit '
    '(make_distinct and the solver as oracles, all answers), their nesting over documents (C04_docs), UNCONDITIONALLY for all '
    'well-formed documents without multisets (C04_docs_none_all, C04_guard_bound_all: the budget guard of FixedKeyDictNodeEdit always '
    'passes; rests on the translated flag leaf_match_cost_capped = the repair of D41, discharged by reflexivity, so reverting the source '
    'breaks the discharge), Apple plist roots (C04_plist_root) and the IterativeTighteningSearch model over sound strictly shrinking items '
    '(C04_search, tied to search.py by C17\'s correspondence). Conditional or trace-only: multisets with repeated elements (D36, open), '
    'MultiSetEdit below a FixedKeyDictNodeEdit (computed guard; cannot come from files), plist roots under -k (EditCollection.__len__ '
    'side effect), PossibleEdits\' pruning of invalid alternatives. Tie: every Bounded object created during diff(), get_all_edits() and '
    'explicit drives is wrapped from outside; holds_C04 on its trace, corr_C04 = the model machine (fed the recorded oracle answers) '
    'reproduces the exact bounds/flag sequence of the root edit. Found D23, D24, D25, D41 (all repaired).')
CLAIMED['C04']['note'] = CLAIMED['C04']['note'].replace(' Open findings: D36, D41.', ' Open finding: D36.')

CLAIMED['C05']['text'] = (
    'Theorems over small-step API machines for every edit class (ConstantCost, KeyValuePair, FixedLengthSequence under '
    'repeat_until_tightened, EditDistance/StringEdit with the side-effecting bounds() and the quiet/status reads, EditCollection/'
    'FixedKeyDictNodeEdit with the lazy iterator, _cost memo and valid, MultiSetEdit + WeightedBipartiteMatcher with `matching` forcing '
    '_make_edges_distinct itself): class lemmas C05_const/_sum/_fixed_len/_edit_distance/_collection/_multiset under the contract '
    'AContract; C05_invariant (structural invariant closed under every call incl. calls on listed sub-edits); closing induction '
    'C05_model: for EVERY oracle (make_distinct counts and solver assignment keyed by (from_nodes, to_nodes)) and every pair of documents '
    'in the domain of initA (all node kinds and all three dictionary strategies; multiset elements pairwise different - D36 outside; '
    'FixedKeyDict budget guard computed) there is one value v such that every history of public calls (any order, on the edit and on '
    'listed sub-edits, unbounded length) under both status settings raises nothing, answers every call and completes with final cost v; '
    'C05_quiet_irrelevant; C05_final_cost_partial: v = cost of the big-step script for documents without DictNode/MultiSetNode. Not '
    'proved: final cost = script cost for MultiSetEdit (oracle bridge between path-keyed and node-keyed oracles), search classes (no '
    'model); the final SCRIPT is compared by correspondence only (corr_C05: per-call outcomes + final nested script, oracle recorded per '
    'run), incl. a fresh-process/same-process family against process-global state; colour is covered by CLI runs only. holds_C05 also '
    'requires, for every history, equal final costs under quiet and non-quiet, final cost = sum of the leaf edits, and the '
    'get_all_edits / edited_cost views on fresh trees to agree for both settings.')

CLAIMED['C02']['text'] = CLAIMED['C02']['text'].replace(
    'The command-line half (exit status and change marks vs cost, three output modes x three strategies) is decided by differential '
    'runs of the real CLI, not by a theorem.',
    'Command-line half: the exit status is a theorem over the model of what __main__ computes (had_edits = some edit of the flat '
    'get_all_edits view has non-zero cost): for every additive, priced script the flag is set iff the total cost is positive '
    '(C02_exit_flat), hence for every model script exit 0 <-> cost 0 and exit 1 <-> cost > 0 (C02_exit_cost), exit 0 <-> equal as data '
    'under the carve-outs (C02_exit), and the model\'s status is the value the executable statement compares the OBSERVED status with '
    '(C02_exit_cli); that model of __main__ is hand-written and tied by the differential runs of the real CLI (three output modes x '
    'three strategies). The change marks of the rendered output are compared on the implementation only.')
CLAIMED['C02']['note'] = CLAIMED['C02']['note'].replace(' CLI exit status / marks: implementation runs only.', ' CLI marks: implementation runs only; the model of the exit flag is hand-written.')

CLAIMED['C14']['text'] = CLAIMED['C14']['text'] + (
    ' A real-process stream runs the command with status output enabled, with --no-status and with --quiet on documents whose diff '
    'contains line-boundary-like characters: standard output and exit status must not depend on the status option.')
CLAIMED['C04']['text'] = CLAIMED['C04']['text'] + (
    ' Searches and PossibleEdits with explicit, correct initial bounds over constant candidates (an API parameter no caller inside '
    'the library passes) are a trace-judged stream.')
NOT_YET = 'model and theorem not completed yet (DESIGN.md section 7)'
NA = {}

checks = []
for p in props:
    i = p['id']
    if i in CLAIMED:
        c = CLAIMED[i]
        checks.append({
            'property_id': i,
            'quick_cmd': f'./check {i} --tier quick',
            'thorough_cmd': f'./check {i} --tier thorough',
            'evidence_file': f'/verif/evidence/{i}.json',
            'replay_cmd_template': f'./check {i} --replay {{path}}',
            'engine': 'coq',
            'level_claimed': {'category': c.get('category', 'proof'), 'text': c['text'], 'design_ref': c['design_ref']},
            'level_note': c['note'],
            'technique': c['technique'],
        })
m = {
    'version': 1,
    'setup_cmd': './check --setup',
    'hooks': {'guard': 'GRAPHTAGE_VERIF',
              'enable': 'no source hooks: all instrumentation is applied from outside by /verif/harness at import time '
                        '(GRAPHTAGE_VERIF=1 is set for the implementation workers but the source never reads it)',
              'baseline_off_cmd': 'cd /repo && /venv/bin/python -m pytest -ra -q -p no:cacheprovider --timeout=900 '
                                  '--continue-on-collection-errors',
              'source_commits': [], 'add_only': True},
    'engines': [{'name': 'coq', 'path': '/verif/coq', 'serves_properties': sorted(CLAIMED),
                 'kind_free_text': 'Coq 8.16.1 development: gen/ (translated from /repo on every run), theories/ (models, proofs), '
                                   'props/ (property theorems); driven by /verif/check -> /verif/harness'}],
    'checks': checks,
    'notes': 'See DESIGN.md. Known findings: known_findings.json. Seeded changes: seeded/.',
    'not_applicable': [{'property_id': p['id'], 'reason': NA.get(p['id'], NOT_YET)} for p in props if p['id'] not in CLAIMED],
}
json.dump(m, open(os.path.join(V, 'MANIFEST.json'), 'w'), indent=1)
print('claimed:', sorted(CLAIMED))
