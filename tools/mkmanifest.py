#!/usr/bin/env python3
"""Regenerates /verif/MANIFEST.json from the table below (kept valid at all times)."""
import json
import os

V = os.path.dirname(os.path.dirname(os.path.abspath(__file__)))
props = [json.loads(l) for l in open(os.path.join(V, 'properties.jsonl'))]

SCRIPT_NOTE = ('Trusted: Coq kernel + VM; the ast translator gen_ed.py (translates _best_match, ListNode.edits dispatch, surplus slices, '
               'cost formulas; recognises the variants of levenshtein_distance return cell, leaf cost adjustment, MultiSetEdit.bounds, '
               'unshared_kvps container) ; the big-step model is hand-written and tied by EXACT script correspondence (kinds, positions, order, '
               'every own cost) on every run; scipy matching and set order are validated oracle inputs, universally quantified in the theorems; '
               'modelled node classes: leaves, lists, key/value pairs, DictNode/MultiSetNode without duplicate elements, FixedKeyDictNode; '
               'XML/CSV/plist/dataclass nodes not modelled (not claimed).')
CLAIMED = {
    'C01': dict(
        text='Theorem C01 (closed under the global context): for every oracle answer, positions and well-formed trees, if the big-step model '
             'of the edit engine yields a script e for (a, b) then valid a b e: every child of a is paired or removed exactly once, every child '
             'of b paired or inserted exactly once, in order for lists, recursively; string edits spell both strings. The model is tied to the '
             'code by exact script correspondence on ~1200 (quick) document pairs x 9 option sets and the same predicate is evaluated on the '
             "implementation's own scripts.",
        design_ref='5.1', note=SCRIPT_NOTE,
        technique='Coq proof (structural induction over trees + matrix back-trace lemmas) + exact script correspondence'),
    'C03': dict(
        text='Theorem C03: every compound edit of the model script reports the sum of the own costs of the sub-edits it lists, at every level '
             '(EditDistance: path-sum invariant of the cost matrix; MultiSetEdit: the unmatched-node term as the current source computes it), and '
             'the flat list of non-zero leaf edits sums to the same total. The annotated-tree view (edited_cost) is compared on every '
             'implementation run only (not modelled).',
        design_ref='5.3', note=SCRIPT_NOTE,
        technique='Coq proof (path-sum invariant, additivity by induction) + exact script correspondence'),
    'C10': dict(
        text="Theorem C10: at every nesting level of the model script, 'none' strategy pairs only equal keys, 'auto' pairs every shared key "
             'with itself (completeness of the pre-matching loop under distinct keys), list edits off gives positional pairs plus the surplus '
             'tail only, off-when-same-length gives positional pairs only on equal lengths; dispatch conditions and slices are translated from '
             'source on every run.',
        design_ref='5.10', note=SCRIPT_NOTE,
        technique='Coq proof over translated dispatch/slices + exact script correspondence'),
    'C14': dict(
        text='Theorems (Coq 8.16, closed under the global context) about the option resolution that is re-translated from '
             '__main__.py and get_filetype on every run: it equals the documented resolution for every namespace argparse can '
             'produce, the alias spellings coincide, an explicit type wins over the file name. The namespace-to-resolution '
             'model is tied to the running code by an exhaustive enumeration of type-selection options through the real '
             'argparse + main(); CLI output = library output is decided by differential end-to-end runs.',
        design_ref='5.14',
        note='Trusted: Coq kernel + VM; the ast translator (fail-closed); argparse (enumerated, not modelled); mimetypes.guess_type '
             'as an oracle input; CLI-vs-library equality is differential testing, not a theorem.',
        technique='Coq proof over code translated from source on every run + exhaustive correspondence through argparse/main'),
}
NOT_YET = 'model and theorem not completed yet (DESIGN.md section 7)'
NA = {}

checks = []
for p in props:
    i = p['id']
    if i in CLAIMED:
        c = CLAIMED[i]
        checks.append({
            'property_id': i,
            'quick_cmd': f'./check {i} --tier quick',
            'thorough_cmd': f'./check {i} --tier thorough',
            'evidence_file': f'/verif/evidence/{i}.json',
            'replay_cmd_template': f'./check {i} --replay {{path}}',
            'engine': 'coq',
            'level_claimed': {'category': c.get('category', 'proof'), 'text': c['text'], 'design_ref': c['design_ref']},
            'level_note': c['note'],
            'technique': c['technique'],
        })
m = {
    'version': 1,
    'setup_cmd': './check --setup',
    'hooks': {'guard': 'GRAPHTAGE_VERIF',
              'enable': 'no source hooks: all instrumentation is applied from outside by /verif/harness at import time '
                        '(GRAPHTAGE_VERIF=1 is set for the implementation workers but the source never reads it)',
              'baseline_off_cmd': 'cd /repo && /venv/bin/python -m pytest -ra -q -p no:cacheprovider --timeout=900 '
                                  '--continue-on-collection-errors',
              'source_commits': [], 'add_only': True},
    'engines': [{'name': 'coq', 'path': '/verif/coq', 'serves_properties': sorted(CLAIMED),
                 'kind_free_text': 'Coq 8.16.1 development: gen/ (translated from /repo on every run), theories/ (models, proofs), '
                                   'props/ (property theorems); driven by /verif/check -> /verif/harness'}],
    'checks': checks,
    'notes': 'See DESIGN.md. Known findings: known_findings.json. Seeded changes: seeded/.',
    'not_applicable': [{'property_id': p['id'], 'reason': NA.get(p['id'], NOT_YET)} for p in props if p['id'] not in CLAIMED],
}
json.dump(m, open(os.path.join(V, 'MANIFEST.json'), 'w'), indent=1)
print('claimed:', sorted(CLAIMED))
