#!/bin/bash
# Audit of the Coq development: forbidden vocabulary + coqchk -o over every property file (independent checker; prints axioms).
cd /verif/coq
echo "== forbidden vocabulary (comments stripped by eye: matches inside (* *) are listed too)"
grep -rnE '\b(Admitted|admit|Axiom|Axioms|Parameter|Parameters|Conjecture|Admit Obligations|Unset Guard Checking|bypass_check|Unset Positivity Checking|Unset Universe Checking|type-in-type|impredicative-set)\b' theories props gen --include=*.v | grep -v '(\*.*\*)' | head -40
echo "== coqchk"
MODS=$(ls props/Prop*.v | sed 's#props/\(.*\)\.v#GTprops.\1#')
timeout 3400 coqchk -silent -o -Q theories GT -Q gen GTgen -Q props GTprops $MODS 2>&1 | tail -n 20
