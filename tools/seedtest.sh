#!/bin/bash
# usage: tools/seedtest.sh <seed-id> <property> <worktree>   - verify a seeded change and run the check against it
# 1. collect patch + demo + notes from the worktree into /verif/seeded/<seed-id>/
# 2. confirm: demo fails with the change, passes without; the test suite passes with the change
# 3. apply to /repo, run ./check <property> --tier quick, undo
set -u
ID=$1; PROP=$2; WT=$3
D=/verif/seeded/$ID
mkdir -p $D
if [ -d "$WT" ]; then
  (cd $WT && git diff -- graphtage > $D/patch.diff)
  cp $WT/seed_demo.py $D/demo.py 2>/dev/null
  cp $WT/seed_notes.md $D/notes.md 2>/dev/null
fi
[ -s $D/patch.diff ] || { echo "no patch"; exit 2; }
S=/tmp/seedverify_$ID
rm -rf $S; git -C /repo worktree add -q --detach $S HEAD || exit 2
cd $S
PYTHONPATH=$S timeout 600 /venv/bin/python $D/demo.py > $D/demo_without.log 2>&1; RC0=$?
git apply $D/patch.diff || { echo "patch does not apply"; cd /; git -C /repo worktree remove --force $S; exit 2; }
PYTHONPATH=$S timeout 600 /venv/bin/python $D/demo.py > $D/demo_with.log 2>&1; RC1=$?
timeout 1500 /venv/bin/python -m pytest -ra -q -p no:cacheprovider --timeout=900 --continue-on-collection-errors > $D/tests_with.log 2>&1; RCT=$?
TESTS=$(tail -n 1 $D/tests_with.log)
cd /; git -C /repo worktree remove --force $S
echo "demo without change rc=$RC0 (want 0); with change rc=$RC1 (want 1); tests rc=$RCT: $TESTS"
# run the check against the change applied to /repo
cd /verif
git -C /repo apply $D/patch.diff || { echo "cannot apply to /repo"; exit 2; }
(time ./check $PROP --tier quick) > $D/check_with.log 2>&1; RCC=$?
git -C /repo checkout -- .
grep -h "VIOLATION\|KNOWN-FINDING" $D/check_with.log | cut -c1-250
echo "check rc=$RCC"
python3 - <<PY
import json,os
m={'seed':'$ID','property':'$PROP','demo_rc_without':$RC0,'demo_rc_with':$RC1,'tests_rc_with':$RCT,'tests_summary':'''$TESTS''','check_rc_with_change':$RCC,
   'check_cmd':'git -C /repo apply seeded/$ID/patch.diff; ./check $PROP --tier quick; git -C /repo checkout -- .'}
p='$D/meta.json'
old=json.load(open(p)) if os.path.exists(p) else {}
old.update(m)
json.dump(old,open(p,'w'),indent=1)
PY
