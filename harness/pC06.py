"""C06 - both documents can be read back from the rendered diff.

Implementation side (worker): build both trees with json.build_tree under a dictionary strategy / list mode,
`d = a.diff(b)`, print `d` with the real JSONFormatter to Printer(out_stream=StringIO, ansi_color=True) for each
of the four layouts (join_lists, join_dict_items), and once more with ansi_color=False.  The ANSI output is
DECODED (pure SGR + combining-mark decoder, no property logic) into one observation per written character:
bit0 red background, bit1 green background, bit2 other background, bit3 strike (U+0336 follows), bit4 under-plus
(U+031F follows), bit5 cyan foreground.  The script is read off the very diff that was printed (d.edit).

Verdicts (Gallina, vm_compute): `corr_C06` = the model's jrender on the implementation's own script equals the
decoded stream character by character; `holds_C06` = both projections of the IMPLEMENTATION's stream read, with
the lenient reader, as the first resp. second document and there are no change marks iff the documents are
equal as data.  Known-finding classes are Gallina predicates too (kf_C06_cross_type, kf_C06_zero_size).

Reported separately (a count, never the verdict): both projections after a textual delimiter repair are given
to Python's json.loads and compared with the documents (`json_loads_agree`).

printer.py facts the decoder relies on: strike()/under_plus() are @only_ansi, so with ansi_color=False there are
NO combining marks at all (Remove/Insert and string runs are bracketed by ~~ / ++, Match/Replace print
`from -> to` unmarked): the no-colour text cannot be decoded into marks and is only recorded.  With
ansi_color=True every character written through Printer.write is followed by the active combining marks;
newlines, indentation and escape sequences are raw writes.  JSONStringFormatter.escape = json.dumps(c)[1:-1]
escapes every non-ASCII character, so a literal U+0336 / U+031F of the data never reaches the output: every
combining mark in the output is a change mark.
"""
import io
import json
import os
import random
import re
import time

from harness import common, scriptlib

PROP = 'C06'
THEOREMS = ['C06_model', 'C06_model_docs', 'C06_model_text', 'C06_model_marks', 'C06_model_holds', 'C06_priced_text', 'C06_priced_marks',
            'C06_bridge', 'C06_text', 'C06_first', 'C06_second', 'C06_marks', 'C06_marks_cost', 'C06_text_partial', 'C06_reads',
            'C06_reads_ordered_partial']
MODELS = ['theories/RenderModel.vo', 'theories/ScriptKnown.vo']
HEADER = ('From Coq Require Import List Bool ZArith String.\n'
          'Require Import GT.PyBase GT.Data GT.ScriptSpec GT.JsonSpec GT.RenderSpec.\n'
          'Import ListNotations.\nOpen Scope Z_scope.\nOpen Scope string_scope.\n')
MODEL_HEADER = 'Require Import GT.RenderModel.\n'
KF_CLASSES = ['kf_C06_cross_type', 'kf_C06_zero_size', 'kf_C06_mapping_replaced_in_list']
LAYOUTS = [[False, False], [False, True], [True, False], [True, True]]
DEV_KNOWN = os.path.join(common.VERIF, 'corpus', 'C06.known.json')

STRIKE, PLUS = '\u0336', '\u031f'
SGR = re.compile(r'\x1b\[([0-9;]*)m')


# ------------------------------------------------------------------ decoder (pure; no property logic)

def decode(text):
    """ANSI text -> list of [code point, observation bits] for every character written."""
    out = []
    bg = 0
    cyan = 0
    i, n = 0, len(text)
    while i < n:
        c = text[i]
        if c == '\x1b':
            m = SGR.match(text, i)
            if not m:
                raise ValueError(f'unknown escape sequence at offset {i}')
            for p in (m.group(1) or '0').split(';'):
                p = int(p or 0)
                if p == 0:
                    bg, cyan = 0, 0
                elif p == 41:
                    bg = 1
                elif p == 42:
                    bg = 2
                elif p == 49:
                    bg = 0
                elif 40 <= p <= 47 or 100 <= p <= 107:
                    bg = 4
                elif p == 36:
                    cyan = 32
                elif 30 <= p <= 39 or 90 <= p <= 97:
                    cyan = 0
            i = m.end()
            continue
        if c == STRIKE or c == PLUS:
            if not out:
                raise ValueError('combining mark before any character')
            out[-1][1] |= 8 if c == STRIKE else 16
        else:
            out.append([ord(c), bg | cyan])
        i += 1
    return out


def runs_of(obs):
    """run-length form: [[bits, [code points...]], ...]"""
    runs = []
    for c, o in obs:
        if runs and runs[-1][0] == o:
            runs[-1][1].append(c)
        else:
            runs.append([o, [c]])
    return runs


# ------------------------------------------------------------------ implementation side (worker)

def impl_render(item):
    """item: {'a','b','opts':[dict strategy, list mode]}; all four layouts are printed from fresh diffs."""
    import graphtage
    import graphtage.printer as gp
    from graphtage import json as gjson
    scriptlib._quiet()
    res = {'lays': []}
    for lay in LAYOUTS:
        a, b, _ = scriptlib.build_pair(item)
        d = a.diff(b)
        entry = {'lay': lay}
        if not res.get('script'):
            res['a'] = scriptlib.ser_tree(a)
            res['b'] = scriptlib.ser_tree(b)
            res['script'] = scriptlib.ser_edit(d.edit)
        else:
            s = scriptlib.ser_edit(d.edit)
            if s != res['script']:
                entry['script'] = s                  # a different script on a fresh diff (not expected): kept per layout
        opts = {'join_lists': bool(lay[0]), 'join_dict_items': bool(lay[1])}
        out = io.StringIO()
        pr = gp.Printer(out, ansi_color=True, quiet=True, options=opts)
        gp.colorama.deinit()      # Printer(ansi_color=True) calls colorama.init(), which wraps sys.stdout once more
        gjson.JSONFormatter.DEFAULT_INSTANCE.print(pr, d)
        entry['runs'] = runs_of(decode(out.getvalue()))
        out2 = io.StringIO()
        a2, b2, _ = scriptlib.build_pair(item)
        d2 = a2.diff(b2)
        pr2 = gp.Printer(out2, ansi_color=False, quiet=True, options=opts)
        gjson.JSONFormatter.DEFAULT_INSTANCE.print(pr2, d2)
        entry['nocolor'] = [ord(c) for c in out2.getvalue()]
        res['lays'].append(entry)
    return res


# ------------------------------------------------------------------ the separate json.loads count (not the verdict)

def _projection(runs, drop_bits):
    out = []
    for o, cs in runs:
        if o & drop_bits or o & 32:
            continue
        out.extend(cs)
    return ''.join(map(chr, out))


def _repair(text):
    """delimiter repair outside string literals: drop commas, then put one between adjacent values"""
    toks = re.findall(r'"(?:[^"\\]|\\.)*"|[\[\]{}:]|[^\s,\[\]{}:"]+', text, re.S)
    out = []
    prev_end = False
    for t in toks:
        starts = t[0] not in ']}:'
        if prev_end and starts:
            out.append(',')
        out.append(t)
        prev_end = t[0] not in '[{:'
    return ''.join(out)


def json_loads_agree(runs, a, b):
    try:
        pa = json.loads(_repair(_projection(runs, 2 | 16)))
        pb = json.loads(_repair(_projection(runs, 1 | 8)))
    except ValueError:
        return False
    return _typed_eq(pa, a) and _typed_eq(pb, b)


def _typed_eq(x, y):
    if type(x) is not type(y):
        return False
    if isinstance(x, list):
        return len(x) == len(y) and all(_typed_eq(p, q) for p, q in zip(x, y))
    if isinstance(x, dict):
        return x.keys() == y.keys() and all(_typed_eq(x[k], y[k]) for k in x)
    if isinstance(x, float):
        return repr(x) == repr(y)
    return x == y


# ------------------------------------------------------------------ generators

# quote, backslash, tilde, plus, minus, greater-than, space, control characters, the combining marks
# themselves, BMP and astral code points, lone surrogates, JSON structure characters
CHARS = ['"', '\\', '~', '+', '-', '>', ' ', '\n', '\t', '\x00', '\x1b', '\x7f', STRIKE, PLUS, '\u00e9', '\u2028',
         '\uffff', '\U00010000', '\U0001F600', '\ud800', '\udc00', ',', ':', '[', ']', '{', '}', 'a', 'b', 'c', '1', '0',
         'u', 'm', '/']
WORDS = ['', 'a', 'b', 'ab', 'abc', 'a -> b', '~~x~~', '++y++', ' -> ', 'hello', 'hallo', '1', 'true', 'null', '[1]',
         'a' + STRIKE, 'b' + PLUS, '\x1b[41m', '\u00e9', '\U0001F600']
KEYS = ['a', 'b', 'c', 'key', 'kez', 'k', '', '"', '~~', '++', ' -> ', STRIKE, '\u00e9', 'aaaaaaaX', 'aaaaaaaY', 'x y', '\n']
NUMS = [0, 1, 2, 5, 10, 11, 100, -1, 12345, 0.5, 1.0, 1.5, -0.0, 1e16, 10.0, 2.25, 1e-7, 2 ** 63]


def gen_str(rng):
    r = rng.random()
    if r < 0.45:
        return rng.choice(WORDS)
    return ''.join(rng.choice(CHARS) for _ in range(rng.choice([1, 1, 2, 3, 5, 8])))


def gen_scalar(rng):
    r = rng.random()
    if r < 0.3:
        return rng.choice(NUMS)
    if r < 0.75:
        return gen_str(rng)
    if r < 0.87:
        return rng.choice([True, False])
    return None


def gen_value(rng, depth, width):
    r = rng.random()
    if depth <= 0 or r < 0.3:
        return gen_scalar(rng)
    if r < 0.65:
        return [gen_value(rng, depth - 1, width) for _ in range(rng.randint(0, width))]
    ks = rng.sample(KEYS, rng.randint(0, min(width, len(KEYS))))
    return {k: gen_value(rng, depth - 1, width) for k in ks}


def mutate_str(rng, s):
    r = rng.random()
    if s and r < 0.35:
        i = rng.randrange(len(s))
        return s[:i] + rng.choice(CHARS) + s[i + 1:]
    if s and r < 0.6:
        i = rng.randrange(len(s))
        return s[:i] + s[i + 1:]
    i = rng.randint(0, len(s))
    return s[:i] + ''.join(rng.choice(CHARS) for _ in range(rng.choice([1, 1, 2]))) + s[i:]


def mutate(rng, v):
    """local edits with this module's alphabet; container edits are scriptlib's"""
    if isinstance(v, str) and rng.random() < 0.8:
        return mutate_str(rng, v)
    if isinstance(v, list) and v and rng.random() < 0.45:
        v = list(v)
        i = rng.randrange(len(v))
        v[i] = mutate(rng, v[i])
        return v
    if isinstance(v, dict) and v and rng.random() < 0.45:
        v = dict(v)
        k = rng.choice(list(v))
        if rng.random() < 0.3:
            nk = mutate_str(rng, k)
            if nk not in v:
                v = {(nk if kk == k else kk): vv for kk, vv in v.items()}
                return v
        v[k] = mutate(rng, v[k])
        return v
    if isinstance(v, (list, dict)):
        return scriptlib.mutate(rng, v)
    r = rng.random()
    if r < 0.5:
        return gen_scalar(rng)
    if r < 0.7 and isinstance(v, (int, float)) and not isinstance(v, bool):
        return str(v) if rng.random() < 0.5 else float(v)
    if r < 0.8 and isinstance(v, bool):
        return int(v)
    return gen_value(rng, 1, 2)


def gen_pair(rng, depth, width):
    r = rng.random()
    if r < 0.25:
        return scriptlib.gen_pair(rng, depth, width)
    a = gen_value(rng, depth, width)
    if r < 0.32:
        return a, json.loads(json.dumps(a))
    if r < 0.9:
        bv = mutate(rng, a)
        if rng.random() < 0.4:
            bv = mutate(rng, bv)
        return a, bv
    return a, gen_value(rng, depth, width)


FIXED = [
    ([1, 2, 3], [1, 3]), ([1], [1.0]), ([True], [1]), (['', 1], [1]), ([], [None]), ([None], []), ([], [1]), ([1], []),
    ([], []), ({}, {}), ({}, {'a': 1}), ({'a': 1}, {}), ([[]], [[], []]), ([{}], [{}, []]),
    ([1, 2], [3, 4]), ([1, 2, 3], [4, 5]), ([1, [2, 3]], [1, 5]), ([[1, 2], 3], [3]), (5, [5]), ([5], 5), ({'a': 1}, [1]),
    ('hello', 'hallo!'), ('abc', ''), ('', 'abc'), ('a', 'b'), ('a"\\b', 'a"\\c' + STRIKE + '\U0001F600'),
    ('x' + STRIKE + 'y', 'x' + PLUS + 'y'), ('a -> b', 'a ~~-~~> b'), ('++', '~~'),
    ({'a': 1, 'b': [1, 2]}, {'a': 2, 'c': [1]}), ({'key': 1}, {'kez': 1}), ({'a': 1, 'b': 2, 'c': 3}, {'c': 3, 'b': 2, 'a': 1}),
    ({'a': [1], 'b': 2}, {'a': [1.0], 'b': 3}), ({'k': ['', 1]}, {'k': [1]}), ([['', 1]], [[1]]),
    ({'a': {'b': {'c': [1, {'d': 'x'}]}}}, {'a': {'b': {'c': [1, {'d': 'y'}, 2]}}}),
    ([1, 2, 3, 4, 5, 6], [2, 9, 4, 10, 6, 7]), ([1.5, 'a', None, True], [True, None, 'a', 1.5]),
    ({STRIKE: PLUS}, {PLUS: STRIKE}), ({'a': 1}, {'b': 1}), ({'a': 'x'}, {'b': 'x', 'a': 'x'}),
]


def tiny_docs():
    """exhaustive tiny documents (thorough tier): all documents of a small grammar, all ordered pairs"""
    atoms = [0, 1, 1.0, True, None, '', 'a', 'ab']
    docs = list(atoms)
    docs += [[]] + [[x] for x in atoms] + [[x, y] for x in atoms[:6] for y in atoms[:6]]
    docs += [{}] + [{'a': x} for x in atoms[:6]] + [{'a': x, 'b': y} for x in atoms[:4] for y in atoms[:4]]
    docs += [[[x]] for x in atoms[:4]] + [{'a': [x]} for x in atoms[:4]] + [[{'a': x}] for x in atoms[:4]]
    return docs


def generate(tier, rng):
    items = []
    strategies = ['auto', 'match', 'none']
    for a, b in FIXED:
        for ds in strategies:
            items.append({'a': a, 'b': b, 'opts': [ds, 'on']})
    n = 24 if tier == 'quick' else 820
    for i in range(n):
        depth, width = rng.choice([(1, 3), (2, 3), (2, 4), (3, 3)]) if tier == 'quick' else rng.choice([(1, 4), (2, 4), (3, 4), (3, 5), (4, 3)])
        a, b = gen_pair(rng, depth, width)
        lm = rng.choice(['on', 'on', 'on', 'off', 'same'])
        for ds in strategies:
            items.append({'a': a, 'b': b, 'opts': [ds, lm]})
    if tier != 'quick':
        docs = tiny_docs()
        pairs = [(x, y) for x in docs for y in docs]
        rng.shuffle(pairs)
        for k, (x, y) in enumerate(pairs):
            items.append({'a': x, 'b': y, 'opts': [strategies[k % 3], 'on']})
    return items


# ------------------------------------------------------------------ serialisation (Python -> Gallina)

def gz(cps):
    if not cps:
        return '[]'
    if all((32 <= c <= 126) or c == 10 for c in cps):
        return '(zs "' + ''.join('""' if c == 34 else chr(c) for c in cps) + '")'
    return '[' + ';'.join(str(c) for c in cps) + ']'


def case_term(r, entry):
    script = entry.get('script') or r['script']
    sc = scriptlib.case_term({'a': r['a'], 'b': r['b'], 'script': script, 'flat_total': 0, 'edited_cost': 0})
    runs = '[' + ';'.join(f'({o}, {gz(cs)})' for o, cs in entry['runs']) + ']'
    lay = entry['lay']
    return f'(Build_render_case ({scriptlib.b(lay[0])}, {scriptlib.b(lay[1])}) {sc} {runs})'


# ------------------------------------------------------------------ check

def open_findings():
    fs = [f for f in common.known_findings(PROP) if f.get('status') == 'open']
    if os.environ.get('C06_DEV_KNOWN') == '1' and os.path.exists(DEV_KNOWN):
        have = {f['id'] for f in fs}
        fs += [f for f in json.load(open(DEV_KNOWN))['findings']
               if f['property'] == PROP and f.get('status') == 'open' and f['id'] not in have]
    return fs


def show_runs(runs):
    """human-readable stream for replay files: <R:..> removed, <G:..> inserted, <A:..> arrow"""
    s = []
    for o, cs in runs:
        t = ''.join(map(chr, cs))
        tag = ('R' if o & 9 else '') + ('G' if o & 18 else '') + ('A' if o & 32 and not o & 27 else '') + ('?' if o & 4 else '')
        s.append(f'<{tag}:{t}>' if tag else t)
    return ''.join(s)


def run_items(run, wd, items, st, tag):
    t0 = time.time()
    res = common.run_impl('pC06', 'impl_render', items)
    t1 = time.time()
    keep, terms, internal = [], [], []
    loads_ok = 0
    for it, r in zip(items, res):
        if 'ok' not in r:
            internal.append((it, r))
            continue
        for entry in r['ok']['lays']:
            keep.append((it, r['ok'], entry))
            terms.append(case_term(r['ok'], entry))
            nontrivial = it['a'] != it['b'] and (isinstance(it['a'], (list, dict)) or isinstance(it['b'], (list, dict)))
            run.count([it['a'], it['b'], it['opts'], entry['lay']], nontrivial)
            if json_loads_agree(entry['runs'], it['a'], it['b']):
                loads_ok += 1
    evals = ['bad_cases holds_C06', 'bad_cases holds_C06_first', 'bad_cases holds_C06_second', 'bad_cases holds_C06_marks',
             'bad_cases in_domain_C06'] + [f'bad_cases (fun c => negb ({k} c))' for k in KF_CLASSES]
    header = HEADER
    if st['models_ok']:
        evals.append('bad_cases corr_C06')
        evals.append('bad_cases (fun c => negb (thm_C06 c))')      # cases INSIDE the hypotheses of C06_bridge
        header += MODEL_HEADER
    chunk = max(10, min(250, -(-len(terms) // (2 * common.NPROC))))
    bad, err = common.coq_eval_cases(wd, 'cases_' + tag, header, terms, evals, chunk=chunk)
    common.log(f'C06 {tag}: {len(items)} diffs, {len(terms)} renders, implementation {t1 - t0:.1f}s, '
               f'Coq evaluation {time.time() - t1:.1f}s')
    out = {'keep': keep, 'internal': internal, 'err': err, 'loads_ok': loads_ok, 'bad_holds': [], 'clauses': [[], [], []],
           'out_domain': [], 'kf': {k: set() for k in KF_CLASSES}, 'bad_corr': [], 'in_thm': []}
    if not err:
        out['bad_holds'] = bad[0]
        out['clauses'] = bad[1:4]
        out['out_domain'] = bad[4]
        for j, k in enumerate(KF_CLASSES):
            out['kf'][k] = set(bad[5 + j])
        out['bad_corr'] = bad[5 + len(KF_CLASSES)] if st['models_ok'] else []
        out['in_thm'] = bad[6 + len(KF_CLASSES)] if st['models_ok'] else []
    return out


BATCH = 1000      # diffs per evaluation batch (4 renders each)


def run_all(run, wd, items, st, tag, findings, stats):
    """run_items + judge over batches; aggregated counts"""
    agg = {'n_cases': 0, 'loads_ok': 0, 'bad_corr': [], 'err': None, 'clauses': [0, 0, 0], 'out_domain': 0,
           'kf': {k: 0 for k in KF_CLASSES}, 'samples': [], 'in_thm': 0, 'in_thm_contradicted': 0}
    for k in range(0, len(items), BATCH):
        out = run_items(run, wd, items[k:k + BATCH], st, f'{tag}{k // BATCH}')
        if out['err'] and not agg['err']:
            agg['err'] = out['err']
        judge(run, out, findings, stats)
        agg['n_cases'] += len(out['keep'])
        agg['loads_ok'] += out['loads_ok']
        agg['bad_corr'] += [out['keep'][i] for i in out['bad_corr']]
        for j in range(3):
            agg['clauses'][j] += len(out['clauses'][j])
        agg['out_domain'] += len(out['out_domain'])
        agg['in_thm'] += len(out['in_thm'])
        # C06_bridge: inside thm_C06 and corr_C06 true => the first two clauses hold; counted, never the verdict
        fail12 = set(out['clauses'][0]) | set(out['clauses'][1])
        agg['in_thm_contradicted'] += len([i for i in out['in_thm'] if i not in set(out['bad_corr']) and i in fail12])
        for c in KF_CLASSES:
            agg['kf'][c] += len(out['kf'][c])
        if not agg['samples']:
            agg['samples'] = [{'a': it['a'], 'b': it['b'], 'opts': it['opts'], 'lay': e['lay']} for it, _, e in out['keep'][:3]]
    return agg


def replay_obj(it, r, entry, why, extra=None):
    o = {'kind': why, 'item': {'a': it['a'], 'b': it['b'], 'opts': it['opts'], 'lay': entry['lay']},
         'observed': {'stream': show_runs(entry['runs']), 'nocolor': ''.join(map(chr, entry['nocolor'])),
                      'script': entry.get('script') or r['script']},
         'replay': './check C06 --replay <this file>'}
    if extra:
        o.update(extra)
    return o


def judge(run, out, findings, stats):
    n_viol = 0
    for i in out['bad_holds']:
        it, r, entry = out['keep'][i]
        cls = [f for f in findings if i in out['kf'].get(f.get('class'), ())]
        if cls:
            for f in cls:
                stats['known'].setdefault(f['id'], []).append({'a': it['a'], 'b': it['b'], 'opts': it['opts'], 'lay': entry['lay']})
            continue
        if n_viol < 3:
            failed = [n for n, b in zip(['first-projection', 'second-projection', 'marks-iff-different'], out['clauses']) if i in b]
            run.violation(replay_obj(it, r, entry, 'projection-does-not-read-back', {'failed_clauses': failed}))
        n_viol += 1
    for it, r in out['internal'][:3]:
        run.violation({'kind': 'internal-error', 'item': it, 'result': r})
    return n_viol


def corpus_items():
    p = os.path.join(common.VERIF, 'corpus', 'C06.jsonl')
    return [json.loads(l) for l in open(p) if l.strip()] if os.path.exists(p) else []


def check(tier, seed):
    run = common.Run(PROP, tier, seed)
    wd = common.Workdir(PROP)
    rng = random.Random(seed)
    try:
        st = common.build(MODELS, ['props/PropC06.vo'])
        common.proof_evidence(run, wd, PROP, st, THEOREMS)
        findings = open_findings()
        stats = {'known': {}}
        items = corpus_items() + generate(tier, rng)
        agg = run_all(run, wd, items, st, 'c', findings, stats)
        if agg['err']:
            run.violation({'kind': 'case-evaluation-failed', 'error': agg['err']}, no_input=True)
        bad_corr = list(agg['bad_corr'])
        first_corr = bad_corr[0] if bad_corr else None
        n_cases = agg['n_cases']
        loads_ok = agg['loads_ok']
        if (st['broken'] or bad_corr) and not run.violations:
            # the tie is broken and no case failed: search harder (bigger generator, more seeds)
            for s2 in range(2):
                more = generate('thorough' if s2 else tier, random.Random(seed * 1000 + 23 + s2))
                if s2:
                    more = more[:1500]
                a2 = run_all(run, wd, more, st, f's{s2}_', findings, stats)
                n_cases += a2['n_cases']
                loads_ok += a2['loads_ok']
                if a2['bad_corr'] and first_corr is None:
                    first_corr = a2['bad_corr'][0]
                if run.violations:
                    break
            if not run.violations:
                if st['broken']:
                    run.violation({'kind': 'tie-broken', 'what': st['broken']}, no_input=True)
                else:
                    it, r, entry = first_corr
                    run.violation(replay_obj(it, r, entry, 'correspondence-broken',
                                             {'what': 'corr_C06: the decoded output of JSONFormatter differs from the '
                                                      "model's jrender on the implementation's own script"}), no_input=True)
        for f in findings:
            hits = stats['known'].get(f['id'], [])
            if hits:
                run.known(f"{f['id']} {f['what']} [{len(hits)} render(s) in class {f.get('class')}, e.g. "
                          f"{json.dumps(hits[0])[:160]}]")
        run.cov['traces_validated_against_impl'] = n_cases
        run.cov['renders'] = n_cases
        run.cov['diffs'] = len(items)
        run.cov['corr_failures'] = len(bad_corr)
        run.cov['holds_failures_by_clause'] = {'first': agg['clauses'][0], 'second': agg['clauses'][1],
                                               'marks': agg['clauses'][2]}
        run.cov['json_loads_agree'] = f'{loads_ok} of {n_cases} (delimiter repair + json.loads of both projections; not the verdict)'
        run.cov['cases_outside_theorem_domain'] = agg['out_domain']
        run.cov['cases_inside_bridge_hypotheses'] = (
            f"{agg['in_thm']} of {agg['n_cases']} renders satisfy thm_C06 (JSON documents; the implementation's script valid, "
            f"additive, priced, shaped; outside the D4/D16/D33 classes): for these C06_bridge makes the first two clauses of "
            f"holds_C06 a theorem given corr_C06; contradicted on {agg['in_thm_contradicted']} (must be 0)")
        run.cov['known_finding_cases'] = {k: len(v) for k, v in stats['known'].items()}
        run.cov['kf_class_sizes'] = agg['kf']
        run.cov['rule'] = ('document pairs: fixed list (empty containers, adjacent remove+insert, container<->scalar, D4/D16 '
                           'shapes, strings with quote, backslash, ~ + - > space, control characters, U+0336/U+031F, BMP, '
                           'astral, lone surrogates) + seeded random documents (scriptlib generator and a string-heavy one) '
                           'paired by mutation; x 3 dictionary strategies (auto, match, none) x 4 layouts; list mode mostly '
                           'on; thorough adds all ordered pairs of a tiny document grammar. non-trivial = documents differ '
                           'and one is a container; distinct by (a, b, options, layout)')
        run.cov['samples'] = agg['samples']
        run.assumptions = [
            'the decoder (SGR background/foreground state + combining marks following a character) is trusted to report '
            'what a terminal shows; it contains no property logic and is exercised on every case by corr_C06',
            'the script is read off the printed diff itself (d.edit, scriptlib.ser_edit); node.edit of every from-node is '
            'assumed to be the edit listed for it by its parent (true unless on_diff overwrote it; corr_C06 would fail)',
            'strict reading of the repaired token list is C12\'s jparse (validated against json.loads there); number tokens '
            'are opaque; the no-colour output (ansi_color=False) carries no decodable marks and is only recorded',
            'leaves: str(object) of ints and finite floats equals json.dumps(object) (checked by corr_C06 on every case)',
            'the worker calls colorama.deinit() after constructing each Printer(ansi_color=True): every such Printer calls '
            'colorama.init(), which wraps sys.stdout once more, and a few hundred renders in one process end in '
            'RecursionError inside colorama (not part of this property; outside instrumentation only)']
        return run.finish()
    finally:
        wd.cleanup()


def replay(path):
    obj = json.load(open(path))
    item = obj.get('item') or obj.get('replay') or obj
    if isinstance(item, str) or 'a' not in item:
        print('replay file names no input (tie broken): re-run ./check C06')
        return 1
    wd = common.Workdir(PROP + 'r')
    try:
        st = common.build(MODELS, MODELS)
        run = common.Run(PROP, 'replay', 0)
        it = {'a': item['a'], 'b': item['b'], 'opts': item.get('opts', ['auto', 'on'])}
        out = run_items(run, wd, [it], st, 'r')
        want = item.get('lay')
        bad = False
        for i, (it2, r, entry) in enumerate(out['keep']):
            if want is not None and entry['lay'] != want:
                continue
            failed = [n for n, b in zip(['first', 'second', 'marks'], out['clauses']) if i in b]
            print(json.dumps({'lay': entry['lay'], 'stream': show_runs(entry['runs']),
                              'nocolor': ''.join(map(chr, entry['nocolor'])), 'holds_C06': i not in out['bad_holds'],
                              'failed_clauses': failed, 'corr_C06': i not in out['bad_corr']}, indent=1)[:4000])
            bad = bad or i in out['bad_holds']
        if out['err'] or out['internal'] or bad or not out['keep']:
            if out['err'] or out['internal']:
                print(out['err'] or out['internal'][0][1])
            print(f'VIOLATION property={PROP} replay={path}')
            return 1
        print('replay: property holds on this input')
        return 0
    finally:
        wd.cleanup()
