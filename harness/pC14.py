"""C14 - the command line agrees with the library and honours its option spellings.

Implementation side: the real argparse + main() with get_filetype / build_tree_handling_errors / Printer
wrapped from outside to record what was resolved.  Verdicts: Gallina `holds_C14` (observed = documented
resolution) and `corr_C14` (observed = translated resolution) under vm_compute.
"""
import io
import itertools
import json
import os
import random
import sys

from harness import common

PROP = 'C14'
THEOREMS = ['C14_refines', 'C14_k', 'C14_j', 'C14_from', 'C14_to', 'C14_explicit_from', 'C14_explicit_to',
            'C14_type_flag_to', 'C14_default_mimes']
HEADER = ('From Coq Require Import String List Bool.\nRequire Import GT.PyBase GTgen.CliTables GT.CliSpec.\n'
          'Import ListNotations.\nOpen Scope string_scope.\n')

FIELDS = ['from_mime', 'to_mime', 'no_color', 'color', 'html', 'condensed', 'join_lists', 'join_dict_items',
          'dict_strategy', 'no_key_edits', 'no_list_edits', 'no_list_edits_when_same_length', 'no_status',
          'quiet', 'only_edits', 'edit_digest', 'format']


# ------------------------------------------------------------------ implementation side (worker)

class _NoClose(io.StringIO):
    def close(self):
        pass

    def isatty(self):
        return False


def impl_resolve(item):
    """Run main(argv) with recording wrappers; build_tree_handling_errors is cut short."""
    import argparse
    import mimetypes
    import graphtage
    import graphtage.__main__ as gm
    from graphtage import graphtage as gg, printer as gp
    rec = {'stage': 0}
    orig_parse = argparse.ArgumentParser.parse_args

    def parse_args(self, *a, **k):
        ns = orig_parse(self, *a, **k)
        rec['ns'] = {k2: v for k2, v in vars(ns).items()}
        return ns
    orig_gf = gg.get_filetype
    calls = []

    def get_filetype(path=None, mime_type=None):
        guess = mimetypes.guess_type(path)[0]
        entry = {'path': path, 'mime': mime_type, 'guess': guess, 'type': None}
        calls.append(entry)
        ft = orig_gf(path, mime_type)
        entry['type'] = ft.name
        rec['stage'] = len(calls)
        return ft
    orig_init = gp.Printer.__init__

    def pinit(self, *a, **k):
        if k.get('options') is not None:
            rec['printer'] = {'ansi': k.get('ansi_color'), 'quiet': k.get('quiet'),
                              'jl': k['options'].get('join_lists'), 'jd': k['options'].get('join_dict_items')}
        return orig_init(self, *a, **k)
    patched = []
    for ft in set(graphtage.FILETYPES_BY_TYPENAME.values()):
        cls = type(ft)

        def bth(self, path, options=None, _cls=cls):
            rec['options'] = {k2: getattr(options, k2) for k2 in
                              ('allow_key_edits', 'auto_match_keys', 'allow_list_edits',
                               'allow_list_edits_when_same_length')}
            return 'stop'
        patched.append((cls, cls.build_tree_handling_errors))
        cls.build_tree_handling_errors = bth
    argparse.ArgumentParser.parse_args = parse_args
    gg.get_filetype = get_filetype
    gp.Printer.__init__ = pinit
    out, err = _NoClose(), _NoClose()
    so, se = sys.stdout, sys.stderr
    sys.stdout, sys.stderr = out, err
    try:
        try:
            status = gm.main(['graphtage'] + item['argv'])
        except SystemExit as e:
            status = f'SystemExit({e.code})'
    finally:
        sys.stdout, sys.stderr = so, se
        argparse.ArgumentParser.parse_args = orig_parse
        gg.get_filetype = orig_gf
        gp.Printer.__init__ = orig_init
        for cls, f in patched:
            cls.build_tree_handling_errors = f
    rec['calls'] = calls
    rec['status'] = status
    return rec


class E2ERaised(Exception):
    pass


def impl_process(item):
    """The command as a REAL process (own stdout, status output enabled) against the same command with --no-status:
    the spelling of the status option must not change a byte of the diff or the exit status."""
    import subprocess
    d = item['dir']
    os.makedirs(d, exist_ok=True)
    paths = []
    for name, text in item['files']:
        p = os.path.join(d, name)
        with open(p, 'w', encoding='utf-8', newline='') as f:
            f.write(text)
        paths.append(p)
    outs = []
    for extra in ([], ['--no-status'], ['--quiet']):
        pr = subprocess.run([sys.executable, '-m', 'graphtage'] + item['argv'] + extra + paths,
                            stdout=subprocess.PIPE, stderr=subprocess.PIPE, timeout=180)
        outs.append({'extra': extra, 'status': pr.returncode, 'stdout': pr.stdout.decode('utf-8', 'surrogateescape'),
                     'traceback': 'Traceback' in pr.stderr.decode('utf-8', 'replace')})
    for p in paths:
        os.unlink(p)
    return {'runs': outs}


def impl_end_to_end(item):
    """main(argv) on real files, then the library pipeline with the configuration main() resolved."""
    import graphtage
    import graphtage.__main__ as gm
    from graphtage import graphtage as gg, printer as gp
    d = item['dir']
    os.makedirs(d, exist_ok=True)
    paths = []
    for name, text in item['files']:
        p = os.path.join(d, name)
        with open(p, 'w') as f:
            f.write(text)
        paths.append(p)
    seen = {}
    orig_gf = gg.get_filetype

    def get_filetype(path=None, mime_type=None):
        ft = orig_gf(path, mime_type)
        seen.setdefault('types', []).append(ft.name)
        return ft
    orig_bo = gg.BuildOptions.__init__

    def boinit(self, **k):
        seen['options'] = dict(k)
        return orig_bo(self, **k)
    orig_init = gp.Printer.__init__

    def pinit(self, *a, **k):
        if k.get('options') is not None:
            seen['printer'] = {'ansi_color': k.get('ansi_color'), 'options': dict(k['options'])}
        return orig_init(self, *a, **k)
    gg.get_filetype, gg.BuildOptions.__init__, gp.Printer.__init__ = get_filetype, boinit, pinit
    out, err = _NoClose(), _NoClose()
    so, se = sys.stdout, sys.stderr
    sys.stdout, sys.stderr = out, err
    cli_exc = None
    try:
        status = gm.main(['graphtage'] + item['argv'] + paths)
    except Exception as e:      # an internal error while rendering (property C13's subject): the library must fail alike
        status = None
        cli_exc = type(e).__name__
    finally:
        sys.stdout, sys.stderr = so, se
        gg.get_filetype, gg.BuildOptions.__init__, gp.Printer.__init__ = orig_gf, orig_bo, orig_init
    cli_text = out.getvalue()
    # library pipeline
    opts = gg.BuildOptions(**seen['options'])
    ft_from = graphtage.FILETYPES_BY_TYPENAME[seen['types'][0]]
    ft_to = graphtage.FILETYPES_BY_TYPENAME[seen['types'][1]]
    lib_out = _NoClose()
    pr = gp.Printer(lib_out, ansi_color=seen['printer']['ansi_color'], quiet=True, options=seen['printer']['options'])
    from_tree = ft_from.build_tree(paths[0], opts)
    to_tree = ft_to.build_tree(paths[1], opts)
    # what a library user writes for the three output modes (public API only: Filetype.build_tree, TreeNode.diff,
    # get_all_edits, get_all_edit_contexts, print_parent_context, formatter.print)
    argv = item['argv']
    fmt = None
    for i, a in enumerate(argv):
        if a in ('--format', '-f') and i + 1 < len(argv):
            fmt = argv[i + 1]
    formatter = (graphtage.FILETYPES_BY_TYPENAME[fmt] if fmt else ft_from).get_default_formatter()
    had = False
    lib_exc = None
    try:
      with pr:
          if '-e' in argv or '--only-edits' in argv:
              for edit in from_tree.get_all_edits(to_tree):
                  pr.write(str(edit))
                  pr.newline()
                  had = had or edit.has_non_zero_cost()
          elif '-d' in argv or '--edit-digest' in argv:
              from colorama import Fore
              for ancestors, edit in from_tree.get_all_edit_contexts(to_tree):
                  for i, node in enumerate(ancestors):
                      if node.parent is not None:
                          node.parent.print_parent_context(pr, for_child=node)
                      if i == len(ancestors) - 1:
                          with pr.color(Fore.BLUE):
                              pr.write(" -> ")
                          formatter.print(pr, edit)
                  pr.newline()
                  had = had or edit.has_non_zero_cost()
          else:
              diff = from_tree.diff(to_tree)
              formatter.print(pr, diff)
              had = any(any(e.has_non_zero_cost() for e in n.edit_list) for n in diff.dfs())
          pr.write('\n')
    except Exception as e:
        lib_exc = type(e).__name__
    lib_status = None if lib_exc else (1 if had else 0)
    if cli_exc or lib_exc:
        # both sides must fail with the same class; the partial texts are not compared
        # graphtage's global printer state is unusable after an exception: report through an exception so that the
        # worker is restarted before the next item
        raise E2ERaised(json.dumps({'cli_exc': cli_exc, 'lib_exc': lib_exc}))
    for p in paths:
        os.unlink(p)
    return {'cli_text': cli_text, 'cli_status': status, 'lib_text': lib_out.getvalue(), 'lib_status': lib_status,
            'types': seen['types']}


# ------------------------------------------------------------------ generators

def type_choices():
    tr = common.COQ + '/gen/CliTables.v'
    import re
    s = open(tr).read()
    tys = re.findall(r'"([^"]+)"', s.split('typenames')[1].split('].')[0])
    mimes = re.findall(r'\("([^"]+)", "[^"]+"\)', s.split('mime_table')[1].split('].')[0])
    return tys, mimes


ALIASES = [[], ['-k'], ['--no-key-edits'], ['-ds', 'none'], ['--dict-strategy', 'none'], ['-ds', 'auto'],
           ['-ds', 'match'], ['-j'], ['--condensed'], ['-jl', '-jd'], ['--join-lists'], ['-jd'],
           ['-l'], ['-ll'], ['--no-list-edits'], ['--no-list-edits-when-same-length'], ['-c'], ['--color'],
           ['--no-color'], ['--no-status'], ['--quiet'], ['-k', '-j', '-l', '--no-color'], ['-ds', 'match', '-jl', '-ll'],
           ['--html'], ['-e'], ['-d'], ['-f', 'yaml'], ['--format', 'json', '-k']]
NAMES = ['a.json', 'b.yaml', 'c.xml', 'd.csv', 'e.plist', 'f.json5', 'g.html', 'h.pkl', 'i.yml', 'noext', 'weird.zzz']


def gen_resolution_cases(tier, rng):
    tys, mimes = type_choices()
    sel = [[]] + [['--{side}-mime', m] for m in mimes] + [['--{side}-' + t] for t in tys]
    cases = []
    k = 0
    for fs, ts in itertools.product(sel, sel):
        if tier == 'quick' and fs and ts and rng.random() < 0.55:
            continue
        al = ALIASES[k % len(ALIASES)]
        k += 1
        argv = [x.replace('{side}', 'from') for x in fs] + [x.replace('{side}', 'to') for x in ts] + al
        argv += [rng.choice(NAMES), rng.choice(NAMES)]
        cases.append({'argv': argv})
    # all alias sets with no type selection, over every pair of names that resolves
    for al in ALIASES:
        for a, b in (('a.json', 'b.yaml'), ('i.yml', 'f.json5'), ('noext', 'a.json'), ('a.json', 'weird.zzz')):
            cases.append({'argv': al + [a, b]})
    return cases


DOCS = [('json', '{"a": [1, 2, 3], "b": {"c": "x y", "d": null}}', '{"a": [1, 3, 4], "b": {"c": "x z", "e": true}}'),
        ('json', '[1, [2, "three"], {"k": 4.5}]', '[1, [2, "thr3e", 5], {"k": 4.5}]'),
        ('json', '{"same": [true, false]}', '{"same": [true, false]}'),
        ('yaml', 'a:\n- 1\n- 2\nb: hello\n', 'a:\n- 1\n- 3\nb: hullo\nc: new\n'),
        ('json5', '{a: 1, b: [1,2,],}', '{a: 2, b: [2,1,],}'),
        ('csv', 'a,b,c\n1,2,3\n', 'a,b,c\n1,5,3\n4,5,6\n'),
        ('xml', '<r><a x="1">t</a><b/></r>', '<r><a x="2">u</a><c/></r>')]
E2E_OPTS = [[], ['-k'], ['-ds', 'none'], ['-ds', 'match'], ['-j'], ['-jl', '-jd'], ['-l'], ['-ll'], ['-jl'],
            ['-k', '-j'], ['--color'], ['--no-color', '-jd'],
            # output modes and cross-format rendering: what the CLI loads (build_tree_handling_errors) must print like what
            # the library loads (Filetype.build_tree) in every mode, not only in the default one
            ['-e'], ['-d'], ['-d', '-k'], ['-d', '--format', 'json'], ['--format', 'json'], ['--format', 'plist'],
            ['--format', 'xml'], ['--format', 'yaml'], ['--format', 'csv']]


# documents whose rendered diff contains characters that str.splitlines treats as line boundaries (\r, \x0b, \x0c, \x1c-\x1e,
# U+0085, U+2028, U+2029) or that a terminal-oriented writer might touch (tab, backspace, ESC)
PROC_DOCS = [('yaml', 'a: "x\\u2028y\\x0cz"\nb: "l1\\rl2"\nc: old\nd: "p\\x85q\\x1cr\\u2029s"\n',
              'a: "x\\u2028y\\x0cz"\nb: "l1\\rl2!"\nc: new\nd: "p\\x85q\\x1cr\\u2029s"\n'),
             ('xml', '<r a="u\u2028v"><t>x\u0085y</t><k>same\u2029</k></r>', '<r a="u\u2028w"><t>x\u0085z</t><k>same\u2029</k></r>'),
             ('csv', 'a\x0cb,c\x1cd\n1,2\n', 'a\x0cb,c\x1cd\n1,3\n'),
             ('json', '{"k": "tab\\there", "l": [1, 2]}', '{"k": "tab\\there", "l": [1, 3]}'),
             ('yaml', 'k: "a\\x0bb"\nl: [1, 2]\n', 'k: "a\\x0bb\\x1dc"\nl: [2, 1]\n')]
PROC_OPTS = [['--no-color'], ['--no-color', '-k'], ['--no-color', '-e'], ['--no-color', '-d'], ['--color']]


def gen_process_cases(tier, rng, workdir):
    cases = []
    n = 0
    for ty, a, b in PROC_DOCS:
        for opts in PROC_OPTS:
            if tier == 'quick' and opts not in (PROC_OPTS[0], PROC_OPTS[3]) and rng.random() < 0.6:
                continue
            cases.append({'argv': list(opts), 'dir': os.path.join(workdir, f'proc{n}'),
                          'files': [[f'x.{ty}', a], [f'y.{ty}', b]], 'doc': [ty, a, b], 'process': True})
            n += 1
    return cases


def process_bad(o):
    """[reason] if the three runs of one case (status on / --no-status / --quiet) disagree where they must agree"""
    r0, r1, r2 = o['runs']
    bad = []
    if r0['status'] != r1['status'] or r0['status'] != r2['status']:
        bad.append('exit status depends on the status option')
    if r0['stdout'] != r1['stdout']:
        bad.append('the diff on standard output differs between status output enabled and --no-status')
    if r0['traceback'] != r1['traceback']:
        bad.append('only one of the two runs ends in a traceback')
    return bad


def gen_e2e_cases(tier, rng, workdir):
    cases = []
    n = 0
    for ty, a, b in DOCS:
        for opts in E2E_OPTS:
            for how in ('ext', 'flag', 'mime'):
                if tier == 'quick' and rng.random() < 0.5:
                    continue
                ext = {'ext': ty, 'flag': 'dat', 'mime': 'txt'}[how]
                argv = list(opts) + ['--no-status']
                if how == 'flag':
                    argv += [f'--from-{ty}', f'--to-{ty}']
                elif how == 'mime':
                    mime = {'json': 'application/json', 'yaml': 'application/x-yaml', 'json5': 'application/json5',
                            'csv': 'text/csv', 'xml': 'application/xml'}[ty]
                    argv += ['--from-mime', mime, '--to-mime', mime]
                if '--color' not in argv and '--no-color' not in argv:
                    argv += ['--no-color']
                cases.append({'argv': argv, 'dir': os.path.join(workdir, f'e2e{n}'),
                              'files': [[f'x.{ext}', a], [f'y.{ext}', b]], 'doc': [ty, a, b], 'how': how})
                n += 1
    return cases


# ------------------------------------------------------------------ serialisation

def cs(s):
    return 'None' if s is None else '(Some "%s")' % s


def cb(b):
    return 'true' if b else 'false'


def cob(b):
    return 'None' if b is None else f'(Some {cb(b)})'


def case_term(rec):
    ns = rec['ns']
    ty_f = {k[5:]: v for k, v in ns.items() if k.startswith('from_') and k != 'from_mime'}
    ty_t = {k[3:]: v for k, v in ns.items() if k.startswith('to_') and k != 'to_mime'}

    def fn(d):
        body = 'None'
        for k, v in reversed(sorted(d.items())):
            if v is not None:
                body = f'if String.eqb t "{k}" then Some "{v}" else {body}'
        return f'(fun t => {body})'
    parts = []
    for f in FIELDS:
        v = ns[f]
        if f in ('from_mime', 'to_mime', 'dict_strategy', 'format'):
            parts.append(cs(v))
        elif f in ('no_color', 'color'):
            parts.append(cob(v))
        else:
            parts.append(cb(v))
    args = '(Build_args ' + ' '.join(parts) + f' {fn(ty_f)} {fn(ty_t)})'
    calls = rec['calls']
    stage = rec['stage'] if 'options' not in rec else 3
    c0 = calls[0] if calls else {'mime': None, 'guess': None, 'type': None}
    c1 = calls[1] if len(calls) > 1 else {'mime': None, 'guess': None, 'type': None}
    pr = rec.get('printer', {'ansi': None, 'quiet': False, 'jl': False, 'jd': False})
    op = rec.get('options', {'allow_key_edits': False, 'auto_match_keys': False, 'allow_list_edits': False,
                             'allow_list_edits_when_same_length': False})
    obs = ('(Build_resolved ' + ' '.join([cs(c0['mime']), cs(c1['mime']), cs(c0['type']), cs(c1['type']),
                                          cob(pr['ansi']), cb(pr['quiet']), cb(pr['jl']), cb(pr['jd']),
                                          cb(op['allow_key_edits']), cb(op['auto_match_keys']), cb(op['allow_list_edits']),
                                          cb(op['allow_list_edits_when_same_length'])]) + ')')
    n_calls = len(calls)
    return f'(Build_cli_case {args} {cs(c0["guess"])} {cs(c1["guess"])} {n_calls}%nat {cb("options" in rec)} {obs})'


# ------------------------------------------------------------------ check

def run_cases(run, wd, cases, st):
    res = common.run_impl('pC14', 'impl_resolve', cases)
    terms, keep = [], []
    for c, r in zip(cases, res):
        if 'ok' not in r or 'ns' not in r['ok']:
            # argparse itself rejected the spelling (SystemExit before parse) or an internal error
            run.violation({'kind': 'internal-error', 'argv': c['argv'], 'result': r})
            continue
        rec = r['ok']
        terms.append(case_term(rec))
        keep.append((c, rec))
        run.count(c['argv'], nontrivial=len(c['argv']) > 2)
    evals = ['bad_cases holds_C14']
    header = HEADER
    if st['models_ok']:
        evals.append('bad_cases corr_C14')
        header += 'Require Import GTgen.CliGen GT.CliModel.\n'
    bad, err = common.coq_eval_cases(wd, 'cases', header, terms, evals)
    if err:
        run.violation({'kind': 'case-evaluation-failed', 'error': err}, no_input=True)
        return keep, [], []
    return keep, bad[0], (bad[1] if len(bad) > 1 else [])


def check(tier, seed):
    run = common.Run(PROP, tier, seed)
    wd = common.Workdir(PROP)
    rng = random.Random(seed)
    try:
        st = common.build(['theories/CliModel.vo'], ['props/PropC14.vo'])
        common.proof_evidence(run, wd, PROP, st, THEOREMS)
        cases = [json.loads(l) for l in open(os.path.join(common.VERIF, 'corpus', 'C14.jsonl'))] \
            if os.path.exists(os.path.join(common.VERIF, 'corpus', 'C14.jsonl')) else []
        cases += gen_resolution_cases(tier, rng)
        keep, bad_holds, bad_corr = run_cases(run, wd, cases, st)
        for i in bad_holds[:3]:
            c, rec = keep[i]
            run.violation({'kind': 'resolution-differs-from-documented', 'argv': c['argv'],
                           'namespace': rec['ns'], 'observed': {k: rec.get(k) for k in ('calls', 'printer', 'options')},
                           'replay': f'./check C14 --replay <this file>'})
        # end-to-end: CLI text/status == library text/status
        e2e = gen_e2e_cases(tier, rng, wd.path)
        res = common.run_impl('pC14', 'impl_end_to_end', e2e)
        n_e2e = 0
        n_raised = 0
        for c, r in zip(e2e, res):
            run.count(['e2e', c['argv'], c['doc']], nontrivial=True)
            if r.get('exc') == 'E2ERaised':
                # an internal error while rendering (C13's subject, e.g. its open findings D9/D19): for C14 the command and
                # the library must fail alike
                both = json.loads(r['msg'])
                n_raised += 1
                if both['cli_exc'] != both['lib_exc']:
                    run.violation({'kind': 'cli-raises-differently-from-library', 'argv': c['argv'], 'files': c['files'],
                                   'result': both})
                continue
            if 'ok' not in r:
                run.violation({'kind': 'end-to-end-internal-error', 'argv': c['argv'], 'files': c['files'], 'result': r})
                continue
            o = r['ok']
            n_e2e += 1
            if o['cli_text'] != o['lib_text'] or o['cli_status'] != o['lib_status']:
                run.violation({'kind': 'cli-differs-from-library', 'argv': c['argv'], 'files': c['files'], 'result': o})
        proc = gen_process_cases(tier, rng, wd.path)
        n_proc = 0
        for c, r in zip(proc, common.run_impl('pC14', 'impl_process', proc)):
            run.count(['process', c['argv'], c['doc']], nontrivial=True)
            if 'ok' not in r:
                run.violation({'kind': 'process-run-internal-error', 'argv': c['argv'], 'files': c['files'], 'process': True,
                               'result': r})
                continue
            n_proc += 1
            why = process_bad(r['ok'])
            if why:
                run.violation({'kind': 'status-option-changes-the-output', 'why': why, 'argv': c['argv'], 'files': c['files'],
                               'process': True, 'result': r['ok']})
        run.cov['process_cases'] = n_proc
        run.cov['traces_validated_against_impl'] = len(keep) + n_e2e
        run.cov['end_to_end_runs_where_both_sides_raised_alike'] = n_raised
        if st['broken'] and not run.violations:
            # tie broken, no failing input among the cases: widen the search (thorough generator, more seeds)
            for s2 in range(3):
                more = gen_resolution_cases('thorough', random.Random(seed * 1000 + s2))
                k2, bh, bc = run_cases(run, wd, more, st)
                for i in bh[:3]:
                    run.violation({'kind': 'resolution-differs-from-documented', 'argv': k2[i][0]['argv'],
                                   'namespace': k2[i][1]['ns']})
                bad_corr += bc
                if run.violations:
                    break
            if not run.violations:
                run.violation({'kind': 'tie-broken', 'what': st['broken']}, no_input=True)
        elif bad_corr and not run.violations:
            c, rec = keep[bad_corr[0]]
            run.violation({'kind': 'correspondence-broken', 'what': 'corr_C14: main() resolved something else than the translated model',
                           'argv': c['argv'], 'namespace': rec['ns'],
                           'observed': {k: rec.get(k) for k in ('calls', 'printer', 'options')}}, no_input=True)
        run.cov['rule'] = ('argv = every (from-selection x to-selection) pair over {none, --X-mime M (all registered MIME strings), '
                           '--X-TYPE (all types)} (quick: a seeded 45% sample of the doubly-explicit pairs) with rotating alias option '
                           'sets and file names with/without known extensions, plus end-to-end CLI-vs-library runs on fixed documents; '
                           'non-trivial = at least one option given; distinct by argv')
        run.cov['samples'] = [c['argv'] for c, _ in keep[:3]] + [c['argv'] for c in e2e[:2]]
        run.cov['resolution_cases'] = len(keep)
        run.cov['end_to_end_cases'] = n_e2e
        run.cov['exhaustive'] = (tier == 'thorough')
        run.assumptions = ['argparse maps spellings to namespace slots as enumerated (store_const MIME strings, choices, '
                           'mutually exclusive groups); the theorems start from the namespace',
                           'mimetypes.guess_type is an oracle input (guess) of get_filetype',
                           'C14_lib (CLI output = library output) is decided by the differential runs, not by a theorem']
        return run.finish()
    finally:
        wd.cleanup()


def replay(path):
    obj = json.load(open(path))
    wd = common.Workdir(PROP + 'r')
    try:
        st = common.build(['theories/CliModel.vo'], [])
        if obj.get('process'):
            r = common.run_impl('pC14', 'impl_process',
                                [{'argv': obj['argv'], 'files': obj['files'], 'dir': wd.file('proc')}], nproc=1)[0]
            print(json.dumps(r, indent=1)[:3000])
            bad = 'ok' not in r or bool(process_bad(r['ok']))
        elif 'files' in obj:
            r = common.run_impl('pC14', 'impl_end_to_end',
                                [{'argv': obj['argv'], 'files': obj['files'], 'dir': wd.file('e2e')}], nproc=1)[0]
            print(json.dumps(r, indent=1)[:3000])
            bad = 'ok' not in r or r['ok']['cli_text'] != r['ok']['lib_text'] or r['ok']['cli_status'] != r['ok']['lib_status']
        else:
            r = common.run_impl('pC14', 'impl_resolve', [{'argv': obj['argv']}], nproc=1)[0]
            print(json.dumps(r, indent=1)[:3000])
            if 'ok' not in r:
                bad = True
            else:
                b, err = common.coq_eval_cases(wd, 'replay', HEADER, [case_term(r['ok'])], ['bad_cases holds_C14'])
                bad = bool(err) or bool(b[0])
        if bad:
            print(f'VIOLATION property={PROP} replay={path}')
            return 1
        print('replay: property holds on this input')
        return 0
    finally:
        wd.cleanup()
