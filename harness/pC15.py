"""C15 - minimum-weight assignment is valid and optimal.

Implementation side: the real graphtage.matching.min_weight_bipartite_matching on weight tables, with
scipy's linear_sum_assignment wrapped from outside to record the matrix it was given and its answer.
Verdicts: Gallina `holds_C15` (validity / cardinality / brute-force optimality of the observed result,
known-finding classes as Gallina predicates) and `corr_C15` (observed = model `mwbm`) under vm_compute.
Python only generates tables, drives, serialises, counts.
"""
import itertools
import json
import os
import random
import re
import sys
from fractions import Fraction

from harness import common

PROP = 'C15'
THEOREMS = ['C15_total', 'C15_valid', 'C15_opt', 'C15_mixed', 'C15_holds', 'C15_get_dtype_fits',
            'C15_brute_opt_min', 'C15_brute_solve_optimal', 'C15_all_missing_empty', 'C15_all_missing_holds',
            'C15_all_missing_regression_detected', 'C15_domain_or_known',
            'C15_negative_with_missing_refuted', 'C15_negative_needs_negative', 'C15_sentinel_overflow_refuted',
            'C15_beyond_2p53_refuted', 'C15_negative_outcome']
HEADER_SPEC = ('From Coq Require Import List Bool ZArith.\nRequire Import GT.PyBase GT.MatchSpec.\n'
               'Import ListNotations.\nOpen Scope Z_scope.\n')
HEADER_MODEL = HEADER_SPEC + 'Require Import GTgen.MatchGen GT.MatchModel.\n'
MODEL_TARGETS = ['theories/MatchModel.vo']
PROOF_TARGETS = ['props/PropC15.vo']
CORPUS = os.path.join(common.VERIF, 'corpus', 'C15.jsonl')
DEV_KNOWN = os.path.join(common.VERIF, 'corpus', 'C15.known.json')


def register_translator():
    """Until 'MatchGen' is listed in py2coq.MODULES, register the generator in-process so that
    common.regen() (fail-closed) regenerates coq/gen/MatchGen.v from /repo on every run."""
    tdir = os.path.join(common.VERIF, 'translator')
    if tdir not in sys.path:
        sys.path.insert(0, tdir)
    import py2coq
    if 'MatchGen' not in py2coq.MODULES:
        import gen_match
        py2coq.MODULES['MatchGen'] = gen_match.gen_match


# ------------------------------------------------------------------ implementation side (worker)

def _enc(v):
    """A Python / numpy scalar with its type: ['b', bool] / ['i', int] / ['f', float] / ['n'] / ['?', repr]."""
    import numpy as np
    if v is None:
        return ['n']
    if isinstance(v, (bool, np.bool_)):
        return ['b', bool(v)]
    if isinstance(v, (int, np.integer)):
        return ['i', int(v)]
    if isinstance(v, (float, np.floating)):
        return ['f', float(v)]
    return ['?', repr(v)[:80]]


def impl_match(item):
    """min_weight_bipartite_matching(range(r), range(c), lambda i, j: W[i][j]) on /repo's code."""
    import graphtage.matching as gm
    W = item['table']
    r = len(W)
    c = item.get('cols', len(W[0]) if W else 0)
    rec = {}
    orig = gm.linear_sum_assignment

    def recording(cost, *a, **k):
        res = orig(cost, *a, **k)
        rec['dtype'] = str(cost.dtype)
        rec['matrix'] = [[_enc(x) for x in row] for row in cost.tolist()]
        rec['answer'] = [[int(i), int(j)] for i, j in zip(*res)]
        rec['maximize'] = bool(k.get('maximize', a[0] if a else False))
        return res
    gm.linear_sum_assignment = recording
    try:
        try:
            out = gm.min_weight_bipartite_matching(range(r), range(c), lambda i, j: W[i][j])
        except Exception as e:  # matching.py is pure: no global printer state is touched
            return {'exc': type(e).__name__, 'msg': str(e)[:200], 'solver': rec or None}
    finally:
        gm.linear_sum_assignment = orig
    return {'pairs': [[int(i), int(v[0]), _enc(v[1])] for i, v in out.items()], 'solver': rec or None}


# ------------------------------------------------------------------ generators

N = None
B8, B16, B32, B53, B63, B64 = 2 ** 8, 2 ** 16, 2 ** 32, 2 ** 53, 2 ** 63, 2 ** 64


def mk(table, unit=1, src='', cols=None):
    d = {'unit': unit, 'table': table, 'src': src}
    if cols is not None:
        d['cols'] = cols
    return d


def unit_for(table):
    """Smallest power of two u such that every float in the table times u is an integer (1 if no float)."""
    u = 1
    for row in table:
        for x in row:
            if isinstance(x, float):
                while (Fraction(x) * u).denominator != 1:
                    u *= 2
                    if u > 2 ** 40:
                        raise ValueError(f'float {x!r} is not a small dyadic rational')
    return u


SMALL_DOMAINS = [
    ('int01', [N, 0, 1]), ('int-12', [N, -1, 2]), ('bool', [N, False, True]), ('float', [N, 0.5, 1.5]),
    ('int012', [0, 1, 2]), ('int-3..', [N, -3, 1]), ('int113', [1, 1, 3]),
]


def gen_exhaustive(tier, rng):
    """All tables up to 3x3 over 3-value domains (incl. the missing pair).  thorough: complete;
    quick: everything up to 5 cells, 35% of the 6-cell tables, a seeded sample of 150 of the 3x3 tables per
    domain; search (tie broken): everything up to 6 cells, 500 of the 3x3 tables per domain."""
    out = []
    for name, dom in SMALL_DOMAINS:
        vals = [v for _, v in dict.fromkeys((type(v), v) for v in dom)]     # 1 and True are different values
        for r in range(1, 4):
            for c in range(1, 4):
                n = r * c
                if tier != 'thorough' and n == 9:
                    picks = [tuple(rng.choice(vals) for _ in range(n)) for _ in range(150 if tier == 'quick' else 500)]
                elif tier == 'quick' and n == 6:
                    picks = [p for p in itertools.product(vals, repeat=n) if rng.random() < 0.35]
                else:
                    picks = itertools.product(vals, repeat=n)
                for p in picks:
                    t = [list(p[i * c:(i + 1) * c]) for i in range(r)]
                    out.append(mk(t, unit_for(t), f'exh-{name}-{r}x{c}'))
    return out


def rand_table(rng, r, c, draw, p_missing):
    return [[(N if rng.random() < p_missing else draw()) for _ in range(c)] for _ in range(r)]


def gen_random(tier, rng):
    out = []
    k = {'quick': 500, 'search': 1500}.get(tier, 6000)
    mx = 6 if tier == 'thorough' else 5
    draws = [
        ('ties', lambda: rng.randint(0, 3)), ('small', lambda: rng.randint(0, 20)),
        ('medium', lambda: rng.randint(0, 1000)), ('signed', lambda: rng.randint(-20, 20)),
        ('neg', lambda: rng.randint(-50, 0)), ('wide', lambda: rng.randint(-10 ** 6, 10 ** 9)),
        ('bool', lambda: rng.random() < 0.5),
        ('float', lambda: rng.randint(-40, 200) / rng.choice([1, 2, 4, 8])),
        ('floatpos', lambda: rng.randint(0, 64) / 16),
    ]
    for i in range(k):
        name, draw = draws[i % len(draws)]
        r, c = rng.randint(1, mx), rng.randint(1, mx)
        if i % 7 == 0:                      # strongly rectangular
            r, c = rng.choice([(1, mx), (mx, 1), (2, mx), (mx, 2), (1, 1), (mx, mx)])
        pm = rng.choice([0, 0, 0, 0.15, 0.4, 0.8])
        t = rand_table(rng, r, c, draw, pm)
        out.append(mk(t, unit_for(t), f'rand-{name}-{r}x{c}'))
    # degenerate shapes
    out += [mk([], 1, 'empty-0x0'), mk([], 1, 'empty-0x3', cols=3), mk([[], []], 1, 'empty-2x0'),
            mk([[N]], 1, 'allmissing-1x1'), mk([[N, N], [N, N], [N, N]], 1, 'allmissing-3x2')]
    # mixed Python types: documented ValueError
    for t in ([[1, 2.0]], [[1, True]], [[True, 1]], [[0.5, N], [N, True]], [[1, N, 2], [3, 4, 5.0]],
              [[False, 0], [1, 1]], [[2.0, 1]], [[N, N], [1, 1.5]]):
        out.append(mk(t, unit_for(t), 'mixed'))
    return out


def gen_boundaries(tier, rng):
    """int weights around 2^8, 2^16, 2^32, 2^53, 2^63, 2^64 and the negative dtype bounds; the edge of the
    float64-exact domain (4 * sum|w| around 2^53)."""
    out = []
    pos = [B8, B16, B32, B53, B63, B64]
    neg = [-2 ** 7, -2 ** 15, -2 ** 31, -2 ** 63, -B53]
    around = [b + d for b in pos + neg for d in (-2, -1, 0, 1)]
    for v in around:
        out.append(mk([[v]], 1, 'bound-1x1'))
        out.append(mk([[v, 0]], 1, 'bound-1x2'))
        out.append(mk([[v, -1]], 1, 'bound-1x2neg'))
        out.append(mk([[v, N]], 1, 'bound-1x2missing'))
        out.append(mk([[v, N], [v, N]], 1, 'bound-2x2missing'))
        out.append(mk([[v, 1], [2, v]], 1, 'bound-2x2'))
        out.append(mk([[v, v - 1], [v - 1, v - 2]], 1, 'bound-2x2tie'))
    k = {'quick': 150, 'search': 600}.get(tier, 2500)
    for i in range(k):
        r, c = rng.randint(1, 3), rng.randint(1, 3)
        base = rng.choice(pos + neg)
        pm = rng.choice([0, 0, 0.3])
        t = rand_table(rng, r, c, lambda: rng.choice([base + rng.randint(-3, 2), rng.randint(0, 3),
                                                      base // 2 + rng.randint(-1, 1)]), pm)
        out.append(mk(t, 1, 'bound-rand'))
    # the edge of the float64-exact domain: 4 * sum|w| just inside / just outside 2^53
    for i in range(k):
        r, c = rng.randint(1, 4), rng.randint(1, 4)
        inside = i % 3 != 0
        cap = (B53 // (4 * r * c)) if inside else rng.choice([B53 // (2 * r * c), B53 // max(1, r * c // 2), B53])
        sign = rng.choice([1, 1, -1])
        t = [[(rng.choice([1, sign]) * (cap - rng.randint(0, 3))) for _ in range(c)] for _ in range(r)]
        out.append(mk(t, 1, 'f64edge-in' if inside else 'f64edge-out'))
    # float tables with large exactly representable values
    for i in range(k // 3):
        r, c = rng.randint(1, 3), rng.randint(1, 3)
        t = rand_table(rng, r, c, lambda: float(rng.randint(0, 2 ** 40)) / rng.choice([1, 2, 1024]), rng.choice([0, 0.3]))
        out.append(mk(t, unit_for(t), 'float-large'))
    return out


def generate(tier, rng):
    return gen_exhaustive(tier, rng) + gen_random(tier, rng) + gen_boundaries(tier, rng)


# ------------------------------------------------------------------ serialisation

class Unrepresentable(Exception):
    pass


def zt(n):
    return f'({n})' if n < 0 else str(n)


def scaled(x, unit):
    f = Fraction(x) * unit
    if f.denominator != 1:
        raise Unrepresentable(f'float {x!r} is not a multiple of 1/{unit}')
    return int(f)


def weight_term(v, unit):
    if v is None:
        return 'None'
    if isinstance(v, bool):
        return 'Some (WB %s)' % ('true' if v else 'false')
    if isinstance(v, int):
        return f'Some (WI {zt(v)})'
    if isinstance(v, float):
        if v != v or v in (float('inf'), float('-inf')):
            raise Unrepresentable(f'non-finite float {v!r}')
        return f'Some (WF {zt(scaled(v, unit))})'
    raise Unrepresentable(f'weight of type {type(v).__name__}')


def enc_weight_term(e, unit):
    tag = e[0]
    if tag == 'b':
        return 'WB %s' % ('true' if e[1] else 'false')
    if tag == 'i':
        return f'WI {zt(e[1])}'
    if tag == 'f':
        return f'WF {zt(scaled(e[1], unit))}'
    raise Unrepresentable(f'reported weight {e!r}')


def enc_num(e, unit):
    tag = e[0]
    if tag == 'b':
        return 1 if e[1] else 0
    if tag == 'i':
        return e[1]
    if tag == 'f':
        return scaled(e[1], unit)
    raise Unrepresentable(f'matrix entry {e!r}')


def case_term(case, res):
    unit = case['unit']
    table = '[' + '; '.join('[' + '; '.join(weight_term(x, unit) for x in row) + ']' for row in case['table']) + ']'
    s = res.get('solver')
    if s:
        m = '[' + '; '.join('[' + '; '.join(zt(enc_num(x, unit)) for x in row) + ']' for row in s['matrix']) + ']'
        a = '[' + '; '.join(f'({i}%nat, {j}%nat)' for i, j in s['answer']) + ']'
        solver = f'(Some ({m}, {a}))'
    else:
        solver = 'None'
    if 'exc' in res:
        if res['exc'] not in ('ValueError', 'TypeError', 'AssertionError', 'OverflowError', 'IndexError'):
            raise Unrepresentable(f'exception class {res["exc"]}')
        result = f'(Err {res["exc"]})'
    else:
        result = '(OK [' + '; '.join(f'({i}%nat, ({j}%nat, {enc_weight_term(w, unit)}))' for i, j, w in res['pairs']) + '])'
    return f'(Build_case {zt(unit)} {table} {solver} {result})'


# ------------------------------------------------------------------ known findings

def all_findings():
    return [f for f in common.known_findings(PROP)]


def fixed_replays():
    """Replays of the entries that are NOT open (status 'fixed: ...'): they excuse nothing and their class
    predicate may be gone from MatchSpec.v; their inputs are simply run as ordinary cases, so the defect is
    reported as a violation if it ever returns."""
    out = []
    for f in all_findings():
        rp = f.get('replay') or {}
        if f.get('status') != 'open' and 'table' in rp:
            out.append(dict(rp, src='fixed:' + str(f.get('id'))))
    return out


def open_findings():
    """Only entries whose status is exactly 'open' are carve-outs."""
    fs = all_findings()
    if os.environ.get('C15_DEV_KNOWN') == '1' and os.path.exists(DEV_KNOWN):
        have = {f['id'] for f in fs}
        fs += [f for f in json.load(open(DEV_KNOWN))['findings'] if f['property'] == PROP and f['id'] not in have]
    out = []
    for f in fs:
        if f.get('status') != 'open':
            continue
        cls = f.get('class', '')
        if not re.fullmatch(r'kf_[a-z0-9_]+', cls):
            raise ValueError(f'known finding {f.get("id")}: bad class name {cls!r}')
        out.append(f)
    return out


def open_term(classes):
    """Gallina list of (class predicate, excused outcome) for the open findings."""
    return '; '.join(f'({k}, ex_{k})' for k in classes)


# ------------------------------------------------------------------ check

def eval_batched(wd, name, header, terms, evals, batch=4000, chunk=250):
    """common.coq_eval_cases numbers the cases with `nat` literals; beyond 5000 Coq abstracts them and
    vm_compute / printing overflows the stack, so evaluate in batches and offset the indices here."""
    bad = [[] for _ in evals]
    for b0 in range(0, len(terms), batch):
        part, err = common.coq_eval_cases(wd, f'{name}_b{b0 // batch}', header, terms[b0:b0 + batch], evals, chunk=chunk)
        if err:
            return bad, err
        for k, idx in enumerate(part):
            bad[k] += [b0 + i for i in idx]
    return bad, None


def run_cases(run, wd, name, cases, st, opens):
    """Returns (kept cases, results, bad_holds, bad_corr, {class: [indices reproducing it]})."""
    res = common.run_impl('pC15', 'impl_match', cases)
    terms, keep = [], []
    for c, r in zip(cases, res):
        table = c['table']
        nontrivial = len(table) >= 2 and len(table[0]) >= 2 and any(x is not None for row in table for x in row)
        run.count([c['unit'], c.get('cols'), [[repr(x) for x in row] for row in table]], nontrivial)
        if 'ok' not in r:
            run.violation({'kind': 'internal-error', 'unit': c['unit'], 'table': table, 'result': r})
            continue
        try:
            terms.append(case_term(c, r['ok']))
        except Unrepresentable as e:
            # the implementation produced something outside the result type (an exception class or a reported
            # weight no table of the generated shape can contain): report it with the input
            run.violation({'kind': 'unrepresentable-outcome', 'why': str(e), 'unit': c['unit'], 'table': table,
                           'cols': c.get('cols'), 'result': r['ok']})
            continue
        keep.append((c, r['ok']))
    classes = sorted({f['class'] for f in opens})
    evals = ['bad_cases (holds_C15 [%s])' % open_term(classes)]
    evals += [f'bad_cases (fun c => negb (reproduces {k} c))' for k in classes]
    header = HEADER_SPEC
    if st['models_ok']:
        evals.append('bad_cases corr_C15')
        header = HEADER_MODEL
    bad, err = eval_batched(wd, name, header, terms, evals)
    if err:
        run.violation({'kind': 'case-evaluation-failed', 'error': err}, no_input=True)
        return keep, [], [], {}
    repro = {k: bad[1 + i] for i, k in enumerate(classes)}
    return keep, bad[0], (bad[-1] if st['models_ok'] else []), repro


def describe(c, r):
    return {'unit': c['unit'], 'table': c['table'], 'cols': c.get('cols'), 'source': c.get('src'),
            'observed': {k: r.get(k) for k in ('pairs', 'exc', 'msg')},
            'solver': r.get('solver'), 'replay': './check C15 --replay <this file>'}


def check(tier, seed):
    run = common.Run(PROP, tier, seed)
    wd = common.Workdir(PROP)
    rng = random.Random(seed)
    try:
        register_translator()
        st = common.build(MODEL_TARGETS, PROOF_TARGETS)
        common.proof_evidence(run, wd, PROP, st, THEOREMS)
        opens = open_findings()
        cases = []
        if os.path.exists(CORPUS):
            cases += [dict(json.loads(l), src='corpus') for l in open(CORPUS) if l.strip()]
        n_corpus = len(cases)
        for f in opens:                                  # the replays of the open findings run every time
            rp = f.get('replay') or {}
            if 'table' in rp:
                cases.append(dict(rp, src='known:' + f['id']))
        cases += fixed_replays()                         # fixed findings: plain cases, nothing excused
        cases += generate(tier, rng)
        keep, bad_holds, bad_corr, repro = run_cases(run, wd, 'cases', cases, st, opens)
        for i in bad_holds[:3]:
            run.violation(dict(describe(*keep[i]), kind='assignment-invalid-or-not-optimal'))
        run.cov['traces_validated_against_impl'] = len(keep)
        if (st['broken'] or bad_corr) and not run.violations:
            # tie broken (a proof / the model no longer builds, or the implementation left the model) and no
            # failing input among the cases: widen the search
            first_corr = keep[bad_corr[0]] if bad_corr else None
            for s2 in range(2):
                more = generate('search', random.Random(seed * 1000 + s2))
                k2, bh, bc, rp2 = run_cases(run, wd, f'search{s2}', more, st, opens)
                for i in bh[:3]:
                    run.violation(dict(describe(*k2[i]), kind='assignment-invalid-or-not-optimal'))
                for k, v in rp2.items():
                    repro.setdefault(k, [])
                    repro[k] += [len(keep) + x for x in v]
                if first_corr is None and bc:
                    first_corr = k2[bc[0]]
                if run.violations:
                    break
            if not run.violations:
                what = {'kind': 'tie-broken', 'what': st['broken']}
                if first_corr is not None:
                    what = dict(describe(*first_corr), kind='correspondence-broken', build=st['broken'],
                                what='corr_C15: min_weight_bipartite_matching / scipy did something else than the model '
                                     '(outcome, matrix handed to the solver, returned dict, or the solver contract); '
                                     'the table above is the first disagreeing case, the property itself holds on it',
                                n_disagreeing=len(bad_corr))
                run.violation(what, no_input=True)
        for f in opens:
            if repro.get(f['class']):
                run.known(f"id={f['id']} class={f['class']} {f['what']}")
            else:
                common.log(f'note: open finding {f["id"]} ({f["class"]}) did not reproduce on any case of this run')
        by_src = {}
        for c, _ in keep:
            s = c.get('src', '?').split('-')[0]
            by_src[s] = by_src.get(s, 0) + 1
        outcomes = {}
        for _, r in keep:
            o = r.get('exc', 'ok')
            outcomes[o] = outcomes.get(o, 0) + 1
        run.cov['rule'] = ('weight tables: corpus + replays of the open and the fixed findings; every table up to 3x3 over seven 3-value domains '
                           'incl. the missing pair (thorough: all; quick: all up to 5 cells, 35% of the 6-cell and 150 of '
                           'the 9-cell tables per domain); random tables up to 5x5 (thorough 6x6) - ties, signed, wide, bool, '
                           'dyadic floats, rectangular, sparse; empty / all-missing / mixed-type tables; int weights around '
                           '2^8 2^16 2^32 2^53 2^63 2^64 and the negative dtype bounds; the edge of the float64-exact domain. '
                           'non-trivial = at least 2x2 with at least one existing pair; distinct by (unit, table)')
        run.cov['samples'] = [c['table'] for c, _ in keep[n_corpus:n_corpus + 2]] + [c['table'] for c, _ in keep[-2:]]
        run.cov['cases_by_generator'] = by_src
        run.cov['outcomes'] = outcomes
        run.cov['open_findings'] = {f['id']: len(repro.get(f['class'], [])) for f in opens}   # id -> cases reproducing it
        run.cov['exhaustive'] = (tier == 'thorough')
        run.assumptions = ['scipy.optimize.linear_sum_assignment is an oracle: Section variable `solve` with contract '
                           '`optimal_full` (a full minimum-total assignment on dense matrices on which float64 arithmetic is '
                           'exact); the contract is tested on every recorded call (solver_okb), never assumed as an axiom',
                           'numpy >= 2 semantics of np.array(list of Python ints, dtype): out-of-range raises OverflowError',
                           'float tables: only dyadic rationals with one common scale per table, inside the exact range; '
                           'float rounding, inf and nan are outside the model (partial)']
        return run.finish()
    finally:
        wd.cleanup()


def replay(path):
    obj = json.load(open(path))
    wd = common.Workdir(PROP + 'r')
    try:
        register_translator()
        st = common.build(MODEL_TARGETS, [])
        if 'table' not in obj:
            print(json.dumps(obj, indent=1)[:3000])
            print('replay: this file names a broken proof / correspondence, not an input; re-run ./check C15')
            print(f'VIOLATION property={PROP} replay={path} no-failing-input-found')
            return 1
        case = {'unit': obj.get('unit', 1), 'table': obj['table']}
        if obj.get('cols') is not None:
            case['cols'] = obj['cols']
        r = common.run_impl('pC15', 'impl_match', [case], nproc=1)[0]
        print(json.dumps(r, indent=1)[:3000])
        bad = True
        if 'ok' in r:
            try:
                classes = sorted({f['class'] for f in open_findings()})
                evals = ['bad_cases (holds_C15 [%s])' % open_term(classes), 'bad_cases (holds_C15 [])']
                if st['models_ok']:
                    evals.append('bad_cases corr_C15')
                b, err = common.coq_eval_cases(wd, 'replay', HEADER_MODEL if st['models_ok'] else HEADER_SPEC,
                                               [case_term(case, r['ok'])], evals)
                bad = bool(err) or bool(b[0])
                if not bad and b[1]:
                    print('replay: the property fails on this input, inside an OPEN known-finding class')
                if not bad and obj.get('kind') == 'correspondence-broken' and (not st['models_ok'] or b[2]):
                    print('replay: the implementation still differs from the model on this input (corr_C15 false)')
                    bad = True
            except Unrepresentable as e:
                print('unrepresentable outcome:', e)
        if bad:
            print(f'VIOLATION property={PROP} replay={path}')
            return 1
        print('replay: no violation on this input')
        return 0
    finally:
        wd.cleanup()
