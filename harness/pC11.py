"""C11 - string changes are minimal.

Implementation side: the real graphtage.string_edit_distance(s, t) driven to completion with the library's
own idiom; its cost and its edits() serialised as keep / sub / del / add character operations.
Verdicts: Gallina `holds_C11` (the script spells both strings, its kept characters are as many as a longest
common subsequence has - verified `lcs_fast` -, no unequal characters are paired, cost = #removed + #inserted)
and `corr_with str_script` (observed cost and script = the model's, exactly) under vm_compute.
Python only generates string pairs, drives, serialises, counts.
"""
import itertools
import json
import os
import random

from harness import common

PROP = 'C11'
THEOREMS = ['C11_minimal', 'C11_cost', 'C11_kept_lcs', 'C11_fewest_marks', 'C11_lcs_upper', 'C11_lcs_witness',
            'C11_lcs_fast', 'C11_holds', 'C11_holds_sound', 'C11_corr_holds', 'C11_equal_strings']
HEADER_SPEC = ('From Coq Require Import ZArith List Bool.\nRequire Import GT.PyBase GT.Data GT.ScriptSpec GT.StrSpec.\n'
               'Import ListNotations.\nOpen Scope Z_scope.\n')
HEADER_MODEL = HEADER_SPEC + 'Require Import GT.ScriptModel.\n'
SPEC_TARGETS = ['theories/StrSpec.vo']
MODEL_TARGETS = ['theories/StrSpec.vo', 'theories/ScriptModel.vo']
PROOF_TARGETS = ['props/PropC11.vo']
CORPUS = os.path.join(common.VERIF, 'corpus', 'C11.jsonl')
CHUNK = 400
BATCH = 4800        # cases per common.coq_eval_cases call: case indices stay small unary nats inside Coq


# ------------------------------------------------------------------ implementation side (worker)

def impl_string(item):
    """item: {'s': [code points], 't': [code points]} -> {'lo': int, 'hi': int, 'ops': [[kind, cp, ...], ...]}"""
    import graphtage as g
    from harness import scriptlib
    scriptlib._quiet()
    s = ''.join(chr(c) for c in item['s'])
    t = ''.join(chr(c) for c in item['t'])
    e = g.string_edit_distance(s, t)
    n = 0
    while not e.bounds().definitive() and e.tighten_bounds():
        n += 1
        if n > 10000000:
            raise RuntimeError('tighten_bounds does not converge')
    ops = []
    for x in list(e.edits()):
        if isinstance(x, g.Match):
            a, b = x.from_node.object, x.to_node.object
            ops.append(['keep', ord(a)] if a == b else ['sub', ord(a), ord(b)])
        elif isinstance(x, g.Remove):
            ops.append(['del', ord(x.from_node.object)])
        elif isinstance(x, g.Insert):
            ops.append(['add', ord(x.to_insert.object)])
        else:
            raise ValueError('unexpected sub-edit of a string edit: ' + type(x).__name__)
    b = e.bounds()                                         # final bounds; holds_C11 demands lower = upper
    return {'lo': int(b.lower_bound), 'hi': int(b.upper_bound), 'ops': ops}


# ------------------------------------------------------------------ generators

def all_strings(alpha, maxlen):
    out = []
    for n in range(maxlen + 1):
        out += [''.join(p) for p in itertools.product(alpha, repeat=n)]
    return out


UNICODE = ['\u00e9', '\u00df', '\u65e5', '\u672c', '\U0001F600', 'e\u0301', 'a', ' ', '\n', '\x00', '"', '\\', '\u03a9', '\u200b']
WORDS = ['kitten', 'sitting', 'hello world', 'hallo w\u00f6rld', 'graphtage', 'graftage', 'abcabcabc', 'cbacbacba',
         'the quick brown fox', 'the quick brown dog', 'aaaa', 'aa', 'ab', 'ba', 'mississippi', 'misisipi']


def rand_string(rng, alpha, lo, hi):
    return ''.join(rng.choice(alpha) for _ in range(rng.randint(lo, hi)))


def mutate_string(rng, s, alpha):
    s = list(s)
    for _ in range(rng.randint(1, 5)):
        r = rng.random()
        if r < 0.3:
            s.insert(rng.randint(0, len(s)), rng.choice(alpha))
        elif r < 0.55 and s:
            del s[rng.randrange(len(s))]
        elif r < 0.75 and s:
            s[rng.randrange(len(s))] = rng.choice(alpha)
        elif r < 0.85 and len(s) > 1:
            i = rng.randrange(len(s) - 1)
            s[i], s[i + 1] = s[i + 1], s[i]
        elif r < 0.95 and s:
            i = rng.randrange(len(s))
            s[i:i] = [s[i]] * rng.randint(1, 3)            # lengthen a run
        elif s:
            i = rng.randrange(len(s))
            j = rng.randint(i, len(s))
            s[i:j] = reversed(s[i:j])
    return ''.join(s)


def sample_pair(rng, maxlen):
    """One sampled pair; the families named in the property's quantifier."""
    fam = rng.randrange(10)
    alpha = rng.choice(['a', 'ab', 'ab', 'abc', 'abc', 'abcd', 'abcdefghijklmnopqrstuvwxyz'])
    if fam == 0:                                           # unrelated strings
        return rand_string(rng, alpha, 0, maxlen), rand_string(rng, alpha, 0, maxlen), 'random'
    if fam in (1, 2):                                      # near copies
        s = rand_string(rng, alpha, 0, maxlen)
        return s, mutate_string(rng, s, alpha)[:maxlen], 'mutated'
    if fam == 3:                                           # shared prefix and suffix around different middles
        pre, suf = rand_string(rng, alpha, 0, maxlen // 4), rand_string(rng, alpha, 0, maxlen // 4)
        return (pre + rand_string(rng, alpha, 0, maxlen // 2) + suf,
                pre + rand_string(rng, alpha, 0, maxlen // 2) + suf, 'shared-ends')
    if fam == 4:                                           # runs of repeated characters
        def runs():
            return ''.join(rng.choice(alpha) * rng.randint(1, 8) for _ in range(rng.randint(0, 5)))[:maxlen]
        return runs(), runs(), 'runs'
    if fam == 5:                                           # an empty side
        s = rand_string(rng, alpha, 0, maxlen)
        return (s, '', 'empty') if rng.random() < 0.5 else ('', s, 'empty')
    if fam == 6:                                           # one is a subsequence of the other
        s = rand_string(rng, alpha, 0, maxlen)
        t = ''.join(c for c in s if rng.random() < 0.6)
        return (s, t, 'subsequence') if rng.random() < 0.5 else (t, s, 'subsequence')
    if fam == 7:                                           # reversal / rotation
        s = rand_string(rng, alpha, 0, maxlen)
        k = rng.randint(0, len(s))
        return (s, s[::-1], 'reversed') if rng.random() < 0.5 else (s, s[k:] + s[:k], 'rotated')
    if fam == 8:                                           # non-ASCII, astral, combining, control characters
        s = rand_string(rng, UNICODE, 0, maxlen // 2)
        return s, mutate_string(rng, s, UNICODE)[:maxlen], 'unicode'
    a, b = rng.choice(WORDS), rng.choice(WORDS)
    return a, (mutate_string(rng, a, 'aeiou ') if rng.random() < 0.5 else b), 'words'


def long_pairs(rng, n):
    """pairs of long strings (100-300 characters) whose minimal number of changed characters passes the limits of narrow
    integer cells (255 / 256): dissimilar random text, two different letters repeated with a common marker near the end,
    and mutated copies"""
    out = [('a' * 128 + 'cz', 'b' * 127 + 'cy', 'long'), ('x' * 200 + 'k', 'y' * 60 + 'k' + 'y' * 140, 'long')]
    low = 'abcdefghijklmnopqrstuvwxyz'
    while len(out) < n:
        r = rng.random()
        if r < 0.4:
            out.append((rand_string(rng, low, 110, 260), rand_string(rng, low, 110, 260), 'long'))
        elif r < 0.7:
            k, m = rng.randint(100, 200), rng.randint(100, 200)
            mark = rand_string(rng, 'cde', 1, 3)
            out.append(('a' * k + mark + rand_string(rng, 'az', 0, 3), 'b' * m + mark + rand_string(rng, 'by', 0, 3), 'long'))
        else:
            s0 = rand_string(rng, 'abcd', 130, 280)
            t0 = s0
            for _ in range(rng.randint(1, 40)):
                t0 = mutate_string(rng, t0, 'abcd')
            out.append((s0, t0, 'long'))
    return out[:n]


def gen_cases(tier, rng):
    """[(s, t, family)]: exhaustive small-scope streams first, then the sampled stream."""
    cases = long_pairs(rng, 10 if tier == 'quick' else 120)
    if tier == 'quick':
        ab = all_strings('ab', 5)                          # 63 strings, all 3969 ordered pairs
        cases += [(s, t, 'exhaustive-ab') for s in ab for t in ab]
        abc = all_strings('abc', 5)                        # 364 strings: a seeded sample of the 132 496 pairs
        cases += [(rng.choice(abc), rng.choice(abc), 'sampled-abc') for _ in range(1200)]
        cases += [sample_pair(rng, 40) for _ in range(1300)]
    else:
        ab = all_strings('ab', 7)                          # 255 strings, all 65 025 pairs
        cases += [(s, t, 'exhaustive-ab') for s in ab for t in ab]
        abc = all_strings('abc', 5)                        # all 132 496 pairs
        cases += [(s, t, 'exhaustive-abc') for s in abc for t in abc]
        abc6 = all_strings('abc', 7)
        cases += [(rng.choice(abc6), rng.choice(abc6), 'sampled-abc') for _ in range(30000)]
        cases += [sample_pair(rng, 40) for _ in range(20000)]
        cases += [sample_pair(rng, 90) for _ in range(2000)]
    return cases


# ------------------------------------------------------------------ serialisation

def codes(s):
    return [ord(c) for c in s]


def zlist(l):
    return '[' + ';'.join(str(x) for x in l) + ']'


def sop_term(o):
    k = o[0]
    if k == 'keep':
        return f'SKeep {o[1]}'
    if k == 'sub':
        return f'SSub {o[1]} {o[2]}'
    if k == 'del':
        return f'SDel {o[1]}'
    if k == 'add':
        return f'SAdd {o[1]}'
    raise ValueError(k)


def zt(n):
    return f'({n})' if n < 0 else str(n)


def case_term(s, t, out):
    return (f'(Build_str_case {zlist(codes(s))} {zlist(codes(t))} {zt(out["lo"])} {zt(out["hi"])} '
            f'[{";".join(sop_term(o) for o in out["ops"])}])')


# ------------------------------------------------------------------ check

def eval_batched(wd, name, header, terms, evals, chunk):
    """common.coq_eval_cases in batches of BATCH cases (indices are re-based in Python)."""
    results = [[] for _ in evals]
    for b in range(0, len(terms), BATCH):
        for attempt in range(3):
            bad, err = common.coq_eval_cases(wd, f'{name}_{b // BATCH}', header, terms[b:b + BATCH], evals, chunk=chunk)
            if err and 'inconsistent assumptions' in err and attempt < 2:
                # a library was recompiled under us (another check or a developer build): rebuild and retry
                common.build(MODEL_TARGETS, [])
                continue
            break
        if err:
            return results, err
        for k in range(len(evals)):
            results[k] += [b + i for i in bad[k]]
    return results, None


def run_cases(run, wd, name, cases, st, chunk=CHUNK):
    """Drive the implementation on the cases, evaluate holds (and corr when the model builds) in Coq.
    Returns (kept cases [(s, t, family, impl output)], failing holds indices outside the known-finding class,
    failing holds indices inside it, failing corr indices)."""
    items = [{'s': codes(s), 't': codes(t)} for s, t, _ in cases]
    res = common.run_impl('pC11', 'impl_string', items)
    terms, keep = [], []
    for (s, t, fam), r in zip(cases, res):
        run.count([s, t], nontrivial=bool(s) and bool(t) and s != t)
        if r is None or 'ok' not in r:
            run.violation({'kind': 'string_edit_distance-raised', 's': s, 't': t, 'result': r,
                           'replay': './check C11 --replay <this file>'})
            continue
        terms.append(case_term(s, t, r['ok']))
        keep.append((s, t, fam, r['ok']))
    evals = ['bad_cases holds_C11', 'bad_cases (fun c => holds_C11 c || kf_C11_equal c)']
    header = HEADER_SPEC
    if st['models_ok']:
        evals.append('bad_cases (corr_with str_script)')
        header = HEADER_MODEL
    bad, err = eval_batched(wd, name, header, terms, evals, chunk)
    if err:
        run.violation({'kind': 'case-evaluation-failed', 'error': err}, no_input=True)
        return keep, [], [], []
    outside = set(bad[1])
    return keep, bad[1], [i for i in bad[0] if i not in outside], (bad[2] if len(bad) > 2 else [])


KF_CLASS = 'kf_C11_equal'
KF_TEXT = ('string_edit_distance(s, s) for a non-empty s: tighten_bounds() gives up at once and bounds() stays '
           '[0, 2*len(s)], so the cost of the (correct, all-unchanged) script never becomes definitive')


def open_known():
    return [f for f in common.known_findings(PROP) if f.get('status') == 'open' and f.get('class') == KF_CLASS]


def report_holds(run, keep, bad_holds, in_class, bad_corr):
    """Violations for failing cases; cases inside an OPEN listed finding's class are printed as known instead.
    Returns the corr failures that are not explained by that finding."""
    for i in bad_holds[:3]:
        s, t, fam, out = keep[i]
        run.violation({'kind': 'string-script-not-minimal-or-invalid', 's': s, 't': t, 'family': fam,
                       'impl_bounds': [out['lo'], out['hi']], 'impl_ops': out['ops'],
                       'replay': './check C11 --replay <this file>'})
    if in_class:
        if open_known():
            s, t, _, out = keep[in_class[0]]
            line = f'{KF_TEXT}; e.g. s = t = {json.dumps(s)} -> bounds [{out["lo"]}, {out["hi"]}] ({len(in_class)} cases)'
            if line not in run.known_lines:
                run.known(line)
            inside = set(in_class)
            return [i for i in bad_corr if i not in inside]
        for i in in_class[:2]:
            s, t, fam, out = keep[i]
            run.violation({'kind': 'cost-of-equal-strings-never-definitive', 'what': KF_TEXT, 's': s, 't': t, 'family': fam,
                           'impl_bounds': [out['lo'], out['hi']], 'impl_ops': out['ops'],
                           'replay': './check C11 --replay <this file>'})
    return bad_corr


def load_corpus():
    cases = []
    if os.path.exists(CORPUS):
        for line in open(CORPUS):
            line = line.strip()
            if line:
                o = json.loads(line)
                cases.append((o['s'], o['t'], 'corpus'))
    return cases


def check(tier, seed):
    run = common.Run(PROP, tier, seed)
    wd = common.Workdir(PROP)
    rng = random.Random(seed)
    try:
        st = common.build(MODEL_TARGETS, PROOF_TARGETS)
        common.proof_evidence(run, wd, PROP, st, THEOREMS)
        cases = load_corpus() + gen_cases(tier, rng)
        keep, bad_holds, in_class, bad_corr = run_cases(run, wd, 'cases', cases, st,
                                                        chunk=CHUNK if tier == 'quick' else 300)
        bad_corr = report_holds(run, keep, bad_holds, in_class, bad_corr)
        run.cov['traces_validated_against_impl'] = len(keep) if st['models_ok'] else 0
        fam = {}
        for _, _, f, _ in keep:
            fam[f] = fam.get(f, 0) + 1
        if st['broken'] and not run.violations:
            # tie broken and no failing input among the cases: widen the search (thorough generator, more seeds)
            for s2 in range(3):
                r2 = random.Random(seed * 1000 + s2)
                more = [sample_pair(r2, 60) for _ in range(6000)]
                abc = all_strings('abc', 6)
                more += [(r2.choice(abc), r2.choice(abc), 'sampled-abc') for _ in range(6000)]
                k2, bh, ic2, bc = run_cases(run, wd, f'search{s2}', more, st, chunk=300)
                bc = report_holds(run, k2, bh, ic2, bc)
                if bc and not bad_corr:
                    keep, bad_corr = k2, bc
                if run.violations:
                    break
            if not run.violations:
                what = dict(st['broken'])
                if bad_corr:
                    s, t, _, out = keep[bad_corr[0]]
                    what['first_disagreeing_case'] = {'s': s, 't': t, 'impl_bounds': [out['lo'], out['hi']], 'impl_ops': out['ops']}
                run.violation({'kind': 'tie-broken', 'what': what}, no_input=True)
        elif bad_corr and not run.violations:
            s, t, f, out = keep[bad_corr[0]]
            model, _ = common.coq_eval_terms(wd, 'model_out', HEADER_MODEL,
                                             [f'str_script {zlist(codes(s))} {zlist(codes(t))}'])
            run.violation({'kind': 'correspondence-broken',
                           'what': 'corr_with str_script: string_edit_distance produced another cost or script than the model',
                           's': s, 't': t, 'family': f, 'impl_bounds': [out['lo'], out['hi']], 'impl_ops': out['ops'],
                           'model': model[0] if model else None, 'disagreeing_cases': len(bad_corr)}, no_input=True)
        run.cov['rule'] = ('pairs of strings: corpus; exhaustive over {a,b}^<=5 x {a,b}^<=5 (thorough: {a,b}^<=7 and {a,b,c}^<=5, all '
                           'ordered pairs); seeded samples of {a,b,c}^<=5 pairs (thorough: ^<=7); sampled pairs up to length 40 '
                           '(thorough: also 90) from ten families: unrelated, mutated near-copies, shared prefix/suffix, runs of '
                           'repeats, an empty side, subsequence, reversed/rotated, non-ASCII/astral/combining/control characters, '
                           'words; non-trivial = both strings non-empty and different; distinct by (s, t)')
        run.cov['samples'] = [[s, t] for s, t, _, _ in keep[:2]] + [[s, t] for s, t, f, _ in keep if f not in ('corpus', 'exhaustive-ab')][:3]
        run.cov['families'] = fam
        run.cov['max_length'] = max([max(len(s), len(t)) for s, t, _, _ in keep] or [0])
        run.cov['exhaustive'] = ('{a,b}^<=5 squared' if tier == 'quick' else '{a,b}^<=7 squared and {a,b,c}^<=5 squared')
        run.assumptions = ['the model str_script (ScriptModel.v over EdEngine.v) is tied to graphtage.string_edit_distance by exact '
                           'comparison of cost and script on every case of every run (corr_with str_script)',
                           'numpy uint64 cost cells are modelled by Z (faithful below 2^64); the uint16 wrap of the path-length '
                           'cells is modelled and proved irrelevant for strings',
                           'characters are Python code points; a string is a sequence of code points (no normalisation)']
        return run.finish()
    finally:
        wd.cleanup()


def replay(path):
    obj = json.load(open(path))
    wd = common.Workdir(PROP + 'r')
    try:
        st = common.build(SPEC_TARGETS, [])
        s, t = obj['s'], obj['t']
        r = common.run_impl('pC11', 'impl_string', [{'s': codes(s), 't': codes(t)}], nproc=1)[0]
        print(json.dumps(r)[:3000])
        if r is None or 'ok' not in r:
            bad = True
        else:
            ev = 'bad_cases (fun c => holds_C11 c || kf_C11_equal c)' if open_known() else 'bad_cases holds_C11'
            b, err = common.coq_eval_cases(wd, 'replay', HEADER_SPEC, [case_term(s, t, r['ok'])], [ev])
            if err:
                print(err)
            bad = bool(err) or bool(b[0])
        if bad:
            print(f'VIOLATION property={PROP} replay={path}')
            return 1
        print('replay: property holds on this input')
        return 0
    finally:
        wd.cleanup()
