"""C10 - matching options restrict the script as documented."""
from harness import scriptcheck

PROP = 'C10'
THEOREMS = ['C10', 'C10_holds']


def check(tier, seed):
    return scriptcheck.check(PROP, tier, seed, 'holds_C10', THEOREMS,
                             rule_extra='The CLI spellings of the options are connected to these flags by C14.')


def replay(path):
    return scriptcheck.replay(PROP, path, 'holds_C10')
