"""C20 - malformed input is reported, not crashed on.

Fault enumeration: valid seed documents of every text format are corrupted (truncation at every byte,
deleted / duplicated / flipped / zeroed bytes, deleted / duplicated lines and tags, swapped and renamed tags,
mismatched and dropped delimiters, inserted brackets / tags, NUL and invalid UTF-8, re-encodings and BOMs),
kept only if an independent parser of the format rejects them, and given to the REAL
graphtage.__main__.main() as first or second file.  The worker records what main() did (status, stdout,
stderr, escaping exception) and - by wrapping the file type's build_tree from outside - the exception
raised inside the loader.

No verdict is computed here: `holds_C20`, `corr_C20`, `in_raises`, `handler_total` and `failures` are
Gallina functions evaluated with vm_compute.

The main theorem C20_full is unconditional for the handlers translated from the current source: when a
handler stops covering a class of HandlersSpec.raises_table, GT.HandlersProofs no longer compiles
(st['broken'], stage 'proof'); the models still build, the enumeration below runs and the failing file is
reported as the violation.  No finding is open for C20, so nothing is suppressed: every failing case is a
violation.  (Entries of known_findings.json with a status other than "open" are ignored; an OPEN entry
would need a class predicate in HandlersSpec.v and a carve-out in the theorem - there is none, so it is
logged and suppresses nothing.)

Out of the property's domain, opt-in with C20_BINARY_PLIST=1: corruptions of BINARY plists (the property
is about text formats).  A binary plist whose trailer declares a huge object count makes plistlib raise
MemoryError, which escapes main(); with the option on the check reports it.
"""
import ast as pyast
import json
import os
import random
import re
import sys

from harness import common

sys.path.insert(0, os.path.join(common.VERIF, 'translator'))
import py2coq          # noqa: E402
import gen_handlers    # noqa: E402
py2coq.MODULES.setdefault('HandlersGen', gen_handlers.gen_handlers)     # registered in py2coq.MODULES; kept as a guard

PROP = 'C20'
THEOREMS = ['C20_class', 'C20_ft', 'C20_all', 'C20_full', 'C20_table_total', 'C20_transfer', 'C20_main_path',
            'C20_escape', 'C20_message_names_file', 'C20_total_sound']
HEADER = ('From Coq Require Import String List Bool ZArith.\nRequire Import GT.PyBase GT.HandlersSpec.\n'
          'Import ListNotations.\nOpen Scope string_scope.\n')
MODEL_HEADER = 'Require Import GTgen.HandlersGen GT.HandlersModel.\n'
TEXT_TYPES = ['json', 'json5', 'yaml', 'xml', 'html', 'plist']
EXT = {'json': 'json', 'json5': 'json5', 'yaml': 'yaml', 'xml': 'xml', 'html': 'html', 'plist': 'plist'}


# ------------------------------------------------------------------ implementation side (worker)

def _qn(c):
    return c.__module__ + '.' + c.__qualname__


def impl_main(item):
    """Write the two files, run main() on them, record outcome and the loader's exception."""
    import io
    import graphtage
    import graphtage.__main__ as gm

    class NoClose(io.StringIO):
        def close(self):
            pass

        def isatty(self):
            return False
    d = item['dir']
    os.makedirs(d, exist_ok=True)
    ft = item['ft']
    bad_path = os.path.join(d, f'{item["name"]}_bad.{EXT[ft]}')
    ok_path = os.path.join(d, f'{item["name"]}_ok.{EXT[ft]}')
    with open(bad_path, 'wb') as f:
        f.write(bytes.fromhex(item['bad']))
    with open(ok_path, 'wb') as f:
        f.write(bytes.fromhex(item['good']))
    cls = type(graphtage.FILETYPES_BY_TYPENAME[ft])
    own = 'build_tree' in cls.__dict__
    orig = cls.build_tree
    loader = []

    def build_tree(self, *a, **k):
        try:
            return orig(self, *a, **k)
        except BaseException as e:  # noqa
            path = k.get('path', a[0] if a else None)
            attrs = {}
            for name in item['attrs']:
                try:
                    v = getattr(e, name)
                except AttributeError:
                    continue
                attrs[name] = [str(v), repr(v)]
            loader.append({'path': path, 'cls': _qn(type(e)), 'str': str(e), 'repr': repr(e), 'attrs': attrs})
            raise
    cls.build_tree = build_tree
    paths = [bad_path, ok_path] if item['pos'] == 1 else [ok_path, bad_path]
    out, err = NoClose(), NoClose()
    so, se = sys.stdout, sys.stderr
    sys.stdout, sys.stderr = out, err
    res = {'path': bad_path, 'status': None, 'uncaught': None}
    try:
        try:
            res['status'] = gm.main(['graphtage', '--no-status', f'--from-{ft}', f'--to-{ft}'] + paths)
        except BaseException as e:  # noqa
            res['uncaught'] = {'cls': _qn(type(e)), 'msg': str(e)[:300]}
    finally:
        sys.stdout, sys.stderr = so, se
        if own:
            cls.build_tree = orig
        else:
            del cls.build_tree
    res['stdout'], res['stderr'] = out.getvalue(), err.getvalue()
    res['loader'] = [l for l in loader if l['path'] == bad_path]
    res['other_loader'] = [l for l in loader if l['path'] != bad_path]
    for p in (bad_path, ok_path):
        os.unlink(p)
    if res['uncaught'] is not None:
        # graphtage's process-global printer state is unusable after an exception: hand the record to the
        # parent through a side file and make the worker restart
        with open(os.path.join(d, item['name'] + '.result.json'), 'w') as f:
            json.dump(res, f)
        raise RuntimeError('C20-restart')
    return res


# ------------------------------------------------------------------ seeds, corruptions, independent parsers

def seeds():
    import plistlib
    j1 = ('{"name": "Zoë", "tags": ["α", "β", "\U0001F600"], "n": -1.5e3, "ok": true, "nil": null, '
          '"nested": {"a": [1, 2, {"b": []}], "s": "q\\"uo\\\\te \\u00e9"}}')
    j2 = '[1, 2.5, "three", [4, [5, [6]]], {"k": "v"}, false]'
    j3 = '{\n  "a": [\n    1,\n    2\n  ],\n  "b": {\n    "c": "x y",\n    "d": null\n  },\n  "ü": "中文"\n}\n'
    j4 = '"just a string with ünïcödé"'
    f1 = ("{a: 1, 'b': [1, 2, 3,], c: {d: 'x', /* comment */ e: null,}, // trailing\n"
          " \"ü\": \"Zoë\", hex: 0x1F, neg: -.5, exp: +1e3, s: 'it\\'s',}")
    f2 = "[1, .5, 'single', \"double\", {k: true}, ]"
    y1 = ('name: Zoë\ntags:\n  - α\n  - "β quoted"\n  - \'single\'\nnested:\n  a: [1, 2, {b: []}]\n'
          '  s: |\n    literal\n    block\nanchors: &x {k: v}\nref: *x\n')
    y2 = '{a: [1, 2], b: "str", c: {d: e}}\n'
    y3 = '---\na: 1\n---\n- b\n- c: "é"\n...\n'
    x1 = ('<?xml version="1.0" encoding="UTF-8"?>\n<root a="1" b=\'ü\'>\n  <child id="x">téxt &amp; more</child>\n'
          '  <empty/>\n  <!-- comment -->\n  <![CDATA[raw <stuff>]]>\n  <n><m><k>deep</k></m></n>\n</root>\n')
    x2 = '<a><b c="d">e</b><f/></a>'
    h1 = ('<html><head><title>Tëst</title></head><body class="x"><p>para <b>bold</b></p><br/>'
          '<ul><li>1</li><li>2</li></ul></body></html>')
    h2 = '<!DOCTYPE html>\n<html lang="en">\n<body>\n<div id="a"><span>中</span></div>\n</body>\n</html>\n'
    h3 = ('<?xml version="1.0" encoding="UTF-8"?>\n<html xmlns="http://www.w3.org/1999/xhtml"><body><p>x</p></body></html>\n')
    p1 = plistlib.dumps({'name': 'Zoë', 'n': 3, 'r': 1.5, 't': True, 'f': False,
                         'list': [1, 'two', {'k': 'v'}], 'nested': {'a': {'b': '中'}}}, fmt=plistlib.FMT_XML)
    p2 = plistlib.dumps([1, 2, {'a': 'b'}], fmt=plistlib.FMT_XML)
    u = lambda s: s.encode('utf-8')  # noqa: E731
    return {'json': [u(j1), u(j2), u(j3), u(j4)], 'json5': [u(f1), u(f2), u(j2)],
            'yaml': [u(y1), u(y2), u(y3)], 'xml': [u(x1), u(x2)], 'html': [u(h1), u(h2), u(h3)], 'plist': [p1, p2]}


DELIMS = {'json': b'{}[]",:', 'json5': b'{}[]",:\'/*', 'yaml': b':-[]{},"\'#|>&*!\n ',
          'xml': b'<>/"=&;?!\'[]', 'html': b'<>/"=&;?!\'', 'plist': b'<>/"=&;?!-'}
INSERTS = {'json': [b'{', b'}', b'[', b']', b'"', b','], 'json5': [b'{', b'}', b'[', b']', b'"', b"'", b'/*'],
           'yaml': [b'{', b'}', b'[', b']', b'"', b': ', b'\t', b'- ', b'&', b'*x '],
           'xml': [b'<x>', b'</x>', b'<', b'>', b'&', b'"'], 'html': [b'<p>', b'</p>', b'<', b'>', b'&', b'"'],
           'plist': [b'<dict>', b'</dict>', b'<key>', b'</array>', b'<', b'&', b'<integer>x</integer>', b'<key>k</key>']}
BAD_BYTES = [b'\x00', b'\xff', b'\xc3', b'\x80', b'\xed\xa0\x80']
# a delimiter replaced by one that does not match its partner
MISMATCH = {ord('{'): b'[', ord('}'): b']', ord('['): b'{', ord(']'): b'}', ord('"'): b"'", ord("'"): b'"',
            ord('<'): b'>', ord('>'): b'<', ord(':'): b',', ord(','): b':', ord('/'): b'\\', ord('='): b' ', ord('&'): b';',
            ord(';'): b'&', ord('-'): b'+', ord('?'): b'!', ord('!'): b'?'}
ENCODINGS = ['utf-16', 'utf-16-le', 'utf-16-be', 'utf-32', 'latin-1', 'cp1252', 'utf-7']
BOMS = [b'\xef\xbb\xbf', b'\xff\xfe', b'\xfe\xff', b'\xff\xfe\x00\x00']
TAG = re.compile(rb'<[^<>]*>')
ELEMENT = re.compile(rb'<(string|integer|real|key|date|data)>([^<]*)</(string|integer|real|key|date|data)>')
PLIST_TAGS = [b'string', b'integer', b'real', b'key', b'date', b'data', b'array', b'dict', b'true']
OPEN_TAG = re.compile(rb'<([A-Za-z][A-Za-z0-9]*)')

# priority of a corruption kind in the quick tier: 0 = always taken, 1 = sampled first, 2 = sampled last
ALWAYS, FIRST, LAST = 0, 1, 2


def corruptions(ft, doc, binary=False):
    """All (kind, bytes, priority) corruptions of one document."""
    out = []
    n = len(doc)
    for k in range(n):
        out.append((f'truncate@{k}', doc[:k], FIRST if binary else ALWAYS))
    for k in range(n):
        pri = FIRST if (binary or doc[k] in DELIMS[ft]) else LAST
        out.append((f'delete@{k}', doc[:k] + doc[k + 1:], pri))
        out.append((f'duplicate@{k}', doc[:k + 1] + doc[k:], pri))
        for x in (0x01, 0x80):
            out.append((f'flip{x:02x}@{k}', doc[:k] + bytes([doc[k] ^ x]) + doc[k + 1:], FIRST if binary else LAST))
        out.append((f'zero@{k}', doc[:k] + b'\x00' + doc[k + 1:], FIRST if binary else LAST))
        if binary:
            out.append((f'ff@{k}', doc[:k] + b'\xff' + doc[k + 1:], FIRST))
    if binary:
        return out
    for k in range(n):
        if doc[k] in MISMATCH and doc[k] in DELIMS[ft]:
            out.append((f'mismatch@{k}', doc[:k] + MISMATCH[doc[k]] + doc[k + 1:], FIRST))
    for d in sorted(set(doc) & set(DELIMS[ft]) - set(b' \n')):
        ch = bytes([d])
        out.append((f'drop-all{ch!r}', doc.replace(ch, b''), ALWAYS))
        i, j = doc.find(ch), doc.rfind(ch)
        out.append((f'drop-first{ch!r}', doc[:i] + doc[i + 1:], ALWAYS))
        out.append((f'drop-last{ch!r}', doc[:j] + doc[j + 1:], ALWAYS))
    for k in range(n + 1):
        for ins in INSERTS[ft]:
            out.append((f'insert{ins!r}@{k}', doc[:k] + ins + doc[k:], LAST))
        for ins in BAD_BYTES:
            out.append((f'insert{ins!r}@{k}', doc[:k] + ins + doc[k:], LAST))
    lines = doc.split(b'\n')
    if len(lines) > 2:
        for k in range(len(lines)):
            out.append((f'delete-line@{k}', b'\n'.join(lines[:k] + lines[k + 1:]), ALWAYS))
            out.append((f'duplicate-line@{k}', b'\n'.join(lines[:k + 1] + lines[k:]), ALWAYS))
    if ft in ('xml', 'html', 'plist'):
        tags = list(TAG.finditer(doc))
        for i, m in enumerate(tags):
            out.append((f'delete-tag@{m.start()}', doc[:m.start()] + doc[m.end():], ALWAYS))
            out.append((f'duplicate-tag@{m.start()}', doc[:m.end()] + doc[m.start():], ALWAYS))
            if i + 1 < len(tags):
                m2 = tags[i + 1]
                out.append((f'swap-tags@{m.start()}', doc[:m.start()] + m2.group(0) + doc[m.end():m2.start()]
                            + m.group(0) + doc[m2.end():], ALWAYS))
        for m in re.finditer(rb'<(integer|real)>([^<]*)</', doc):
            out.append((f'non-number@{m.start(2)}', doc[:m.start(2)] + b'x' + doc[m.end(2):], ALWAYS))
        # an opening tag renamed (its closing tag no longer matches)
        for m in OPEN_TAG.finditer(doc):
            out.append((f'rename-open-tag@{m.start(1)}', doc[:m.start(1)] + b'zz' + doc[m.end(1):], ALWAYS))
    if ft == 'plist':
        # a whole scalar element given another plist element name: <string>x</string> -> <date>x</date> ...
        for m in ELEMENT.finditer(doc):
            if m.group(1) != m.group(3):
                continue
            for t in PLIST_TAGS:
                if t != m.group(1):
                    out.append((f'retag-{t.decode()}@{m.start()}', doc[:m.start()] + b'<' + t + b'>' + m.group(2)
                                + b'</' + t + b'>' + doc[m.end():], ALWAYS))
    if ft in ('json', 'json5'):
        # a multi-byte character cut in the middle, at the very end of an otherwise complete prefix
        for k in range(n):
            if doc[k] >= 0x80:
                out.append((f'cut-char@{k}', doc[:k + 1] if doc[k] >= 0xc0 else doc[:k], ALWAYS))
    # the same text in another encoding / behind a byte order mark
    try:
        text = doc.decode('utf-8')
    except UnicodeDecodeError:
        text = None
    if text is not None:
        for enc in ENCODINGS:
            try:
                out.append((f'reencode-{enc}', text.encode(enc), ALWAYS))
            except UnicodeEncodeError:
                out.append((f'reencode-{enc}-replace', text.encode(enc, 'replace'), ALWAYS))
        if ft in ('xml', 'html', 'plist'):
            for enc in (b'UTF-16', b'US-ASCII', b'TF-8', b'', b'utf8 ', b'EBCDIC'):
                out.append((f'declare-{enc.decode()}', doc.replace(b'encoding="UTF-8"', b'encoding="' + enc + b'"'), ALWAYS))
    for bom in BOMS:
        out.append((f'bom-{bom.hex()}', bom + doc, ALWAYS))
    return out


def binary_plist_seeds():
    import plistlib
    return [plistlib.dumps({'name': 'Zo\u00eb', 'n': 3, 'r': 1.5, 't': True, 'list': [1, 'two', {'k': 'v'}], 'big': 2 ** 40, 'neg': -5},
                           fmt=plistlib.FMT_BINARY),
            plistlib.dumps([1, 2, {'a': 'b'}, 'x' * 20], fmt=plistlib.FMT_BINARY),
            plistlib.dumps([1], fmt=plistlib.FMT_BINARY)]


def rejected(ft, data):
    """Does an independent parser of the format reject these bytes?"""
    try:
        if ft == 'json':
            json.loads(data.decode('utf-8'))
        elif ft == 'json5':
            import json5
            json5.loads(data.decode('utf-8'))
        elif ft == 'yaml':
            import yaml
            list(yaml.load_all(data, Loader=yaml.SafeLoader))      # pure-Python loader; graphtage uses libyaml
        elif ft in ('xml', 'html'):
            import xml.etree.ElementTree as ET
            ET.fromstring(data)          # graphtage's HTML file type is parsed by the XML parser as well
        elif ft == 'plist':
            import plistlib
            plistlib.loads(data)
        return False
    except RecursionError:
        return False
    except Exception:  # noqa
        return True


def gen_cases(tier, rng, per_format, binary_plist=False):
    """Returns (list of case dicts {ft, pos, kind, seed_doc, bad(hex), good(hex)}, statistics).
    quick: every corruption of priority ALWAYS (truncation at every byte of every seed, lines, tags, retags,
    dropped delimiters, encodings) plus a seeded sample of `per_format` others per format (FIRST before LAST);
    thorough: everything.  binary_plist: the out-of-domain binary plist seeds instead of the text formats."""
    cases = []
    stats = {}
    for ft in (['plist'] if binary_plist else TEXT_TYPES):
        docs = binary_plist_seeds() if binary_plist else seeds()[ft]
        cands = []
        for si, doc in enumerate(docs):
            for kind, data, pri in corruptions(ft, doc, binary=binary_plist):
                cands.append((si, kind, data, pri))
        seen = set(docs)                  # a corruption equal to a seed is no corruption
        uniq = []
        for c in sorted(cands, key=lambda c: c[3]):           # stable: keeps the highest priority of equal bytes
            if c[2] not in seen:
                seen.add(c[2])
                uniq.append(c)
        if tier == 'quick':
            groups = {q: [c for c in uniq if c[3] == q] for q in (ALWAYS, FIRST, LAST)}
            rng.shuffle(groups[FIRST])
            rng.shuffle(groups[LAST])
            cap = per_format // 2 if ft == 'json5' else per_format   # the json5 library is slow (pure Python)
            pick = groups[ALWAYS] + groups[FIRST][:cap * 2 // 3]
            pick += groups[LAST][:max(0, cap - min(len(groups[FIRST]), cap * 2 // 3))]
        else:
            pick = uniq
        kept = 0
        kinds = {}
        for si, kind, data, _ in pick:
            if not rejected(ft, data):
                continue
            kept += 1
            kk = re.sub(r"[@'].*", '', kind).replace('insertb', 'insert')
            kinds[kk] = kinds.get(kk, 0) + 1
            good = docs[(si + 1) % len(docs)]
            for pos in (1, 2):
                cases.append({'ft': ft, 'pos': pos, 'kind': kind, 'seed_doc': si, 'bad': data.hex(), 'good': good.hex()})
        stats[ft] = {'seed_documents': len(docs), 'candidates': len(uniq), 'tried': len(pick),
                     'rejected_by_independent_parser': kept, 'by_kind': kinds}
    return cases, stats


# ------------------------------------------------------------------ serialisation

def safe(s):
    """Characters outside printable ASCII (newline kept) become '?': file names are made of [A-Za-z0-9_.-/]
    only, so whether a text contains a name is unchanged, and the map commutes with concatenation."""
    return ''.join(c if (32 <= ord(c) <= 126 or c == '\n') else '?' for c in s)


def cstr(s):
    return '"' + safe(s).replace('"', '""') + '"'


def exn_term(l):
    attrs = '; '.join(f'({cstr(a)}, ({cstr(v[0])}, {cstr(v[1])}))' for a, v in sorted(l['attrs'].items()))
    return f'(Build_exn {cstr(l["cls"])} {cstr(l["str"])} {cstr(l["repr"])} [{attrs}])'


def case_term(c, r):
    pos = 'First' if c['pos'] == 1 else 'Second'
    ex = 'None' if not r['loader'] else f'(Some {exn_term(r["loader"][0])})'
    if r['uncaught'] is not None:
        out = f'(Crash {cstr(r["uncaught"]["cls"])})'
    else:
        out = f'(Exit ({int(r["status"])})%Z {cstr(r["stdout"])} {cstr(r["stderr"])})'
    return f'(Build_c20_case {cstr(c["ft"])} {pos} {cstr(r["path"])} {ex} {out})'


def parse_coq_value(s):
    """Printed Gallina lists / pairs / strings / booleans -> Python."""
    s = re.sub(r'%\w+', '', s)
    out, i, n = [], 0, len(s)
    while i < n:                      # copy strings verbatim ("" is an escaped quote), translate the rest
        if s[i] == '"':
            j = i + 1
            buf = []
            while j < n:
                if s[j] == '"':
                    if j + 1 < n and s[j + 1] == '"':
                        buf.append('"')
                        j += 2
                        continue
                    break
                buf.append(s[j])
                j += 1
            out.append(repr(''.join(buf)))
            i = j + 1
        else:
            j = i
            while j < n and s[j] != '"':
                j += 1
            chunk = s[i:j].replace(';', ',')
            chunk = re.sub(r'\btrue\b', 'True', chunk)
            chunk = re.sub(r'\bfalse\b', 'False', chunk)
            chunk = re.sub(r'\bnil\b', '[]', chunk)
            out.append(chunk)
            i = j
    return pyast.literal_eval(''.join(out))


# ------------------------------------------------------------------ check

def note_open_findings(run):
    """No finding is open for C20 and HandlersSpec.v holds no class predicate: nothing is ever suppressed.
    Entries with any other status ("fixed: ...") are ignored, whatever their `class` field names."""
    unknown = [f for f in common.known_findings(PROP) if str(f.get('status', '')).strip() == 'open']
    for f in unknown:
        common.log(f'C20: known_findings.json lists {f.get("id")} as open with class {f.get("class")!r}, which has no '
                   f'predicate in HandlersSpec.v: it suppresses nothing')
    run.cov['open_findings_without_class_predicate'] = [f.get('id') for f in unknown]


def attrs_to_record():
    try:
        return gen_handlers.extract(common.REPO)['attrs']
    except Exception:  # noqa  (translator failure is reported through the build state)
        return list(gen_handlers.CANDIDATE_ATTRS)


def run_cases(run, wd, cases, st, attrs, tag='cases'):
    """Drive the implementation on the cases and evaluate the Gallina verdicts.
    Returns (records kept, holds-bad, corr-bad, not-in-raises, loader-accepted)."""
    items = [dict(c, dir=wd.file('impl'), name=f'c20_{tag}_{i}', attrs=attrs) for i, c in enumerate(cases)]
    res = common.run_impl('pC20', 'impl_main', items, extra_env={'PYTHONUTF8': '1'})
    keep, terms = [], []
    for c, it, r in zip(cases, items, res):
        if r is not None and r.get('exc') == 'RuntimeError' and r.get('msg') == 'C20-restart':
            side = os.path.join(it['dir'], it['name'] + '.result.json')
            try:
                r = {'ok': json.load(open(side))}
                os.unlink(side)
            except (OSError, ValueError):
                r = {'exc': 'lost-result', 'msg': side}
        if r is None or 'ok' not in r or r['ok']['other_loader']:
            run.violation({'kind': 'internal-error', 'case': c, 'result': r})
            continue
        rec = r['ok']
        keep.append((c, rec))
        terms.append(case_term(c, rec))
        run.count([c['ft'], c['pos'], c['bad']], nontrivial=True)
    evals = ['bad_cases holds_C20', 'bad_cases in_raises', 'bad_cases (fun c => is_some (c_exn c))']
    header = HEADER
    if st['models_ok']:
        evals.append('bad_cases corr_C20')
        header += MODEL_HEADER
    bad, err = common.coq_eval_cases(wd, tag, header, terms, evals)
    if err:
        run.violation({'kind': 'case-evaluation-failed', 'error': err}, no_input=True)
        return keep, [], [], [], []
    corr_bad = bad[3] if st['models_ok'] else []
    return keep, bad[0], corr_bad, bad[1], bad[2]


def validate_seeds(run, wd, attrs):
    """Harness sanity (not a verdict): every seed document must load in graphtage and diff equal to itself."""
    items = []
    for ft in TEXT_TYPES:
        for si, doc in enumerate(seeds()[ft]):
            items.append({'ft': ft, 'pos': 1, 'bad': doc.hex(), 'good': doc.hex(), 'dir': wd.file('impl'),
                          'name': f'c20_seed_{ft}_{si}', 'attrs': attrs})
    res = common.run_impl('pC20', 'impl_main', items, extra_env={'PYTHONUTF8': '1'})
    for it, r in zip(items, res):
        ok = r is not None and 'ok' in r and r['ok']['status'] == 0 and not r['ok']['loader'] and not r['ok']['other_loader']
        if not ok:
            run.violation({'kind': 'internal-error', 'what': 'a seed document does not load', 'ft': it['ft'],
                           'seed': bytes.fromhex(it['bad']).decode('utf-8', 'replace'), 'result': r})
    return len(items)


def replay_obj(c, rec, what):
    return {'kind': what, 'ft': c['ft'], 'pos': c['pos'], 'corruption': c['kind'], 'bad_hex': c['bad'],
            'good_hex': c['good'], 'bad_text': bytes.fromhex(c['bad']).decode('utf-8', 'replace'),
            'observed': {k: rec.get(k) for k in ('status', 'stdout', 'stderr', 'uncaught', 'loader')},
            'replay': './check C20 --replay <this file>'}


def report_failing(run, keep, bad_holds, limit=5):
    """Every failing case is a violation (no finding is open); at most `limit` replays, one per
    (format, loader exception class, what main() did) first."""
    seen, rest = set(), []
    n = 0
    for i in bad_holds:
        c, rec = keep[i]
        key = (c['ft'], rec['loader'][0]['cls'] if rec['loader'] else None,
               rec['uncaught']['cls'] if rec['uncaught'] else rec['status'])
        if key in seen:
            rest.append(i)
            continue
        seen.add(key)
        if n < limit:
            n += 1
            run.violation(replay_obj(c, rec, 'malformed-input-not-reported'))
    for i in rest:
        if n >= limit:
            break
        n += 1
        run.violation(replay_obj(*keep[i], 'malformed-input-not-reported'))


def model_totality(wd):
    """Evaluate, inside Coq, which file types the translated handlers cover and which tabulated classes not."""
    terms = ['map (fun ft => (ft, handler_total raises_table ft)) text_types',
             'map (fun ft => (ft, map fst (failures raises_table ft))) text_types',
             'main_ok']
    vals, err = common.coq_eval_terms(wd, 'totality', HEADER + MODEL_HEADER, terms)
    if err:
        return None, err
    return [parse_coq_value(v) for v in vals], None


def outcome_table(keep, idxs):
    by = {}
    for i in idxs:
        c, rec = keep[i]
        cls = rec['loader'][0]['cls'] if rec['loader'] else 'accepted'
        kind = 'crash:' + rec['uncaught']['cls'] if rec['uncaught'] else f'exit{rec["status"]}'
        by.setdefault(c['ft'], {}).setdefault(cls, {}).setdefault(kind, 0)
        by[c['ft']][cls][kind] += 1
    return by


def check(tier, seed):
    run = common.Run(PROP, tier, seed)
    wd = common.Workdir(PROP)
    rng = random.Random(seed)
    try:
        st = common.build(['theories/HandlersModel.vo'], ['props/PropC20.vo'])
        common.proof_evidence(run, wd, PROP, st, THEOREMS)
        run.cov['tie'] = st['broken'] or 'intact'
        note_open_findings(run)
        attrs = attrs_to_record()
        run.cov['seed_documents'] = validate_seeds(run, wd, attrs)
        corpus_path = os.path.join(common.VERIF, 'corpus', 'C20.jsonl')
        cases = [json.loads(l) for l in open(corpus_path) if l.strip()] if os.path.exists(corpus_path) else []
        run.cov['corpus_cases'] = len(cases)
        gen, stats = gen_cases(tier, rng, per_format=int(os.environ.get('C20_PER_FORMAT', '240')))
        cases += gen
        keep, bad_holds, bad_corr, bad_raises, accepted = run_cases(run, wd, cases, st, attrs)
        # a corruption the loader accepted is not malformed input for graphtage's own parser: counted, not judged
        acc = set(accepted)
        bad_holds = [i for i in bad_holds if i not in acc]
        report_failing(run, keep, bad_holds)
        run.cov['traces_validated_against_impl'] = len(keep) - len(acc)
        # the model: which file types are covered by the translated handlers
        tot = None
        if st['models_ok']:
            tot, err = model_totality(wd)
            if err:
                run.violation({'kind': 'model-evaluation-failed', 'error': err}, no_input=True)
        if tot:
            totals, fails, main_ok = tot
            run.cov['handler_total'] = dict(totals)
            run.cov['model_uncovered_classes'] = {ft: cl for ft, cl in fails if cl}
            run.cov['main_ok'] = main_ok
            for ft, cl in fails:
                if not cl:
                    continue
                # the model says: these tabulated loader exceptions are not reported (C20_full's premise is false).
                # a failing input of that class among the cases is the concrete violation; else report the class.
                hit = [i for i in bad_holds if keep[i][0]['ft'] == ft and keep[i][1]['loader']
                       and keep[i][1]['loader'][0]['cls'] in cl]
                if not hit:
                    run.violation({'kind': 'handler-not-total', 'ft': ft, 'exception_classes': cl, 'theorem': 'C20_full',
                                   'what': 'the translated handler does not turn these loader exceptions into a message '
                                           'naming the file, and no generated input raised them'}, no_input=True)
        # correspondence: outcome = model's, and every observed loader exception class is tabulated
        judged = [i for i in range(len(keep)) if i not in acc]
        bad_raises = [i for i in bad_raises if i not in acc]
        bad_corr = [i for i in bad_corr if i not in acc]
        if st['broken'] and not run.violations:
            # the proof (or the model) no longer builds and no failing input yet: search harder
            more, _ = gen_cases('thorough', random.Random(seed + 1), 0)
            have = {(c['ft'], c['pos'], c['bad']) for c in cases}
            more = [c for c in more if (c['ft'], c['pos'], c['bad']) not in have]
            rng.shuffle(more)
            k2, bh, bc, br, ac2 = run_cases(run, wd, more[:8000], st, attrs, tag='search')
            report_failing(run, k2, [i for i in bh if i not in set(ac2)])
            run.cov['searched_harder'] = len(k2)
            if not run.violations:
                run.violation({'kind': 'tie-broken', 'theorem': 'C20_full', 'what': st['broken']}, no_input=True)
        elif not run.violations:
            if bad_raises:
                c, rec = keep[bad_raises[0]]
                classes = sorted({(keep[i][0]['ft'], keep[i][1]['loader'][0]['cls']) for i in bad_raises})
                run.violation(dict(replay_obj(c, rec, 'correspondence-broken'),
                                   what='a loader raised an exception class that is not in raises_table '
                                        '(C20_full does not cover it)', classes=classes), no_input=True)
            elif bad_corr:
                c, rec = keep[bad_corr[0]]
                run.violation(dict(replay_obj(c, rec, 'correspondence-broken'),
                                   what='corr_C20: main() did something else than the translated model predicts',
                                   n=len(bad_corr)), no_input=True)
        # out of the property's domain (binary plists): observed and recorded; judged only on request
        judge_bin = os.environ.get('C20_BINARY_PLIST') == '1'
        bcases, bstats = gen_cases(tier, random.Random(seed + 2), per_format=200, binary_plist=True)
        bk, bbh, _, bbr, bacc = run_cases(run, wd, bcases, st, attrs, tag='bplist')
        bacc = set(bacc)
        bfail = [i for i in bbh if i not in bacc]
        run.cov['out_of_domain_binary_plist'] = {
            'judged': judge_bin, 'generator': bstats['plist'], 'cases': len(bk),
            'not_reported': len(bfail), 'observed': outcome_table(bk, [i for i in range(len(bk)) if i not in bacc]).get('plist', {}),
            'note': 'binary plists are not a text format: outside C20; set C20_BINARY_PLIST=1 to judge them'}
        if judge_bin:
            report_failing(run, bk, bfail)
            unseen = [i for i in bbr if i not in bacc and i not in bfail]
            if unseen and not run.violations:
                c, rec = bk[unseen[0]]
                run.violation(dict(replay_obj(c, rec, 'correspondence-broken'),
                                   what='a loader raised an exception class that is not in raises_table'), no_input=True)
        run.cov['rule'] = ('for each text format (json json5 yaml xml html plist): seed documents incl. non-ASCII text; corruptions = '
                           'truncation at every byte, deletion/duplication/bit flips/zeroing of every byte (delimiters first), '
                           'every delimiter replaced by a mismatching one, first/last/all occurrences of a delimiter dropped, '
                           'deletion/duplication of every line and tag, adjacent tag swaps, renamed opening tags, plist scalar '
                           'elements renamed to every other plist element, non-numbers in numeric elements, multi-byte characters cut, '
                           'inserted brackets/tags/NUL/invalid UTF-8 at every offset, re-encodings (UTF-16/32, Latin-1, cp1252, UTF-7), '
                           'wrong declared encodings, byte order marks; kept iff an independent parser rejects; each as FIRST and as '
                           'SECOND file of the real main(); quick = all truncations/line/tag/encoding kinds + seeded sample of the '
                           'rest per format, thorough = all; distinct by (format, position, bytes)')
        run.cov['generator'] = stats
        run.cov['loader_accepted_not_judged'] = len(acc)
        run.cov['observed'] = outcome_table(keep, judged)
        run.cov['failing_cases'] = len(bad_holds)
        run.cov['samples'] = [{k: c[k] for k in ('ft', 'pos', 'kind')} for c, _ in keep[:3]]
        run.assumptions = ['raises_table (exception classes a loader raises on malformed bytes) is established by this fault '
                           'enumeration only; C20_full is proved for that table and the handlers translated from the current source',
                           'CPython rules used by the model: except-clause matching by subclass, object.__format__ with a '
                           'non-empty spec raises TypeError, a missing attribute raises AttributeError, format(x, "") = str(x)',
                           'texts of str(e)/repr(e)/attributes are oracle values recorded from the running code',
                           'characters outside printable ASCII are serialised as "?" (file names are ASCII)',
                           'binary plists are outside the property (text formats): observed, not judged unless C20_BINARY_PLIST=1']
        return run.finish()
    finally:
        wd.cleanup()


def replay(path):
    obj = json.load(open(path))
    if 'replay' in obj and isinstance(obj['replay'], dict) and 'bad_hex' in obj['replay']:
        obj = obj['replay']                     # an entry of known_findings.json
    if 'bad_hex' not in obj:
        # a tie-broken record without a failing input: the quick check itself is the replay
        print(f'replay file holds no input (kind={obj.get("kind")}); re-running the quick check')
        return check('quick', 1)
    wd = common.Workdir(PROP + 'r')
    try:
        common.build(['theories/HandlersSpec.vo'], [])      # holds_C20 needs the specification only
        c = {'ft': obj['ft'], 'pos': obj['pos'], 'kind': obj.get('corruption', 'replay'),
             'bad': obj['bad_hex'], 'good': obj['good_hex']}
        item = dict(c, dir=wd.file('impl'), name='c20_replay', attrs=attrs_to_record())
        r = common.run_impl('pC20', 'impl_main', [item], nproc=1, extra_env={'PYTHONUTF8': '1'})[0]
        if r.get('exc') == 'RuntimeError' and r.get('msg') == 'C20-restart':
            r = {'ok': json.load(open(os.path.join(item['dir'], item['name'] + '.result.json')))}
        print(json.dumps(r, indent=1)[:3000])
        bad = True
        if 'ok' in r:
            b, err = common.coq_eval_cases(wd, 'replay', HEADER, [case_term(c, r['ok'])], ['bad_cases holds_C20'])
            bad = bool(err) or bool(b[0])
        if bad:
            print(f'VIOLATION property={PROP} replay={path}')
            return 1
        print('replay: property holds on this input')
        return 0
    finally:
        wd.cleanup()
