"""C20 - malformed input is reported, not crashed on.

Fault enumeration: valid seed documents of every text format are corrupted (truncation at every byte,
deleted / duplicated bytes, lines and tags, inserted brackets / tags, NUL and invalid UTF-8), kept only if
an independent parser of the format rejects them, and given to the REAL graphtage.__main__.main() as first
or second file.  The worker records what main() did (status, stdout, stderr, escaping exception) and - by
wrapping the file type's build_tree from outside - the exception raised inside the loader.

No verdict is computed here: `holds_C20`, `corr_C20`, `in_raises`, the known-finding class predicates
and `handler_total` are Gallina functions evaluated with vm_compute.
"""
import ast as pyast
import json
import os
import random
import re
import sys

from harness import common

sys.path.insert(0, os.path.join(common.VERIF, 'translator'))
import py2coq          # noqa: E402
import gen_handlers    # noqa: E402
# until the generator is registered in py2coq.MODULES by the framework owner, register it for this process
py2coq.MODULES.setdefault('HandlersGen', gen_handlers.gen_handlers)

PROP = 'C20'
THEOREMS = ['C20_class', 'C20_ft', 'C20_all', 'C20_partial', 'C20_main_path', 'C20_escape',
            'C20_message_names_file', 'C20_total_sound', 'C20_yaml']
HEADER = ('From Coq Require Import String List Bool ZArith.\nRequire Import GT.PyBase GT.HandlersSpec.\n'
          'Import ListNotations.\nOpen Scope string_scope.\n')
MODEL_HEADER = 'Require Import GTgen.HandlersGen GT.HandlersModel.\n'
TEXT_TYPES = ['json', 'json5', 'yaml', 'xml', 'html', 'plist']
EXT = {'json': 'json', 'json5': 'json5', 'yaml': 'yaml', 'xml': 'xml', 'html': 'html', 'plist': 'plist'}
KF_CLASSES = ['kf_json5_format_spec', 'kf_plist_uncaught', 'kf_json_unicode', 'kf_xml_encoding']


# ------------------------------------------------------------------ implementation side (worker)

def _qn(c):
    return c.__module__ + '.' + c.__qualname__


def impl_main(item):
    """Write the two files, run main() on them, record outcome and the loader's exception."""
    import io
    import graphtage
    import graphtage.__main__ as gm

    class NoClose(io.StringIO):
        def close(self):
            pass

        def isatty(self):
            return False
    d = item['dir']
    os.makedirs(d, exist_ok=True)
    ft = item['ft']
    bad_path = os.path.join(d, f'{item["name"]}_bad.{EXT[ft]}')
    ok_path = os.path.join(d, f'{item["name"]}_ok.{EXT[ft]}')
    with open(bad_path, 'wb') as f:
        f.write(bytes.fromhex(item['bad']))
    with open(ok_path, 'wb') as f:
        f.write(bytes.fromhex(item['good']))
    cls = type(graphtage.FILETYPES_BY_TYPENAME[ft])
    own = 'build_tree' in cls.__dict__
    orig = cls.build_tree
    loader = []

    def build_tree(self, *a, **k):
        try:
            return orig(self, *a, **k)
        except BaseException as e:  # noqa
            path = k.get('path', a[0] if a else None)
            attrs = {}
            for name in item['attrs']:
                try:
                    v = getattr(e, name)
                except AttributeError:
                    continue
                attrs[name] = [str(v), repr(v)]
            loader.append({'path': path, 'cls': _qn(type(e)), 'str': str(e), 'repr': repr(e), 'attrs': attrs})
            raise
    cls.build_tree = build_tree
    paths = [bad_path, ok_path] if item['pos'] == 1 else [ok_path, bad_path]
    out, err = NoClose(), NoClose()
    so, se = sys.stdout, sys.stderr
    sys.stdout, sys.stderr = out, err
    res = {'path': bad_path, 'status': None, 'uncaught': None}
    try:
        try:
            res['status'] = gm.main(['graphtage', '--no-status', f'--from-{ft}', f'--to-{ft}'] + paths)
        except BaseException as e:  # noqa
            res['uncaught'] = {'cls': _qn(type(e)), 'msg': str(e)[:300]}
    finally:
        sys.stdout, sys.stderr = so, se
        if own:
            cls.build_tree = orig
        else:
            del cls.build_tree
    res['stdout'], res['stderr'] = out.getvalue(), err.getvalue()
    res['loader'] = [l for l in loader if l['path'] == bad_path]
    res['other_loader'] = [l for l in loader if l['path'] != bad_path]
    for p in (bad_path, ok_path):
        os.unlink(p)
    if res['uncaught'] is not None:
        # graphtage's process-global printer state is unusable after an exception: hand the record to the
        # parent through a side file and make the worker restart
        with open(os.path.join(d, item['name'] + '.result.json'), 'w') as f:
            json.dump(res, f)
        raise RuntimeError('C20-restart')
    return res


# ------------------------------------------------------------------ seeds, corruptions, independent parsers

def seeds():
    import plistlib
    j1 = ('{"name": "Zoë", "tags": ["α", "β", "\U0001F600"], "n": -1.5e3, "ok": true, "nil": null, '
          '"nested": {"a": [1, 2, {"b": []}], "s": "q\\"uo\\\\te \\u00e9"}}')
    j2 = '[1, 2.5, "three", [4, [5, [6]]], {"k": "v"}, false]'
    j3 = '{\n  "a": [\n    1,\n    2\n  ],\n  "b": {\n    "c": "x y",\n    "d": null\n  },\n  "ü": "中文"\n}\n'
    j4 = '"just a string with ünïcödé"'
    f1 = ("{a: 1, 'b': [1, 2, 3,], c: {d: 'x', /* comment */ e: null,}, // trailing\n"
          " \"ü\": \"Zoë\", hex: 0x1F, neg: -.5, exp: +1e3, s: 'it\\'s',}")
    f2 = "[1, .5, 'single', \"double\", {k: true}, ]"
    y1 = ('name: Zoë\ntags:\n  - α\n  - "β quoted"\n  - \'single\'\nnested:\n  a: [1, 2, {b: []}]\n'
          '  s: |\n    literal\n    block\nanchors: &x {k: v}\nref: *x\n')
    y2 = '{a: [1, 2], b: "str", c: {d: e}}\n'
    y3 = '---\na: 1\n---\n- b\n- c: "é"\n...\n'
    x1 = ('<?xml version="1.0" encoding="UTF-8"?>\n<root a="1" b=\'ü\'>\n  <child id="x">téxt &amp; more</child>\n'
          '  <empty/>\n  <!-- comment -->\n  <![CDATA[raw <stuff>]]>\n  <n><m><k>deep</k></m></n>\n</root>\n')
    x2 = '<a><b c="d">e</b><f/></a>'
    h1 = ('<html><head><title>Tëst</title></head><body class="x"><p>para <b>bold</b></p><br/>'
          '<ul><li>1</li><li>2</li></ul></body></html>')
    h2 = '<!DOCTYPE html>\n<html lang="en">\n<body>\n<div id="a"><span>中</span></div>\n</body>\n</html>\n'
    h3 = ('<?xml version="1.0" encoding="UTF-8"?>\n<html xmlns="http://www.w3.org/1999/xhtml"><body><p>x</p></body></html>\n')
    p1 = plistlib.dumps({'name': 'Zoë', 'n': 3, 'r': 1.5, 't': True, 'f': False,
                         'list': [1, 'two', {'k': 'v'}], 'nested': {'a': {'b': '中'}}}, fmt=plistlib.FMT_XML)
    p2 = plistlib.dumps([1, 2, {'a': 'b'}], fmt=plistlib.FMT_XML)
    u = lambda s: s.encode('utf-8')  # noqa: E731
    return {'json': [u(j1), u(j2), u(j3), u(j4)], 'json5': [u(f1), u(f2), u(j2)],
            'yaml': [u(y1), u(y2), u(y3)], 'xml': [u(x1), u(x2)], 'html': [u(h1), u(h2), u(h3)], 'plist': [p1, p2]}


DELIMS = {'json': b'{}[]",:', 'json5': b'{}[]",:\'/*', 'yaml': b':-[]{},"\'#|>&*!\n ',
          'xml': b'<>/"=&;?!\'[]', 'html': b'<>/"=&;?!\'', 'plist': b'<>/"=&;?!-'}
INSERTS = {'json': [b'{', b'}', b'[', b']', b'"', b','], 'json5': [b'{', b'}', b'[', b']', b'"', b"'", b'/*'],
           'yaml': [b'{', b'}', b'[', b']', b'"', b': ', b'\t', b'- ', b'&', b'*x '],
           'xml': [b'<x>', b'</x>', b'<', b'>', b'&', b'"'], 'html': [b'<p>', b'</p>', b'<', b'>', b'&', b'"'],
           'plist': [b'<dict>', b'</dict>', b'<key>', b'</array>', b'<', b'&', b'<integer>x</integer>', b'<key>k</key>']}
BAD_BYTES = [b'\x00', b'\xff', b'\xc3', b'\x80', b'\xed\xa0\x80']
TAG = re.compile(rb'<[^<>]*>')


def corruptions(ft, doc):
    """All (kind, bytes) corruptions of one document, delimiter-related ones flagged as priority."""
    out = []
    n = len(doc)
    for k in range(n):
        out.append((f'truncate@{k}', doc[:k], True))
    for k in range(n):
        pri = doc[k] in DELIMS[ft]
        out.append((f'delete@{k}', doc[:k] + doc[k + 1:], pri))
        out.append((f'duplicate@{k}', doc[:k + 1] + doc[k:], pri))
    for k in range(n + 1):
        for ins in INSERTS[ft]:
            out.append((f'insert{ins!r}@{k}', doc[:k] + ins + doc[k:], False))
        for ins in BAD_BYTES:
            out.append((f'insert{ins!r}@{k}', doc[:k] + ins + doc[k:], False))
    lines = doc.split(b'\n')
    if len(lines) > 2:
        for k in range(len(lines)):
            out.append((f'delete-line@{k}', b'\n'.join(lines[:k] + lines[k + 1:]), True))
            out.append((f'duplicate-line@{k}', b'\n'.join(lines[:k + 1] + lines[k:]), True))
    if ft in ('xml', 'html', 'plist'):
        tags = list(TAG.finditer(doc))
        for i, m in enumerate(tags):
            out.append((f'delete-tag@{m.start()}', doc[:m.start()] + doc[m.end():], True))
            out.append((f'duplicate-tag@{m.start()}', doc[:m.end()] + doc[m.start():], True))
            if i + 1 < len(tags):
                m2 = tags[i + 1]
                out.append((f'swap-tags@{m.start()}', doc[:m.start()] + m2.group(0) + doc[m.end():m2.start()]
                            + m.group(0) + doc[m2.end():], True))
        for m in re.finditer(rb'<(integer|real)>([^<]*)</', doc):
            out.append((f'non-number@{m.start(2)}', doc[:m.start(2)] + b'x' + doc[m.end(2):], True))
    if ft in ('json', 'json5'):
        # a multi-byte character cut in the middle, at the very end of an otherwise complete prefix
        for k in range(n):
            if doc[k] >= 0x80:
                out.append((f'cut-char@{k}', doc[:k + 1] if doc[k] >= 0xc0 else doc[:k], True))
    return out


def rejected(ft, data):
    """Does an independent parser of the format reject these bytes?"""
    try:
        if ft == 'json':
            json.loads(data.decode('utf-8'))
        elif ft == 'json5':
            import json5
            json5.loads(data.decode('utf-8'))
        elif ft == 'yaml':
            import yaml
            list(yaml.load_all(data, Loader=yaml.SafeLoader))      # pure-Python loader; graphtage uses libyaml
        elif ft in ('xml', 'html'):
            import xml.etree.ElementTree as ET
            ET.fromstring(data)          # graphtage's HTML file type is parsed by the XML parser as well
        elif ft == 'plist':
            import plistlib
            plistlib.loads(data)
        return False
    except RecursionError:
        return False
    except Exception:  # noqa
        return True


def gen_cases(tier, rng, per_format):
    """Returns a list of case dicts {ft, pos, kind, seed, bad(hex), good(hex)}."""
    cases = []
    stats = {}
    for ft in TEXT_TYPES:
        docs = seeds()[ft]
        cands = []
        for si, doc in enumerate(docs):
            for kind, data, pri in corruptions(ft, doc):
                cands.append((si, kind, data, pri))
        seen = set()
        uniq = []
        for c in cands:
            if c[2] not in seen:
                seen.add(c[2])
                uniq.append(c)
        if tier == 'quick':
            pri = [c for c in uniq if c[3]]
            rest = [c for c in uniq if not c[3]]
            rng.shuffle(pri)
            rng.shuffle(rest)
            cap = per_format // 2 if ft == 'json5' else per_format   # the json5 library is slow (pure Python)
            pick = pri[:cap * 2 // 3]
            pick += rest[:max(0, cap - len(pick))]
        else:
            pick = uniq
        kept = 0
        for si, kind, data, _ in pick:
            if not rejected(ft, data):
                continue
            kept += 1
            good = docs[(si + 1) % len(docs)]
            for pos in (1, 2):
                cases.append({'ft': ft, 'pos': pos, 'kind': kind, 'seed_doc': si, 'bad': data.hex(), 'good': good.hex()})
        stats[ft] = {'candidates': len(uniq), 'tried': len(pick), 'rejected_by_independent_parser': kept}
    return cases, stats


# ------------------------------------------------------------------ serialisation

def safe(s):
    """Characters outside printable ASCII (newline kept) become '?': file names are made of [A-Za-z0-9_.-/]
    only, so whether a text contains a name is unchanged, and the map commutes with concatenation."""
    return ''.join(c if (32 <= ord(c) <= 126 or c == '\n') else '?' for c in s)


def cstr(s):
    return '"' + safe(s).replace('"', '""') + '"'


def exn_term(l):
    attrs = '; '.join(f'({cstr(a)}, ({cstr(v[0])}, {cstr(v[1])}))' for a, v in sorted(l['attrs'].items()))
    return f'(Build_exn {cstr(l["cls"])} {cstr(l["str"])} {cstr(l["repr"])} [{attrs}])'


def case_term(c, r):
    pos = 'First' if c['pos'] == 1 else 'Second'
    ex = 'None' if not r['loader'] else f'(Some {exn_term(r["loader"][0])})'
    if r['uncaught'] is not None:
        out = f'(Crash {cstr(r["uncaught"]["cls"])})'
    else:
        out = f'(Exit ({int(r["status"])})%Z {cstr(r["stdout"])} {cstr(r["stderr"])})'
    return f'(Build_c20_case {cstr(c["ft"])} {pos} {cstr(r["path"])} {ex} {out})'


def parse_coq_value(s):
    """Printed Gallina lists / pairs / strings / booleans -> Python."""
    s = re.sub(r'%\w+', '', s)
    out, i, n = [], 0, len(s)
    while i < n:                      # copy strings verbatim ("" is an escaped quote), translate the rest
        if s[i] == '"':
            j = i + 1
            buf = []
            while j < n:
                if s[j] == '"':
                    if j + 1 < n and s[j + 1] == '"':
                        buf.append('"')
                        j += 2
                        continue
                    break
                buf.append(s[j])
                j += 1
            out.append(repr(''.join(buf)))
            i = j + 1
        else:
            j = i
            while j < n and s[j] != '"':
                j += 1
            chunk = s[i:j].replace(';', ',')
            chunk = re.sub(r'\btrue\b', 'True', chunk)
            chunk = re.sub(r'\bfalse\b', 'False', chunk)
            chunk = re.sub(r'\bnil\b', '[]', chunk)
            out.append(chunk)
            i = j
    return pyast.literal_eval(''.join(out))


# ------------------------------------------------------------------ check

def open_classes():
    kfs = [f for f in common.known_findings(PROP) if f.get('status') == 'open']
    if os.environ.get('C20_DEV_KNOWN') == '1':
        p = os.path.join(common.VERIF, 'corpus', 'C20.known.json')
        if os.path.exists(p):
            kfs += [f for f in json.load(open(p))['findings'] if f['property'] == PROP and f.get('status') == 'open']
    return [f for f in kfs if f.get('class') in KF_CLASSES]


def attrs_to_record():
    try:
        return gen_handlers.extract(common.REPO)['attrs']
    except Exception:  # noqa  (translator failure is reported through the build state)
        return list(gen_handlers.CANDIDATE_ATTRS)


def run_cases(run, wd, cases, st, kfs, attrs, tag='cases'):
    """Drive the implementation on the cases and evaluate the Gallina verdicts.
    Returns (records kept, holds-bad, corr-bad, not-in-raises, {kf class: indices where it holds})."""
    items = [dict(c, dir=wd.file('impl'), name=f'c20_{tag}_{i}', attrs=attrs) for i, c in enumerate(cases)]
    res = common.run_impl('pC20', 'impl_main', items, extra_env={'PYTHONUTF8': '1'})
    keep, terms = [], []
    for c, it, r in zip(cases, items, res):
        if r is not None and r.get('exc') == 'RuntimeError' and r.get('msg') == 'C20-restart':
            side = os.path.join(it['dir'], it['name'] + '.result.json')
            try:
                r = {'ok': json.load(open(side))}
                os.unlink(side)
            except (OSError, ValueError):
                r = {'exc': 'lost-result', 'msg': side}
        if r is None or 'ok' not in r or r['ok']['other_loader']:
            run.violation({'kind': 'internal-error', 'case': c, 'result': r})
            continue
        rec = r['ok']
        keep.append((c, rec))
        terms.append(case_term(c, rec))
        run.count([c['ft'], c['pos'], c['bad']], nontrivial=True)
    evals = ['bad_cases holds_C20', 'bad_cases in_raises', 'bad_cases (fun c => is_some (c_exn c))']
    evals += [f'bad_cases (fun c => negb ({k} c))' for k in KF_CLASSES]
    header = HEADER
    if st['models_ok']:
        evals.append('bad_cases corr_C20')
        header += MODEL_HEADER
    bad, err = common.coq_eval_cases(wd, tag, header, terms, evals)
    if err:
        run.violation({'kind': 'case-evaluation-failed', 'error': err}, no_input=True)
        return keep, [], [], [], [], {k: [] for k in KF_CLASSES}
    kf_hits = {k: set(bad[3 + i]) for i, k in enumerate(KF_CLASSES)}
    corr_bad = bad[3 + len(KF_CLASSES)] if st['models_ok'] else []
    return keep, bad[0], corr_bad, bad[1], bad[2], kf_hits


def validate_seeds(run, wd, attrs):
    """Harness sanity (not a verdict): every seed document must load in graphtage and diff equal to itself."""
    items = []
    for ft in TEXT_TYPES:
        for si, doc in enumerate(seeds()[ft]):
            items.append({'ft': ft, 'pos': 1, 'bad': doc.hex(), 'good': doc.hex(), 'dir': wd.file('impl'),
                          'name': f'c20_seed_{ft}_{si}', 'attrs': attrs})
    res = common.run_impl('pC20', 'impl_main', items, extra_env={'PYTHONUTF8': '1'})
    for it, r in zip(items, res):
        ok = r is not None and 'ok' in r and r['ok']['status'] == 0 and not r['ok']['loader'] and not r['ok']['other_loader']
        if not ok:
            run.violation({'kind': 'internal-error', 'what': 'a seed document does not load', 'ft': it['ft'],
                           'seed': bytes.fromhex(it['bad']).decode('utf-8', 'replace'), 'result': r})
    return len(items)


def replay_obj(c, rec, what):
    return {'kind': what, 'ft': c['ft'], 'pos': c['pos'], 'corruption': c['kind'], 'bad_hex': c['bad'],
            'good_hex': c['good'], 'bad_text': bytes.fromhex(c['bad']).decode('utf-8', 'replace'),
            'observed': {k: rec.get(k) for k in ('status', 'stdout', 'stderr', 'uncaught', 'loader')},
            'replay': './check C20 --replay <this file>'}


def classify(run, keep, bad_holds, kf_hits, kfs, printed):
    """Failing cases: inside the class of an open finding -> KNOWN-FINDING (once per finding), else violation."""
    open_names = {f['class']: f for f in kfs}
    n_viol = 0
    for i in bad_holds:
        c, rec = keep[i]
        hit = [k for k in KF_CLASSES if i in kf_hits[k] and k in open_names]
        if hit:
            f = open_names[hit[0]]
            printed.setdefault(f['id'], [f, 0, replay_obj(c, rec, 'known-finding')])[1] += 1
        elif n_viol < 5:
            n_viol += 1
            run.violation(replay_obj(c, rec, 'malformed-input-not-reported'))


def model_totality(wd, kfs):
    """Evaluate, inside Coq, which file types the translated handlers cover and which uncovered classes
    lie outside the classes of the open findings."""
    kfl = '[' + '; '.join(f['class'] for f in kfs) + ']' if kfs else '(@nil (c20_case -> bool))'
    terms = ['map (fun ft => (ft, handler_total raises_table ft)) text_types',
             'map (fun ft => (ft, map fst (failures raises_table ft))) text_types',
             f'map (fun ft => (ft, uncovered {kfl} raises_table ft)) text_types',
             'main_ok']
    vals, err = common.coq_eval_terms(wd, 'totality', HEADER + MODEL_HEADER, terms)
    if err:
        return None, err
    return [parse_coq_value(v) for v in vals], None


def check(tier, seed):
    run = common.Run(PROP, tier, seed)
    wd = common.Workdir(PROP)
    rng = random.Random(seed)
    try:
        st = common.build(['theories/HandlersModel.vo'], ['props/PropC20.vo'])
        common.proof_evidence(run, wd, PROP, st, THEOREMS)
        kfs = open_classes()
        attrs = attrs_to_record()
        run.cov['seed_documents'] = validate_seeds(run, wd, attrs)
        corpus_path = os.path.join(common.VERIF, 'corpus', 'C20.jsonl')
        cases = [json.loads(l) for l in open(corpus_path) if l.strip()] if os.path.exists(corpus_path) else []
        gen, stats = gen_cases(tier, rng, per_format=int(os.environ.get('C20_PER_FORMAT', '240')))
        cases += gen
        keep, bad_holds, bad_corr, bad_raises, accepted, kf_hits = run_cases(run, wd, cases, st, kfs, attrs)
        printed = {}
        # a corruption the loader accepted is not malformed input for graphtage's own parser: counted, not judged
        acc = set(accepted)
        classify(run, keep, [i for i in bad_holds if i not in acc], kf_hits, kfs, printed)
        run.cov['traces_validated_against_impl'] = len(keep) - len(acc)
        # the model: which file types are covered by the translated handlers
        tot = None
        if st['models_ok']:
            tot, err = model_totality(wd, kfs)
            if err:
                run.violation({'kind': 'model-evaluation-failed', 'error': err}, no_input=True)
        if tot:
            totals, fails, uncovered, main_ok = tot
            run.cov['handler_total'] = dict(totals)
            run.cov['model_uncovered_classes'] = {ft: cl for ft, cl in fails if cl}
            run.cov['main_ok'] = main_ok
            for ft, cl in uncovered:
                if not cl:
                    continue
                # the model says: these loader exceptions are not reported and no open finding covers them.
                # a failing input of that class among the cases is the concrete violation; else report the class.
                hit = [i for i in bad_holds if keep[i][0]['ft'] == ft and keep[i][1]['loader']
                       and keep[i][1]['loader'][0]['cls'] in cl]
                if not hit:
                    run.violation({'kind': 'handler-not-total', 'ft': ft, 'exception_classes': cl,
                                   'what': 'the translated handler does not turn these loader exceptions into a message '
                                           'naming the file, and no generated input raised them'}, no_input=True)
        # correspondence: outcome = model's, and every observed loader exception class is tabulated
        judged = [i for i in range(len(keep)) if i not in acc]
        bad_raises = [i for i in bad_raises if i not in acc]
        bad_corr = [i for i in bad_corr if i not in acc]
        if st['broken'] and not run.violations:
            more, _ = gen_cases('thorough', random.Random(seed + 1), 0)
            rng.shuffle(more)
            k2, bh, bc, br, ac2, kh2 = run_cases(run, wd, more[:6000], st, kfs, attrs, tag='search')
            classify(run, k2, [i for i in bh if i not in set(ac2)], kh2, kfs, printed)
            if not run.violations:
                run.violation({'kind': 'tie-broken', 'what': st['broken']}, no_input=True)
        elif not run.violations:
            if bad_raises:
                c, rec = keep[bad_raises[0]]
                classes = sorted({(keep[i][0]['ft'], keep[i][1]['loader'][0]['cls']) for i in bad_raises})
                run.violation(dict(replay_obj(c, rec, 'correspondence-broken'),
                                   what='a loader raised an exception class that is not in raises_table '
                                        '(the theorem does not cover it)', classes=classes), no_input=True)
            elif bad_corr:
                c, rec = keep[bad_corr[0]]
                run.violation(dict(replay_obj(c, rec, 'correspondence-broken'),
                                   what='corr_C20: main() did something else than the translated model predicts',
                                   n=len(bad_corr)), no_input=True)
        for fid, (f, n, rp) in sorted(printed.items()):
            run.known(f'id={fid} class={f["class"]} cases={n} {f["what"]}')
        by = {}
        for i in judged:
            c, rec = keep[i]
            cls = rec['loader'][0]['cls']
            kind = 'crash:' + rec['uncaught']['cls'] if rec['uncaught'] else f'exit{rec["status"]}'
            by.setdefault(c['ft'], {}).setdefault(cls, {}).setdefault(kind, 0)
            by[c['ft']][cls][kind] += 1
        run.cov['rule'] = ('for each text format (json json5 yaml xml html plist): seed documents incl. non-ASCII text; corruptions = '
                           'truncation at every byte, deletion/duplication of every byte (delimiters first), of every line and tag, '
                           'adjacent tag swaps, inserted brackets/tags/NUL/invalid UTF-8 at every offset; kept iff an independent '
                           'parser rejects; each as FIRST and as SECOND file of the real main(); quick = seeded sample per format, '
                           'thorough = all; distinct by (format, position, bytes)')
        run.cov['generator'] = stats
        run.cov['loader_accepted_not_judged'] = len(acc)
        run.cov['observed'] = by
        run.cov['failing_cases'] = len([i for i in bad_holds if i not in acc])
        run.cov['samples'] = [{k: c[k] for k in ('ft', 'pos', 'kind')} for c, _ in keep[:3]]
        run.assumptions = ['raises_table (exception classes a loader raises on malformed bytes) is established by this fault '
                           'enumeration only; the theorems take it as a parameter',
                           'CPython rules used by the model: except-clause matching by subclass, object.__format__ with a '
                           'non-empty spec raises TypeError, a missing attribute raises AttributeError, format(x, "") = str(x)',
                           'texts of str(e)/repr(e)/attributes are oracle values recorded from the running code',
                           'characters outside printable ASCII are serialised as "?" (file names are ASCII)']
        return run.finish()
    finally:
        wd.cleanup()


def replay(path):
    obj = json.load(open(path))
    if 'replay' in obj and isinstance(obj['replay'], dict) and 'bad_hex' in obj['replay']:
        obj = obj['replay']                     # an entry of known_findings.json
    if 'bad_hex' not in obj:
        # a tie-broken record without a failing input: the quick check itself is the replay
        print(f'replay file holds no input (kind={obj.get("kind")}); re-running the quick check')
        return check('quick', 1)
    wd = common.Workdir(PROP + 'r')
    try:
        st = common.build(['theories/HandlersModel.vo'], [])
        c = {'ft': obj['ft'], 'pos': obj['pos'], 'kind': obj.get('corruption', 'replay'),
             'bad': obj['bad_hex'], 'good': obj['good_hex']}
        item = dict(c, dir=wd.file('impl'), name='c20_replay', attrs=attrs_to_record())
        r = common.run_impl('pC20', 'impl_main', [item], nproc=1, extra_env={'PYTHONUTF8': '1'})[0]
        if r.get('exc') == 'RuntimeError' and r.get('msg') == 'C20-restart':
            r = {'ok': json.load(open(os.path.join(item['dir'], item['name'] + '.result.json')))}
        print(json.dumps(r, indent=1)[:3000])
        bad = True
        if 'ok' in r:
            b, err = common.coq_eval_cases(wd, 'replay', HEADER, [case_term(c, r['ok'])], ['bad_cases holds_C20'])
            bad = bool(err) or bool(b[0])
        if bad:
            print(f'VIOLATION property={PROP} replay={path}')
            return 1
        print('replay: property holds on this input')
        return 0
    finally:
        wd.cleanup()
