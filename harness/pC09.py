"""C09 - the same data compares as equal regardless of input file format.

Implementation side: the same Python value is written as JSON (json.dumps), JSON5 (own spelling: unquoted keys,
single quotes, trailing commas), YAML (yaml.dump) and plist (plistlib.dumps), each file is loaded through the real
Filetype.build_tree, the loaded trees are serialised, every ordered pair of formats is diffed (== of the trees,
final cost of the edit, and for a sample the exit status of `python -m graphtage`), the same against a third
document, and the complete nested script of one rotating format pair is recorded with its matching oracle.
Verdicts: Gallina `holds_C09` / `holds_C09_partial` (LoadSpec.v) and `corr_C09` (LoadModel.v) under vm_compute.
Python only generates, writes files, drives, serialises, counts.
"""
import json
import os
import random
import shutil

from harness import common, scriptlib as sl

PROP = 'C09'
THEOREMS = ['C09_same_tree', 'C09_zero_partial', 'C09_equal_partial', 'C09_third_partial', 'C09_self_zero',
            'C09_into_plist_refuted_', 'C09_holds_partial', 'C09_refuted_']
FMTS = ['json', 'json5', 'yaml', 'plist']
FCOQ = {'json': 'FJson', 'json5': 'FJson5', 'yaml': 'FYaml', 'plist': 'FPlist'}
SPEC_TARGETS = ['theories/LoadSpec.vo']
MODEL_TARGETS = ['theories/LoadSpec.vo', 'theories/LoadModel.vo']
HEADER_SPEC = ('From Coq Require Import ZArith List Bool.\nRequire Import GT.PyBase GT.Data GT.ScriptSpec GT.BuildModel GT.LoadSpec.\n'
               'Import ListNotations.\nOpen Scope Z_scope.\n')
HEADER_MODEL = HEADER_SPEC + 'Require Import GT.ScriptModel GT.LoadModel.\n'
CORPUS = os.path.join(common.VERIF, 'corpus', 'C09.jsonl')
KF_ID = 'D8b'


# ------------------------------------------------------------------ writers (harness side, run in the worker)

def json5_text(v, rng):
    """A JSON5 spelling of v that differs from its JSON spelling."""
    import re
    if isinstance(v, dict):
        parts = []
        for k, x in v.items():
            key = k if re.fullmatch(r'[A-Za-z_][A-Za-z0-9_]*', k) and rng.random() < 0.7 else json.dumps(k)
            parts.append(f'{key}: {json5_text(x, rng)}')
        return '{' + ', '.join(parts) + (',' if parts and rng.random() < 0.5 else '') + '}'
    if isinstance(v, list):
        parts = [json5_text(x, rng) for x in v]
        return '[' + ', '.join(parts) + (',' if parts and rng.random() < 0.5 else '') + ']'
    if isinstance(v, str):
        if "'" not in v and '\\' not in v and all(ord(c) >= 32 for c in v) and rng.random() < 0.6:
            return "'" + v.replace('"', '"') + "'"
        return json.dumps(v)
    if isinstance(v, float) and v == int(v) and abs(v) < 1e15 and rng.random() < 0.3:
        return json.dumps(v)              # e.g. 1.0
    return json.dumps(v)


def intern_shared(v, table=None):
    if table is None:
        table = {}
    if isinstance(v, list):
        w = [intern_shared(x, table) for x in v]
    elif isinstance(v, dict):
        w = {k: intern_shared(x, table) for k, x in v.items()}
    else:
        return v
    if not w:
        return w
    return table.setdefault(json.dumps(w, sort_keys=False), w)


def write_all(dirname, stem, v, seed):
    import plistlib
    import yaml
    rng = random.Random(seed)
    paths = {}
    for f in FMTS:
        paths[f] = os.path.join(dirname, f'{stem}.{f}')
    with open(paths['json'], 'w') as fh:
        fh.write(json.dumps(v, indent=rng.choice([None, 1, 4])))
    with open(paths['json5'], 'w') as fh:
        fh.write(json5_text(v, rng))
    with open(paths['yaml'], 'w') as fh:
        fh.write(yaml.dump(v, default_flow_style=rng.choice([None, False, True]), sort_keys=False, allow_unicode=rng.random() < 0.5))
    with open(paths['plist'], 'wb') as fh:
        fh.write(plistlib.dumps(v, sort_keys=False))
    return paths


# ------------------------------------------------------------------ implementation side (worker)

def _load(f, path, opts):
    import graphtage
    return graphtage.FILETYPES_BY_TYPENAME[f].build_tree(path, opts)


def _unwrap(n):
    from graphtage.plist import PLISTNode
    return n.root if isinstance(n, PLISTNode) else n


def _ser_root(n):
    from graphtage.plist import PLISTNode
    return {'plist': isinstance(n, PLISTNode), 'tree': sl.ser_tree(_unwrap(n))}


def _final_cost(a, b):
    e = a.edits(b)
    while e.valid and not e.is_complete() and e.tighten_bounds():
        pass
    sl._tighten(e)
    return sl.cost_of(e)


def _ser_top(edit):
    import graphtage as g
    from graphtage.plist import PLISTNode
    from graphtage.edits import EditCollection
    if isinstance(edit.from_node, PLISTNode) and isinstance(edit.to_node, PLISTNode) and type(edit) is EditCollection:
        subs = list(edit.edits())
        if len(subs) != 2 or not isinstance(subs[0], g.Match):
            raise ValueError('unexpected shape of the PLISTNode edit')
        sl._tighten(subs[0])
        if sl.cost_of(subs[0]) != 0:
            raise ValueError('PLISTNode edit: the wrapper match is not free')
        inner = sl.ser_edit(subs[1])
        sl._tighten(edit)
        if sl.cost_of(edit) != inner[1 if inner[0] != 'comp' else 2]:
            raise ValueError('PLISTNode edit: cost differs from its root edit')
        return ['plist2', inner]
    return sl.ser_edit(edit)


def impl_case(item):
    """item: {'d': value, 'x': value, 'opts': [ds, lm], 'pair': [f1, f3], 'cli': [[f1, f2], ...], 'seed': int, 'dir': path}"""
    import subprocess
    import sys
    import graphtage
    sl._quiet()
    dirname = os.path.join(item['dir'], f'c{item["idx"]}')
    os.makedirs(dirname, exist_ok=True)
    try:
        opts_kw = sl.options_kwargs(*item['opts'])
        mk = lambda: graphtage.BuildOptions(**opts_kw)     # noqa: E731
        # items travel to the worker as JSON, which loses object identity: re-introduce sharing by interning structurally
        # equal non-empty containers (yaml.dump then writes anchors/aliases, plistlib/json spell them out)
        pd = write_all(dirname, 'd', intern_shared(item['d']), item['seed'])
        px = write_all(dirname, 'x', intern_shared(item['x']), item['seed'] + 1)
        roots_d = {f: _ser_root(_load(f, pd[f], mk())) for f in FMTS}
        roots_x = {f: _ser_root(_load(f, px[f], mk())) for f in FMTS}
        dd, dx = [], []
        for f1 in FMTS:
            for f2 in FMTS:
                a, b = _load(f1, pd[f1], mk()), _load(f2, pd[f2], mk())
                eq = bool(a == b)
                dd.append([f1, f2, eq, _final_cost(a, b)])
                a, b = _load(f1, pd[f1], mk()), _load(f2, px[f2], mk())
                dx.append([f1, f2, _final_cost(a, b)])
        f1, f3 = item['pair']
        rec = sl.run_script(lambda: (_load(f1, pd[f1], mk()), _load(f3, px[f3], mk())), unwrap=_unwrap, ser_top=_ser_top)
        exits = []
        ds, lm = item['opts']
        flags = ['--dict-strategy', ds] + ({'on': [], 'off': ['--no-list-edits'], 'same': ['--no-list-edits-when-same-length']}[lm])
        for g1, g2 in item.get('cli', []):
            p = subprocess.run([sys.executable, '-m', 'graphtage', '--no-status'] + flags + [pd[g1], pd[g2]],
                               stdout=subprocess.DEVNULL, stderr=subprocess.PIPE, text=True, timeout=120)
            # an uncaught exception while rendering is recorded as status 99 (it is certainly not "exit status 0")
            exits.append([g1, g2, 99 if 'Traceback' in p.stderr else p.returncode])
        return {'roots_d': roots_d, 'roots_x': roots_x, 'dd': dd, 'dx': dx, 'exits': exits,
                'script': rec['script'], 'matchings': rec['matchings'], 'orders': rec['orders']}
    finally:
        shutil.rmtree(dirname, ignore_errors=True)


# ------------------------------------------------------------------ Gallina terms

def leaf_of(v):
    """The leaf json.build_tree must build for the Python scalar v (same fields as scriptlib.ser_tree)."""
    if isinstance(v, bool):
        return f'(Build_leaf KBool {sl.codes(str(v))} {int(v)} 0)'
    if isinstance(v, int):
        return f'(Build_leaf KInt {sl.codes(str(v))} {sl.z(v)} 0)'
    if isinstance(v, float):
        num, den = v.as_integer_ratio()
        return f'(Build_leaf KFloat {sl.codes(str(v))} {sl.z(num)} {den.bit_length() - 1})'
    if isinstance(v, str):
        return f'(Build_leaf KStr {sl.codes(v)} 0 0)'
    if v is None:
        return f'(Build_leaf KNull {sl.codes("None")} 0 0)'
    raise ValueError(type(v))


def doc_term(v):
    if isinstance(v, list):
        return '(DArr [' + ';'.join(doc_term(x) for x in v) + '])'
    if isinstance(v, dict):
        return '(DObj [' + ';'.join(f'({leaf_of(k)}, {doc_term(x)})' for k, x in v.items()) + '])'
    return f'(DLeaf {leaf_of(v)})'


def opts_term(ds, lm):
    kw = sl.options_kwargs(ds, lm)
    return (f'(Build_bopts {sl.b(kw["allow_key_edits"])} {sl.b(kw["auto_match_keys"])} {sl.b(kw["allow_list_edits"])} '
            f'{sl.b(kw["allow_list_edits_when_same_length"])})')


def root_term(r):
    return f'(Build_root {sl.b(r["plist"])} {sl.tree_term(r["tree"])})'


def case_term(item, r):
    rd = ';'.join(f'({FCOQ[f]}, {root_term(r["roots_d"][f])})' for f in FMTS)
    rx = ';'.join(f'({FCOQ[f]}, {root_term(r["roots_x"][f])})' for f in FMTS)
    dd = ';'.join(f'({FCOQ[a]}, {FCOQ[b]}, {sl.b(eq)}, {sl.z(c)})' for a, b, eq, c in r['dd'])
    dx = ';'.join(f'({FCOQ[a]}, {FCOQ[b]}, {sl.z(c)})' for a, b, c in r['dx'])
    ex = ';'.join(f'({FCOQ[a]}, {FCOQ[b]}, {sl.z(c)})' for a, b, c in r['exits'])
    return (f'(Build_load_case {opts_term(*item["opts"])} {doc_term(item["d"])} {doc_term(item["x"])} [{rd}] [{rx}] '
            f'[{dd}] [{dx}] [{ex}])')


def redit_term(s):
    if s[0] == 'plist2':
        return f'(RBoth {sl.edit_term(s[1])})'
    return f'(RInner {sl.edit_term(s)})'


def corr_term(item, r):
    f1, f3 = item['pair']
    s = r['script']
    if f1 != 'plist' and f3 == 'plist':
        if s[0] != 'replace':
            red = f'(RInner {sl.edit_term(s)})'       # will disagree with the model: reported
        else:
            red = f'(RReplace {sl.z(s[1])})'
    else:
        red = redit_term(s)
    ms = ';'.join(f'({sl.nats(p)}, {sl.nats(q)}, [{";".join(f"({x}%nat,{y}%nat)" for x, y in pairs)}])'
                  for p, q, pairs in r['matchings'])
    od = ';'.join(f'({sl.nats(p)}, {sl.nats(q)}, {sl.nats(o)})' for p, q, o in r['orders'])
    return (f'(Build_load_corr {case_term(item, r)} ({FCOQ[f1]}, {FCOQ[f3]}) {red} (Build_oracle [{ms}] [{od}]))')


# ------------------------------------------------------------------ generators: data expressible in all four formats

STRS = ['a', 'b', 'ab', 'abc', 'x', '', '1', '10', 'true', 'null', 'hello world', 'hallo', 'k', 'é', 'aXb', 'yes', 'No', '~',
        '1.5', 'a: b', '- x', "it's", '#c', ' lead', 'trail ', '日本', 'a\nb', 'line\n', 'make\nmake test\n', 'x\n\ny\n', '\n',
        'tab\there', 'two  spaces', 'a\nb\n\n']
KEYS = ['a', 'b', 'c', 'key', 'kez', 'k1', 'k2', 'on', '1', 'aaaaaaaX', 'aaaaaaaY', 'nul', 'é', 'a b']


def g_scalar(rng):
    r = rng.random()
    if r < 0.3:
        return rng.choice([0, 1, 2, 5, 10, 11, 100, -1, 12345, 2 ** 40, -2 ** 62])
    if r < 0.65:
        return rng.choice(STRS)
    if r < 0.77:
        return rng.choice([True, False])
    if r < 0.92:
        return rng.choice([0.5, 1.0, 1.5, 2.25, -0.0, 1e16, 10.0, 1e-7, 3.14159, -2.5])
    return ''.join(rng.choice('abc') for _ in range(rng.randint(0, 6)))


def g_value(rng, depth, width, top=False, pool=None):
    """pool: containers built so far in this document; with some probability one of them is REUSED (the same Python object
    at two places), which yaml.dump writes as an anchor + alias while the JSON/JSON5/plist writers spell it out twice"""
    if pool is None:
        pool = []
    r = rng.random()
    if not top and (depth <= 0 or r < 0.35):
        return g_scalar(rng)
    if not top and pool and rng.random() < 0.18:
        return rng.choice(pool)
    if r < 0.6:
        v = [g_value(rng, depth - 1, width, pool=pool) for _ in range(rng.randint(0, width))]
    else:
        ks = rng.sample(KEYS, rng.randint(0, min(width, len(KEYS))))
        v = {k: g_value(rng, depth - 1, width, pool=pool) for k in ks}
    if v:
        pool.append(v)
    return v


def no_null(v):
    if v is None:
        return False
    if isinstance(v, list):
        return all(no_null(x) for x in v)
    if isinstance(v, dict):
        return all(no_null(x) for x in v.values())
    return True


def g_third(rng, d):
    for _ in range(20):
        x = sl.mutate(rng, d) if rng.random() < 0.75 else g_value(rng, 2, 3, top=True)
        if rng.random() < 0.3:
            x = sl.mutate(rng, x)
        if no_null(x) and json_ok(x):
            return x
    return d


def json_ok(v):
    """expressible in all four formats with the writers above: string keys, no None, finite floats, ints in int64/uint64"""
    if isinstance(v, dict):
        return all(isinstance(k, str) and json_ok(x) for k, x in v.items())
    if isinstance(v, list):
        return all(json_ok(x) for x in v)
    if isinstance(v, bool) or isinstance(v, str):
        return True
    if isinstance(v, int):
        return -2 ** 63 <= v < 2 ** 64
    if isinstance(v, float):
        return v == v and abs(v) != float('inf')
    return False


def gen_items(tier, rng, workdir):
    items = []
    if os.path.exists(CORPUS):
        items += [json.loads(l) for l in open(CORPUS) if l.strip()]
    n = 90 if tier == 'quick' else 900
    pairs = [(a, b) for a in FMTS for b in FMTS]
    # a sub-list shared by identity (YAML anchor/alias; spelled out twice elsewhere), list edits disabled
    shared = [1, 2, 3, 4]
    for lm, pr in (('off', ['yaml', 'json']), ('same', ['json', 'yaml']), ('off', ['plist', 'json5'])):
        items.append({'d': {'first': shared, 'second': shared, 'name': 'demo'},
                      'x': {'first': [1, 2, 3, 4], 'second': [2, 3, 4, 5], 'name': 'demo'},
                      'opts': ['auto', lm], 'pair': pr, 'cli': []})
    for k in range(n):
        depth, width = (2, 3) if k % 3 else (3, 4)
        d = g_value(rng, depth, width, top=rng.random() < 0.9)
        while not (json_ok(d) and no_null(d)):
            d = g_value(rng, depth, width, top=True)
        x = g_third(rng, d)
        items.append({'d': d, 'x': x, 'opts': list(sl.OPTION_SETS[k % 9]), 'pair': list(pairs[k % 16]),
                      'cli': [list(pairs[(3 * k) % 16]), list(pairs[(3 * k + 7) % 16])] if k % 3 == 0 or tier != 'quick' else []})
    for i, it in enumerate(items):
        it['idx'] = i
        it['seed'] = rng.randrange(1 << 30)
        it['dir'] = workdir
        it.setdefault('cli', [])
    return items


def nontrivial(it):
    return isinstance(it['d'], (list, dict)) and len(it['d']) > 0 and it['d'] != it['x']


# ------------------------------------------------------------------ check / replay

def evaluate(run, wd, st, items, tag='cases'):
    res = common.run_impl('pC09', 'impl_case', items, timeout_item=300)
    ok = []
    for it, r in zip(items, res):
        run.count([it['d'], it['x'], it['opts'], it['pair']], nontrivial(it))
        if 'ok' in r:
            ok.append((it, r['ok']))
        else:
            run.violation({'kind': 'internal-error', 'input': {k: it[k] for k in ('d', 'x', 'opts', 'pair', 'cli', 'seed')},
                           'result': r, 'note': 'loading or diffing the same data in two formats raised'})
    if st['models_ok']:
        header = HEADER_MODEL
        terms = [corr_term(it, r) for it, r in ok]
        evals = ['bad_cases (fun c => holds_C09 (lr_case c))', 'bad_cases (fun c => holds_C09_partial (lr_case c))',
                 'bad_cases corr_C09']
    else:
        header = HEADER_SPEC
        terms = [case_term(it, r) for it, r in ok]
        evals = ['bad_cases holds_C09', 'bad_cases holds_C09_partial']
    bad, err = common.coq_eval_cases(wd, tag, header, terms, evals, chunk=60)
    if err:
        run.violation({'kind': 'case-evaluation-failed', 'error': err}, no_input=True)
        return ok, [], [], []
    return ok, bad[0], bad[1], (bad[2] if st['models_ok'] else [])


def open_known():
    return [f for f in common.known_findings(PROP) if f.get('status') == 'open' and f.get('id') == KF_ID]


def check(tier, seed):
    run = common.Run(PROP, tier, seed)
    wd = common.Workdir(PROP)
    rng = random.Random(seed)
    try:
        st = common.build(MODEL_TARGETS, ['props/PropC09.vo'])
        if not st['models_ok']:
            with common.Lock():
                common.coq_make(SPEC_TARGETS)
        common.proof_evidence(run, wd, PROP, st, THEOREMS)
        impl_dir = wd.file('impl')
        os.makedirs(impl_dir, exist_ok=True)
        items = gen_items(tier, rng, impl_dir)
        ok, bad_full, bad_partial, bad_corr = evaluate(run, wd, st, items)
        known = open_known()
        pub = lambda it: {k: it[k] for k in ('d', 'x', 'opts', 'pair', 'cli', 'seed')}     # noqa: E731
        n_known = 0
        for i in bad_full:
            if i in bad_partial or not known:
                if len(run.violations) < 3:
                    it, r = ok[i]
                    run.violation({'kind': 'holds_C09-false', 'input': pub(it), 'dd': r['dd'], 'dx': r['dx'], 'exits': r['exits'],
                                   'note': 'same data in two formats is not equal / does not diff to zero / costs differ'
                                           + ('' if i in bad_partial else ' (inside the class of D8b, which is not listed as open)')})
            else:
                n_known += 1
        if known and n_known:
            it = ok[[i for i in bad_full if i not in bad_partial][0]][0]
            run.known(f'{KF_ID} {known[0]["what"]} [{n_known} of {len(ok)} cases, e.g. d={json.dumps(it["d"])[:120]}]')
        run.cov['traces_validated_against_impl'] = len(ok) if st['models_ok'] else 0
        run.cov['corr_disagreements'] = len(bad_corr)
        run.cov['cli_runs'] = sum(len(r['exits']) for _, r in ok)
        run.cov['format_pairs_per_case'] = 32
        if (st['broken'] or bad_corr) and not run.violations:
            # tie broken, no failing input yet: search with the thorough generator
            more = gen_items('thorough', random.Random(seed * 7919 + 1), impl_dir)[:600]
            ok2, bf2, bp2, _ = evaluate(run, wd, st, more, tag='search')
            bad2 = [i for i in bf2 if i in bp2 or not known]
            if bad2:
                it, r = ok2[bad2[0]]
                run.violation({'kind': 'holds_C09-false', 'input': pub(it), 'dd': r['dd'], 'dx': r['dx'], 'exits': r['exits']})
            elif not run.violations:
                what = st['broken'] or {'stage': 'correspondence', 'statement': 'corr_C09',
                                        'first_disagreeing_input': pub(ok[bad_corr[0]][0]) if bad_corr else None}
                run.violation({'kind': 'tie-broken', 'what': what}, no_input=True)
        run.cov['rule'] = ('seeded grammar of data expressible in JSON, JSON5, YAML and plist (string keys incl. non-identifier and '
                           'YAML-sensitive spellings, strings that look like other scalars, ints to 2^62, finite floats incl. -0.0 and '
                           '1e16, booleans, nested lists/mappings, empty containers and strings; no null) x a third document (mutation '
                           'of the first or fresh) x 9 option sets; per case all 16 ordered format pairs for (d, d) and (d, x), one '
                           'rotating pair with full script correspondence, CLI exit status on a sample; non-trivial = d is a non-empty '
                           'container and differs from x; distinct by (d, x, options, recorded pair)')
        run.cov['samples'] = [pub(ok[i][0]) for i in range(0, min(len(ok), 90), 29)]
        run.cov['exhaustive'] = False
        run.assumptions = ['json, json5, PyYAML (C loader) and plistlib return equal Python values for the same data: tested here on '
                           'every case (loaded tree = model build of the source value), not proved',
                           'leaf text is Python str(object), numeric value float.as_integer_ratio (harness-supplied)',
                           'scipy matching is an oracle input of the script model']
        return run.finish()
    finally:
        wd.cleanup()


def replay(path):
    obj = json.load(open(path))
    it = obj.get('input') or obj.get('replay')
    if not it or 'd' not in it:
        print('replay file names no input:', json.dumps(obj)[:400])
        print(f'VIOLATION property={PROP} replay={path} no-failing-input-found')
        return 1
    wd = common.Workdir(PROP + 'r')
    try:
        with common.Lock():
            common.regen()
            common.coq_project()
            common.coq_make(SPEC_TARGETS)
        it = dict(it, idx=0, dir=wd.file('impl'), x=it.get('x', it['d']))
        it.setdefault('opts', ['auto', 'on'])
        it.setdefault('pair', ['json', 'yaml'])
        it.setdefault('seed', 1)
        it.setdefault('cli', [[a, b] for a in FMTS for b in FMTS])
        os.makedirs(it['dir'], exist_ok=True)
        r = common.run_impl('pC09', 'impl_case', [it], nproc=1, timeout_item=600)[0]
        print(json.dumps(r)[:3000])
        if 'ok' not in r:
            print(f'VIOLATION property={PROP} replay={path}')
            return 1
        fn = 'holds_C09_partial' if open_known() else 'holds_C09'
        bad, err = common.coq_eval_cases(wd, 'replay', HEADER_SPEC, [case_term(it, r['ok'])], [f'bad_cases {fn}'])
        if err or bad[0]:
            print(f'VIOLATION property={PROP} replay={path}')
            return 1
        print(f'replay: {fn} is true on this input')
        return 0
    finally:
        wd.cleanup()
