"""C13 - any input type can be rendered in any output format and mode.

The whole configuration product (8 input types x 8 output formats x {diff, -e, -d} x {plain, --color, --html}
x {-j, none} x {equal, different documents}) is run through the REAL graphtage.__main__.main() in worker
processes on small fixed documents per type.  From outside, the worker wraps graphtage.formatter.get_formatter
and records every dispatch (base formatter instance, class of the item, resolved formatter instance + method,
facts about the item).  No verdict is computed here: `holds_C13`, `corr_C13`, the known-finding class predicates
and the reachability sets are Gallina functions evaluated with vm_compute.
"""
import json
import os
import random
import re
import sys
import time

from harness import common

sys.path.insert(0, os.path.join(common.VERIF, 'translator'))
import py2coq          # noqa: E402
import gen_dispatch    # noqa: E402
# until the generator is registered in py2coq.MODULES by the framework owner, register it for this process
py2coq.MODULES.setdefault('DispatchGen', gen_dispatch.gen_dispatch)

PROP = 'C13'
TYPES = ['json', 'json5', 'yaml', 'csv', 'xml', 'html', 'plist', 'pickle']
MODES = ['diff', 'e', 'd']
STYLES = ['plain', 'color', 'html']
EXT = {'json': 'json', 'json5': 'json5', 'yaml': 'yaml', 'csv': 'csv', 'xml': 'xml', 'html': 'html',
       'plist': 'plist', 'pickle': 'pkl'}


# ------------------------------------------------------------------ documents (bytes, built deterministically)

def documents():
    """{type: [(name, bytes_a, bytes_b), ...]}; the first set of every type is the quick tier's.
    `a` vs `a` is the equal pair, `a` vs `b` the different pair."""
    import pickle
    import plistlib
    import collections
    u = lambda s: s.encode('utf-8')  # noqa: E731
    j = [
        ('mixed',
         '{"a": [1, 2.5, "x", null, true], "b": {"c": "d"}, "e": "hello"}',
         '{"a": [1, "x", null, false, 7], "b": {"c": "dd", "k": 3}, "e": "hallo", "n": null}'),
        ('nonull',
         '{"a": [1, 2.5, "x", true], "b": {"c": "d"}, "e": "hello"}',
         '{"a": [2.5, "xy", true, [3]], "b": {"cc": "d", "k": {"z": 1}}, "f": "hello"}'),
        ('list', '[1, [2, 3], {"a": "b"}, "s"]', '[1, [2, 4, 5], {"a": "c"}, "t", "u"]'),
        ('scalar', '"only a string"', '"only one string"'),
        ('retype', '{"a": 1, "b": [1, 2], "c": "x"}', '{"a": "1", "b": {"q": 2}, "c": ["x"]}'),
    ]
    j5 = [(n, a.replace('"a":', 'a:').replace('"b":', "'b':"), b.replace('"a":', 'a:')) for n, a, b in j]
    y = [
        ('mixed', 'a:\n- 1\n- 2.5\n- x\n- null\n- true\nb:\n  c: d\ne: hello\n',
         'a:\n- 1\n- x\n- null\n- false\n- 7\nb:\n  c: dd\n  k: 3\ne: hallo\nn: null\n'),
        ('nonull', 'a:\n- 1\n- 2.5\n- x\n- true\nb:\n  c: d\ne: hello\n',
         'a:\n- 2.5\n- xy\n- true\n- - 3\nb:\n  cc: d\n  k:\n    z: 1\nf: hello\n'),
        ('list', '- 1\n- - 2\n  - 3\n- a: b\n- s\n', '- 1\n- - 2\n  - 4\n  - 5\n- a: c\n- t\n- u\n'),
        ('scalar', 'only a string\n', 'only one string\n'),
        ('multiline', 'k: |\n  line one\n  line two\nl: [1, 2]\n', 'k: |\n  line one\n  line 2\nl: {q: 2}\n'),
    ]
    c = [
        ('table', 'id,name,qty\n1,apple,3\n2,pear,5\n', 'id,name,qty\n1,apple,4\n3,plum,5\n4,fig,1\n'),
        ('ragged', 'a,b\n1\n"x,y",2,3\n', 'a,b,c\n"x,z",2\n'),
        ('single', 'x\n', 'y\n'),
        ('quotes', 'q,"he said ""hi"""\n1,2\n', 'q,"she said ""hi"""\n1,2\n5,6\n'),
        ('same-length', '1,2\n3,4\n', '1,5\n3,4\n'),
    ]
    x = [
        ('elems', '<root a="1" b="two"><child id="x">text</child><empty/><n><m>deep</m></n></root>',
         '<root a="1" c="two"><child id="y">test</child><n><m>deeper</m><k/></n><added>z</added></root>'),
        ('flat', '<a><b>1</b><c>2</c></a>', '<a><b>1</b><d>2</d><e/></a>'),
        ('single', '<only/>', '<other x="1"/>'),
        ('text', '<p>first\nsecond</p>', '<p>first\nthird<q/></p>'),
        ('attrs', '<t k="v" l="w"/>', '<t k="vv" m="w">now text</t>'),
    ]
    h = [
        ('page', '<html><head><title>T</title></head><body class="x"><p>para <b>bold</b></p><ul><li>1</li><li>2</li></ul></body></html>',
         '<html><head><title>Tt</title></head><body class="y"><p>para <i>bold</i></p><ul><li>1</li><li>3</li><li>4</li></ul></body></html>'),
        ('div', '<html><body><div id="a"><span>s</span></div></body></html>',
         '<html><body><div id="b"><span>t</span><br/></div></body></html>'),
        ('bare', '<html/>', '<html lang="en"/>'),
        ('table', '<table><tr><td>1</td><td>2</td></tr></table>', '<table><tr><td>1</td></tr><tr><td>3</td></tr></table>'),
        ('para', '<p>one</p>', '<p>two</p>'),
    ]
    pl = [
        ('mixed', {'a': [1, 2.5, 'x', True], 'b': {'c': 'd'}, 'e': 'hello'},
         {'a': [1, 'x', False, 7], 'b': {'c': 'dd', 'k': 3}, 'e': 'hallo'}),
        ('nested', {'a': {'b': {'c': [1, 2]}}}, {'a': {'b': {'c': [1, 3, 4]}, 'd': 'e'}}),
        ('list', [1, [2, 3], {'a': 'b'}, 's'], [1, [2, 4, 5], {'a': 'c'}, 't', 'u']),
        ('scalar', 'only a string', 'only one string'),
        ('retype', {'a': 1, 'b': [1, 2], 'c': 'x'}, {'a': '1', 'b': {'q': 2}, 'c': ['x']}),
    ]
    pk = [
        ('mixed', {'a': [1, 2.5, 'x', None, True], 'b': {'c': 'd'}, 'e': 'hello'},
         {'a': [1, 'x', None, False, 7], 'b': {'c': 'dd', 'k': 3}, 'e': 'hallo', 'n': None}),
        ('nonull', {'a': [1, 2.5, 'x', True], 'b': {'c': 'd'}, 'e': 'hello'},
         {'a': [2.5, 'xy', True, [3]], 'b': {'cc': 'd', 'k': {'z': 1}}, 'f': 'hello'}),
        ('object', collections.OrderedDict([('a', 1), ('b', [1, 2])]), collections.OrderedDict([('a', 2), ('c', [1, 3])])),
        ('set-tuple', {'s': {1, 2}, 't': (1, 'a'), 'y': b'by'}, {'s': {1, 3}, 't': (1, 'b', 2), 'y': b'bz'}),
        ('scalar', 'only a string', 'only one string'),
    ]
    out = {
        'json': [(n, u(a), u(b)) for n, a, b in j],
        'json5': [(n, u(a), u(b)) for n, a, b in j5],
        'yaml': [(n, u(a), u(b)) for n, a, b in y],
        'csv': [(n, u(a), u(b)) for n, a, b in c],
        'xml': [(n, u(a), u(b)) for n, a, b in x],
        'html': [(n, u(a), u(b)) for n, a, b in h],
        'plist': [(n, plistlib.dumps(a, fmt=plistlib.FMT_XML, sort_keys=True),
                   plistlib.dumps(b, fmt=plistlib.FMT_XML, sort_keys=True)) for n, a, b in pl],
        'pickle': [(n, pickle.dumps(a, protocol=2), pickle.dumps(b, protocol=2)) for n, a, b in pk],
    }
    for it, sets in extreme_documents().items():
        out[it] += sets
    return out


def _nest(depth, leaf):
    v = leaf
    for i in range(depth):
        v = [v] if i % 2 else {'k': v}
    return v


def extreme_documents():
    """Extreme scalars / shapes per input type, where the format can carry them (names start with 'x-').
    In the different variant every extreme value is changed, inserted or removed, so that -d prints it."""
    import csv
    import io
    import pickle
    import plistlib
    import xml.etree.ElementTree as ET
    import yaml
    inf, nan = float('inf'), float('nan')
    long_s = 'y' * 2000
    special = 'say "hi" <b>&amp;</b> it\'s\nline\ttab \\'
    num_a = {'big': 2 ** 64, 'neg': -2 ** 63 - 1, 'huge': 10 ** 30, 'zero': 0, 'm1': -1,
             'f': [1e308, 5e-324, -0.0, 1e22], 't': True, 'fl': False}
    num_b = {'big': 2 ** 64 + 1, 'neg': -2 ** 63 - 2, 'huge': 10 ** 30 + 7, 'zero': -1, 'm1': 0,
             'f': [1e308, 5e-324, 1e22, -0.0, 1.5e300], 't': False, 'ins': 2 ** 70}
    str_a = {'e': '', 'q': special, 'na': 'Zo\u00eb \u4e2d', 'astral': '\U0001F600 x', 'ctl': 'a\x01b\x7f',
             'l': ['a'], 'same': long_s}
    str_b = {'e': 'x', 'q': special + '!', 'na': 'Zo\u00eb \u4e2e', 'astral': '\U0001F601 x', 'ctl': 'a\x02b\x7f',
             'l': ['a', long_s, ''], 'same': long_s, 'e2': ''}
    deep_a = {'d': _nest(30, [{}, [], None]), 'empty': {}, 'el': []}
    deep_b = {'d': _nest(30, [[], {}, None, 1]), 'empty': [], 'el': {}}
    nf_a = {'inf': inf, 'ninf': -inf, 'nan': nan, 'l': [inf]}
    nf_b = {'inf': -inf, 'nan': nan, 'x': inf, 'l': [inf, nan, -inf]}
    u = lambda s: s.encode('utf-8')  # noqa: E731
    jd = lambda o: u(json.dumps(o, ensure_ascii=False))  # noqa: E731
    yd = lambda o: u(yaml.safe_dump(o, allow_unicode=True, default_flow_style=False))  # noqa: E731
    # whitespace-only strings (as value, key and list element, unchanged and changed) and a multi-line string with a blank line
    blank_a = {'sp': ' ', 'tab': '\t', ' ': 'blank key', 'l': [' ', 'x', '  '], 'ml': 'a\n  \nb', 'same': '   '}
    blank_b = {'sp': ' ', 'tab': '\t\t', ' ': 'blank key!', 'l': [' ', 'y', '  ', '\t'], 'ml': 'a\n  \nb', 'same': '   ', 'ins': ' '}
    pairs = [('x-num', num_a, num_b), ('x-str', str_a, str_b), ('x-deep', deep_a, deep_b), ('x-nonfinite', nf_a, nf_b),
             ('x-blank', blank_a, blank_b)]

    def cs(rows):
        f = io.StringIO()
        csv.writer(f, lineterminator='\n').writerows(rows)
        return u(f.getvalue())
    csv_a = [['', 'id', special], ['Zo\u00eb \u4e2d', '\U0001F600', 'a\x01b\x7f'], ['18446744073709551616', '1e308', 'inf'], [long_s, 'z']]
    # (only one 2000-character cell / text per document: two of them cost a 2000 x 2000 string edit distance)
    csv_b = [['x', 'id', special + '!'], ['Zo\u00eb \u4e2e', '\U0001F601', 'a\x02b\x7f'], ['-9223372036854775809', 'nan', '']]

    def xel(tag, attrib=None, text=None, kids=()):
        e = ET.Element(tag, attrib or {})
        e.text = text
        for k in kids:
            e.append(k)
        return e

    def xs(e):
        return ET.tostring(e, encoding='utf-8')
    xstr_a = xel('r', {'q': special, 'na': 'Zo\u00eb', 'e': ''}, None,
                 [xel('t', text=special), xel('e', text=''), xel('n\u00e9', text='\U0001F600 \u4e2d'), xel('same', text=long_s)])
    xstr_b = xel('r', {'q': special + '!', 'na': 'Zo\u00ea', 'e2': ''}, None,
                 [xel('t', text=special + '?'), xel('e'), xel('n\u00e9', text='\U0001F601 \u4e2e'), xel('ins', text='')])

    def xdeep(n, leaf):
        e = leaf
        for _ in range(n):
            e = xel('n', kids=[e])
        return e
    xdeep_a, xdeep_b = xdeep(30, xel('leaf')), xdeep(30, xel('leaf', {'a': ''}, 'x'))
    # plist: integers only inside int64/uint64, no null, no control characters
    pl_num_a = dict(num_a, big=2 ** 64 - 1, neg=-2 ** 63, huge=2 ** 63)
    pl_num_b = dict(num_b, big=2 ** 64 - 2, neg=-2 ** 63 + 1, huge=2 ** 63 + 1, ins=2 ** 64 - 1)
    pl_str_a, pl_str_b = dict(str_a, ctl='a b'), dict(str_b, ctl='a  b')
    pl_deep_a = {'d': _nest(30, [{}, []]), 'empty': {}, 'el': []}
    pl_deep_b = {'d': _nest(30, [[], {}, 1]), 'empty': [], 'el': {}}
    pl = [('x-num', pl_num_a, pl_num_b), ('x-str', pl_str_a, pl_str_b), ('x-deep', pl_deep_a, pl_deep_b),
          ('x-nonfinite', nf_a, nf_b), ('x-blank', blank_a, blank_b)]
    # bytes (pickle protocol >= 3 keeps bytes objects; protocol 2 pickles them as _codecs.encode calls):
    # x-bytes: the bytes values are equal or inserted next to non-bytes; x-bytes-diff: two different bytes values
    by_a, by_b = {'by': b'\xff\x00by', 'l': [1]}, {'by': b'\xff\x00by', 'l': [1, b'zz', b'']}
    byd_a, byd_b = {'by': b'\xff\x00by'}, {'by': b'\xff\x01by'}
    # non-string mapping keys (yaml, pickle): an unchanged key with a changed value, a removed and an inserted pair
    keys_a = {'m': {1: 'one', 2.5: 'two', False: 'no', 2 ** 64: 'big', 's': 'str'}, 7: [1]}
    keys_b = {'m': {1: 'uno', False: 'no', 2 ** 64: 'big', 's': 'str', 3: 'three', -0.5: 'neg'}, 7: [1, 2]}
    ykeys = ('x-keys', yd(keys_a), yd(keys_b))
    ynull = ('x-nullkey', u('m:\n  null: x\n  1: y\n'), u('m:\n  null: z\n  1: y\n'))
    # pickle also carries tuple / None / bytes keys (bytes: protocol 4)
    pk2_a = {(1, 2): 't', None: 'n', 1: 'a', b'kb': 'b'}
    pk2_b = {(1, 2): 'u', None: 'n', 2: 'a', b'kb': 'b', 3: 'v'}
    tk_a, tk_b = {(1, 2): 't', (3,): 'v'}, {(1, 2): 't', (3,): 'w'}     # two tuple keys: dies in the loader
    return {
        'json': [(n, jd(a), jd(b)) for n, a, b in pairs],
        'json5': [(n, jd(a), jd(b)) for n, a, b in pairs],
        'yaml': [(n, yd(a), yd(b)) for n, a, b in pairs] + [ykeys, ynull],
        'csv': [('x-str', cs(csv_a), cs(csv_b))],
        'xml': [('x-str', xs(xstr_a), xs(xstr_b)), ('x-deep', xs(xdeep_a), xs(xdeep_b))],
        'html': [('x-str', xs(xstr_a), xs(xstr_b)), ('x-deep', xs(xdeep_a), xs(xdeep_b))],
        'plist': [(n, plistlib.dumps(a, fmt=plistlib.FMT_XML, sort_keys=True),
                   plistlib.dumps(b, fmt=plistlib.FMT_XML, sort_keys=True)) for n, a, b in pl],
        'pickle': [(n, pickle.dumps(a, protocol=2), pickle.dumps(b, protocol=2)) for n, a, b in pairs]
                  + [('x-bytes', pickle.dumps(by_a, protocol=4), pickle.dumps(by_b, protocol=4)),
                     ('x-bytes-diff', pickle.dumps(byd_a, protocol=4), pickle.dumps(byd_b, protocol=4)),
                     ('x-keys', pickle.dumps(keys_a, protocol=2), pickle.dumps(keys_b, protocol=2)),
                     ('x-keys2', pickle.dumps(pk2_a, protocol=4), pickle.dumps(pk2_b, protocol=4)),
                     ('x-tuplekeys', pickle.dumps(tk_a, protocol=2), pickle.dumps(tk_b, protocol=2))],
    }


def argv_of(cfg, path_a, path_b):
    argv = ['graphtage', '--no-status', '--format', cfg['of']]
    if cfg['mode'] == 'e':
        argv.append('-e')
    elif cfg['mode'] == 'd':
        argv.append('-d')
    if cfg['style'] == 'color':
        argv.append('--color')
    elif cfg['style'] == 'html':
        argv.append('--html')
    else:
        argv.append('--no-color')
    if cfg['j']:
        argv.append('-j')
    argv += cfg.get('opt', '').split()
    return argv + [path_a, path_b]


# ------------------------------------------------------------------ implementation side (worker)

def _skeleton(msg):
    """The message without the contents of parentheses/brackets (reprs of whole trees make messages arbitrarily long)."""
    out, depth = [], 0
    for ch in msg:
        if ch in '([{':
            depth += 1
        elif ch in ')]}':
            depth = max(0, depth - 1)
        elif depth == 0:
            out.append(ch)
    return ''.join(out)


def _inst_path(f):
    """A formatter instance as the list of class names from itself up to its root."""
    p = []
    seen = 0
    while f is not None and seen < 20:
        p.append(type(f).__name__)
        f = f.parent
        seen += 1
    return p


def impl_run(item):
    """Write the two files, run main() on them with get_formatter wrapped, record outcome and dispatch events."""
    import io
    import traceback
    import graphtage
    import graphtage.formatter as gf
    import graphtage.tree as gt
    import graphtage.__main__ as gm

    class NoClose(io.StringIO):
        def close(self):
            pass

        def isatty(self):
            return False
    d = item['dir']
    os.makedirs(d, exist_ok=True)
    ext = EXT[item['it']]
    pa = os.path.join(d, f'{item["name"]}_a.{ext}')
    pb = os.path.join(d, f'{item["name"]}_b.{ext}')
    with open(pa, 'wb') as f:
        f.write(bytes.fromhex(item['a']))
    with open(pb, 'wb') as f:
        f.write(bytes.fromhex(item['b']))
    events = []
    index = {}
    orig = gf.get_formatter
    orig_method = gf.Formatter.get_formatter
    max_events = item.get('max_events', 400)
    current = {'haskids': False, 'kind': ''}
    leaf_type = graphtage.LeafNode
    kvp_type = graphtage.KeyValuePairNode

    def method(self, it_):
        current['haskids'] = isinstance(it_, gt.TreeNode) and len(it_.children()) > 0
        if isinstance(it_, leaf_type):
            current['kind'] = gen_dispatch.scalar_kind(it_.object)
        elif isinstance(it_, kvp_type) and isinstance(it_.key, leaf_type):
            current['kind'] = 'key:' + gen_dispatch.scalar_kind(it_.key.object)
        else:
            current['kind'] = ''
        try:
            return orig_method(self, it_)
        finally:
            current['haskids'], current['kind'] = False, ''

    def get_formatter(node_type, base_formatter=None):
        ret = orig(node_type, base_formatter)
        base = _inst_path(base_formatter) if base_formatter is not None else []
        if ret is None:
            res = None
        else:
            # name the returned bound method by the attribute it is reachable under (aliases such as
            # `print_MappingNode = print_MultiSetNode` and functions installed with setattr keep another __name__):
            # the first print_<class of the item's MRO> attribute of the instance that IS the returned method
            name, owner = ret.__name__, None
            for k in node_type.__mro__:
                cand = 'print_' + k.__name__
                if getattr(ret.__self__, cand, None) == ret:
                    name = cand
                    break
            for k in type(ret.__self__).__mro__:
                if name in k.__dict__:
                    owner = k.__name__
                    break
            res = [_inst_path(ret.__self__), name, owner]
        ev = [base, node_type.__name__, res, current['haskids'], current['kind']]
        key = json.dumps(ev)
        if key not in index:
            index[key] = len(events)
            events.append({'base': base, 'cls': node_type.__name__, 'mro': [c.__name__ for c in node_type.__mro__],
                           'res': res, 'is_edit': not issubclass(node_type, gt.TreeNode),
                           'haskids': current['haskids'], 'kind': current['kind'], 'n': 0})
        events[index[key]]['n'] += 1
        return ret
    gf.get_formatter = get_formatter
    gf.Formatter.get_formatter = method
    roots, pairs, kinds = [], set(), set()
    wrapped = []

    def wrap_loader(ft):
        orig_load = ft.build_tree_handling_errors

        def load(path, options=None):
            t = orig_load(path, options)
            if isinstance(t, gt.TreeNode):
                roots.append(type(t).__name__)
                for n in t.dfs():
                    if isinstance(n, leaf_type):
                        kinds.add(gen_dispatch.scalar_kind(n.object))
                    elif isinstance(n, kvp_type) and isinstance(n.key, leaf_type):
                        kinds.add('key:' + gen_dispatch.scalar_kind(n.key.object))
                    for ch in n.children():
                        pairs.add((type(n).__name__, type(ch).__name__))
            return t
        ft.build_tree_handling_errors = load
        wrapped.append(ft)
    for ft in {id(f): f for f in list(graphtage.FILETYPES_BY_MIME.values()) + list(graphtage.FILETYPES_BY_TYPENAME.values())}.values():
        wrap_loader(ft)
    # the failing item: remember the last item handed to a resolved print method's dispatch
    out, err = NoClose(), NoClose()
    so, se = sys.stdout, sys.stderr
    sys.stdout, sys.stderr = out, err
    res = {'status': None, 'exc': None}
    try:
        try:
            res['status'] = gm.main(argv_of(item, pa, pb))
        except SystemExit as e:
            res['exc'] = {'cls': 'SystemExit', 'msg': str(e.code), 'where': [], 'chain': [], 'in_render': False}
        except BaseException as e:  # noqa
            tb = traceback.extract_tb(e.__traceback__)
            where = [f'{os.path.basename(fr.filename)}:{fr.name}' for fr in tb]
            # innermost frames inside graphtage, most recent last
            res['exc'] = {'cls': type(e).__name__, 'msg': (_skeleton(str(e))[:500] + ' | ' + str(e))[:2000], 'where': where[-8:],
                          'in_render': any(fr.name == 'print' and os.path.basename(fr.filename) == 'tree.py' for fr in tb),
                          'chain': [fr.name for fr in tb if fr.name.startswith('print') or fr.name.startswith('_json_print')][-6:]}
    finally:
        sys.stdout, sys.stderr = so, se
        gf.get_formatter = orig
        gf.Formatter.get_formatter = orig_method
        for ft in wrapped:
            del ft.build_tree_handling_errors
    res['roots'] = sorted(set(roots))
    res['pairs'] = sorted(pairs)
    res['kinds'] = sorted(kinds)
    res['stdout_len'] = len(out.getvalue())
    res['stderr'] = err.getvalue()[-300:]
    res['events'] = events[:max_events]
    res['n_events'] = len(events)
    for p in (pa, pb):
        os.unlink(p)
    if res['exc'] is not None:
        # graphtage's process-global printer state is unusable after an exception: hand the record to the
        # parent through a side file and make the worker restart
        with open(os.path.join(d, item['name'] + '.result.json'), 'w') as f:
            json.dump(res, f)
        raise RuntimeError('C13-restart')
    return res


# ------------------------------------------------------------------ serialisation

HEADER = ('From Coq Require Import String List Bool ZArith.\nRequire Import GT.PyBase GT.DispatchSpec.\n'
          'Import ListNotations.\nOpen Scope string_scope.\n')
MODEL_HEADER = 'Require Import GT.DispatchModel GTgen.DispatchGen.\n'
THEOREMS = ['C13_cover', 'C13_dispatch_total', 'C13_no_loop', 'C13_partial', 'C13_edits_mode', 'C13_refuted']
# dictionary-strategy / list-edit flags (one per run): how main() builds the trees and which edits exist
OPTS = ['', '-k', '-ds match', '-ds none', '-l', '-ll']
DS_CTOR = {'-k': 'DSNone', '-ds none': 'DSNone', '-ds match': 'DSMatch'}
LF_CTOR = {'-l': 'LNoListEdits', '-ll': 'LSameLength'}
KF_CLASSES = ['kf_reparent', 'kf_plist_null', 'kf_yaml_bytes', 'kf_bytes_diff', 'kf_yaml_null_key', 'kf_tuple_keys']
KF_TERMS = {'kf_bytes_diff': 'kf_bytes_diff', 'kf_yaml_null_key': 'kf_yaml_null_key', 'kf_tuple_keys': 'kf_tuple_keys'}     # predicates that do not consult the tables
MODE_CTOR = {'diff': 'MDiff', 'e': 'MEdits', 'd': 'MDigest'}
STYLE_CTOR = {'plain': 'SPlain', 'color': 'SColor', 'html': 'SHtml'}


def safe(s):
    return ''.join(c if 32 <= ord(c) <= 126 else '?' for c in s)


def cstr(s):
    return '"' + safe(s).replace('"', '""') + '"'


def clist(xs, f=cstr):
    return '[' + '; '.join(f(x) for x in xs) + ']'


def gb(b):
    return 'true' if b else 'false'


def event_term(e):
    if e['res'] is None:
        res = 'None'
    else:
        res = f'(Some ({clist(e["res"][0])}, {cstr(e["res"][1])}, {cstr(e["res"][2] or "")}))'
    return (f'(Build_event {clist(e["base"])} {cstr(e["cls"])} {clist(e["mro"])} {gb(e["is_edit"])} '
            f'{gb(e["haskids"])} {cstr(e.get("kind", ""))} {res})')


def case_term(c, r):
    if r['exc'] is None:
        out = f'(Completed ({int(r["status"])})%Z)'
    else:
        out = f'(Raised {cstr(r["exc"]["cls"])} {cstr(r["exc"]["msg"][:1500])} {gb(r["exc"].get("in_render", False))})'
    pairs = clist(r['pairs'], lambda p: f'({cstr(p[0])}, {cstr(p[1])})')
    return (f'(Build_c13_case {cstr(c["it"])} {cstr(c["of"])} {MODE_CTOR[c["mode"]]} {STYLE_CTOR[c["style"]]} '
            f'{gb(c["j"])} {gb(c["diff"])} {DS_CTOR.get(c.get("opt", ""), "DSAuto")} {LF_CTOR.get(c.get("opt", ""), "LDefault")} '
            f'{clist(r["roots"])} {pairs} {clist(r.get("kinds", []))} '
            f'{clist(r["events"], event_term)} {out})')


# ------------------------------------------------------------------ product, driving, evaluation

def product(tier, seed):
    """The configuration product on the fixed documents.
    quick: (a) the first ordinary document of each type: for every (input, format, mode) the different pair with no
    flag, -k, -ds match and one of {-l, -ll, -ds none} (rotating), the equal pair with no flag and one of {-k, -ds match}
    (rotating), each with a random (style, -j) variant; (b) every extreme document ('x-...') of each type under every
    format: full diff (equal or different, rotating), -d on the different pair, and -e on one extreme document per
    (input, format), styles rotating - so every (input type, output format) pair meets every extreme scalar class.
    thorough: every (mode, style, -j, equal/different) on every document; every flag on the first document of each
    type, one rotating flag on the others."""
    docs = documents()
    rng = random.Random(seed)

    def item(it, of, mode, style, j, diff, dn, a, b, opt=''):
        return {'it': it, 'of': of, 'mode': mode, 'style': style, 'j': j, 'diff': diff, 'doc': dn, 'opt': opt,
                'a': a.hex(), 'b': (b if diff else a).hex()}
    items = []
    n = 0
    for it in TYPES:
        ordinary = [d for d in docs[it] if not d[0].startswith('x-')]
        extreme = [d for d in docs[it] if d[0].startswith('x-')]
        if tier == 'quick':
            dn, a, b = ordinary[0]
            for oi, of in enumerate(TYPES):
                for mi, mode in enumerate(MODES):
                    k = seed + oi + mi
                    plan = [(True, ''), (True, '-k'), (True, '-ds match'), (True, ['-l', '-ll', '-ds none'][k % 3]),
                            (False, ''), (False, ['-k', '-ds match'][k % 2])]
                    for diff, opt in plan:
                        items.append(item(it, of, mode, rng.choice(STYLES), rng.random() < 0.5, diff, dn, a, b, opt))
                for di, (dn2, a2, b2) in enumerate(extreme):
                    st, j = rng.choice(STYLES), rng.random() < 0.5
                    if dn2 in ('x-nullkey', 'x-tuplekeys'):       # die in the loader whatever the format: one run per format
                        items.append(item(it, of, 'diff', st, j, True, dn2, a2, b2))
                        continue
                    if dn2.startswith('x-keys'):
                        # non-string keys: full diff on the equal AND the different pair, and under -k (full diff and -d)
                        items.append(item(it, of, 'diff', rng.choice(STYLES), rng.random() < 0.5,
                                          (seed + oi + di) % 2 != 0, dn2, a2, b2))
                        items.append(item(it, of, 'diff', rng.choice(STYLES), rng.random() < 0.5, True, dn2, a2, b2, '-k'))
                        items.append(item(it, of, 'd', rng.choice(STYLES), rng.random() < 0.5, True, dn2, a2, b2, '-k'))
                    items.append(item(it, of, 'diff', st, j, (seed + oi + di) % 2 == 0, dn2, a2, b2))
                    items.append(item(it, of, 'd', rng.choice(STYLES), rng.random() < 0.5, True, dn2, a2, b2))
                    if di == (seed + oi) % len(extreme):
                        items.append(item(it, of, 'e', rng.choice(STYLES), rng.random() < 0.5, True, dn2, a2, b2))
        else:
            for di, (dn, a, b) in enumerate(docs[it]):
                for of in TYPES:
                    for mode in MODES:
                        for diff in (False, True):
                            for st in STYLES:
                                for j in (False, True):
                                    n += 1
                                    for opt in (OPTS if di == 0 else [OPTS[(seed + n) % len(OPTS)]]):
                                        items.append(item(it, of, mode, st, j, diff, dn, a, b, opt))
    rng.shuffle(items)     # spread slow and failing runs over the workers
    return items


def drive(wd, cases, tag):
    items = [dict(c, dir=wd.file('impl'), name=f'c13_{tag}_{i}') for i, c in enumerate(cases)]
    res = common.run_impl('pC13', 'impl_run', items, extra_env={'PYTHONUTF8': '1'})
    out = []
    for it_, r in zip(items, res):
        if r is not None and r.get('exc') == 'RuntimeError' and r.get('msg') == 'C13-restart':
            side = os.path.join(it_['dir'], it_['name'] + '.result.json')
            try:
                r = {'ok': json.load(open(side))}
                os.unlink(side)
            except (OSError, ValueError):
                r = {'exc': 'lost-result', 'msg': side}
        out.append(r)
    return out


def evaluate(wd, keep, st, tag):
    """keep: list of (case, record). Groups by (it, of, mode): the reachable set of the group's configuration is
    computed once per group inside Coq.  Returns {eval name: set of indices} and an error string."""
    import threading
    groups = {}
    for i, (c, r) in enumerate(keep):
        groups.setdefault((c['it'], c['of'], c['mode'], DS_CTOR.get(c.get('opt', ''), 'DSAuto') == 'DSNone'), []).append(i)
    evals = ['holds']
    if st['models_ok']:
        evals += ['corr'] + KF_CLASSES
    results = {e: set() for e in evals}
    errors = []
    lock = threading.Lock()
    files = []
    for gi, ((it, of, mode, dsnone), idx) in enumerate(sorted(groups.items())):
        for ci in range(0, len(idx), 150):
            chunk = idx[ci:ci + 150]
            body = [HEADER]
            if st['models_ok']:
                body.append(MODEL_HEADER)
                # (DSAuto and DSMatch give the same grammar: mappings are DictNode)
                body.append(f'Definition S := Eval vm_compute in (reach tables (grammar_o tables {cstr(it)} '
                            f'{"DSNone" if dsnone else "DSAuto"}) (root_class tables {cstr(of)}) {MODE_CTOR[mode]}).')
            body.append('Definition cases := [')
            body.append(';\n'.join(f'({i}%nat, {case_term(*keep[i])})' for i in chunk))
            body.append('].')
            body.append('Eval vm_compute in (bad_cases holds_C13 cases).')
            if st['models_ok']:
                body.append('Eval vm_compute in (bad_cases (corr_C13 tables S) cases).')
                for k in KF_CLASSES:
                    body.append(f'Eval vm_compute in (bad_cases (fun c => negb ({KF_TERMS.get(k, k + " tables")} c)) cases).')
            path = wd.file(f'{tag}_{gi}_{ci}.v')
            with open(path, 'w') as f:
                f.write('\n'.join(body) + '\n')
            files.append(path)
    sem = threading.Semaphore(common.NPROC)

    def run(path):
        with sem:
            rc, out, err = common.coqc_file(path, 600)
        with lock:
            if rc != 0:
                errors.append(f'{os.path.basename(path)}: rc={rc} {err[-600:]}')
                return
            blocks = common.eval_blocks(out)
            if len(blocks) != len(evals):
                errors.append(f'{os.path.basename(path)}: expected {len(evals)} blocks, got {len(blocks)}')
                return
            for e, b in zip(evals, blocks):
                results[e] |= set(common.parse_nat_list(b))
    ths = [threading.Thread(target=run, args=(p,)) for p in files]
    for t in ths:
        t.start()
    for t in ths:
        t.join()
    return results, (errors[0] if errors else None)


def open_findings():
    listed = common.known_findings(PROP)
    fs = [f for f in listed if f.get('status') == 'open']
    # entries proposed in corpus/C13.known.json stand in for ids not yet merged into known_findings.json
    p = os.path.join(common.VERIF, 'corpus', 'C13.known.json')
    if os.path.exists(p):
        have = {f['id'] for f in listed}
        fs += [f for f in json.load(open(p))['findings']
               if f['property'] == PROP and f.get('status') == 'open' and f['id'] not in have]
    return [f for f in fs if f.get('class') in KF_CLASSES]


def replay_obj(c, r, kind):
    docs = {'a': bytes.fromhex(c['a']).decode('utf-8', 'replace'), 'b': bytes.fromhex(c['b']).decode('utf-8', 'replace')}
    return {'kind': kind, 'argv': argv_of(c, f'a.{EXT[c["it"]]}', f'b.{EXT[c["it"]]}')[1:], 'files': docs,
            'case': dict({k: c[k] for k in ('it', 'of', 'mode', 'style', 'j', 'diff', 'a', 'b')}, opt=c.get('opt', '')),
            'observed': None if r is None else {'status': r.get('status'), 'exc': r.get('exc'),
                                                'events': r.get('events', [])[-6:]},
            'replay': './check C13 --replay <this file>'}


def run_product(run, wd, cases, st, kfs, tag, printed, stats):
    """Drive + evaluate + classify. Returns (number judged, corr-bad list of (case, record))."""
    res = drive(wd, cases, tag)
    keep = []
    for c, r in zip(cases, res):
        if r is None or 'ok' not in r:
            run.violation(dict(replay_obj(c, None, 'internal-error'), result=r))
            continue
        keep.append((c, r['ok']))
        run.count([c['it'], c['of'], c['mode'], c['style'], c['j'], c['diff'], c.get('opt', ''), c['a']],
                  nontrivial=c['mode'] != 'e' or c['diff'])
    ev, err = evaluate(wd, keep, st, tag)
    if err:
        run.violation({'kind': 'case-evaluation-failed', 'error': err}, no_input=True)
        return len(keep), []
    open_names = {f['class']: f for f in kfs}
    n_viol = 0
    for i in sorted(ev['holds']):
        c, r = keep[i]
        key = (c['it'], c['of'], c['mode'])
        stats['failing'].setdefault('/'.join(key), 0)
        stats['failing']['/'.join(key)] += 1
        hit = [k for k in KF_CLASSES if st["models_ok"] and i in ev[k] and k in open_names]
        if hit:
            f = open_names[hit[0]]
            printed.setdefault(f['id'], [f, 0])[1] += 1
        elif n_viol < 5:
            n_viol += 1
            run.violation(replay_obj(c, r, 'render-raised'))
    stats['events'] += sum(len(r['events']) for _, r in keep)
    stats['runs'] += len(keep)
    return len(keep), [keep[i] for i in sorted(ev.get('corr', []))]


def check(tier, seed):
    run = common.Run(PROP, tier, seed)
    wd = common.Workdir(PROP)
    try:
        st = common.build(['theories/DispatchModel.vo', 'gen/DispatchGen.vo'], ['props/PropC13.vo'])
        common.proof_evidence(run, wd, PROP, st, THEOREMS)
        kfs = open_findings()
        printed, stats = {}, {'failing': {}, 'events': 0, 'runs': 0}
        corpus_path = os.path.join(common.VERIF, 'corpus', 'C13.jsonl')
        corpus = [json.loads(l) for l in open(corpus_path) if l.strip()] if os.path.exists(corpus_path) else []
        cases = corpus + product(tier, seed)
        t0 = time.time()
        n, bad_corr = run_product(run, wd, cases, st, kfs, 'cases', printed, stats)
        run.cov['impl_and_eval_s'] = round(time.time() - t0, 1)
        run.cov['traces_validated_against_impl'] = stats['events'] if st['models_ok'] else 0
        broken = st['broken'] or (bad_corr and {'stage': 'correspondence', 'n': len(bad_corr)})
        if broken and not run.violations:
            # tie broken: search harder (every document of every type) for a failing input outside the known classes
            if tier == 'quick':
                more = [c for c in product('thorough', seed + 1) if c['doc'] != documents()[c['it']][0][0]]
                run_product(run, wd, more, st, kfs, 'search', printed, stats)
            if not run.violations:
                if st['broken']:
                    run.violation({'kind': 'tie-broken', 'what': st['broken']}, no_input=True)
                else:
                    c, r = bad_corr[0]
                    run.violation(dict(replay_obj(c, r, 'correspondence-broken'),
                                       what='corr_C13: the observed run disagrees with the model (resolution of an event, an '
                                            'event outside the reachable set, a class outside the grammar, or completion '
                                            'vs predicted failure)', n=len(bad_corr),
                                       events=r.get('events')), no_input=True)
        for fid, (f, k) in sorted(printed.items()):
            run.known(f'id={fid} class={f["class"]} runs={k} {f["what"]}')
        run.cov['rule'] = ('8 input types x 8 --format x {diff,-e,-d} x {--no-color,--color,--html} x {-j,none} x {equal,different '
                           'documents} x {no flag,-k,-ds match,-ds none,-l,-ll} through graphtage.__main__.main() on fixed documents '
                           'per type incl. extreme-scalar documents (quick: see product(): every (input, format, mode) meets -k, '
                           '-ds match and one of -l/-ll/-ds none, every (input, format) meets every extreme document; thorough: the '
                           'whole product on every document, every flag on the first document) + corpus; per run: completion vs the '
                           'model, every dispatch event resolved as the model resolves it, inside the reachable set of the run\'s '
                           'grammar (input type x dictionary strategy), tree classes and scalar classes inside that grammar')
        run.cov['failing_runs_by_config'] = stats['failing']
        run.cov['runs'] = stats['runs']
        run.cov['dispatch_events_compared'] = stats['events']
        run.cov['samples'] = [{k: c[k] for k in ('it', 'of', 'mode', 'style', 'j', 'diff')} for c in cases[:3]]
        run.assumptions = ['summaries of print methods are extracted by ast (translator/gen_dispatch.py); the grammar of each input '
                           'type, the list of node classes whose edits print sub-edits, the print-protocol itself and the '
                           'print_parent_context entry points are hand-audited tables tied to source hashes (an edited source is a '
                           'translator error)',
                           'the diff engine (which edits are attached) is not modelled: the class-level analysis covers every edit '
                           'the protocol can print; per run the recorded dispatch events are the oracle',
                           'exceptions other than the three modelled ones (no printer, re-parenting guard, leaf emitter) are outside '
                           'the model and are caught by the enumeration only',
                           'printer styles (--color/--html/-j) do not enter the model; the runs establish that they do not matter']
        return run.finish()
    finally:
        wd.cleanup()


def replay(path):
    obj = json.load(open(path))
    if 'replay' in obj and isinstance(obj['replay'], dict) and 'case' in obj['replay']:
        obj = obj['replay']                     # an entry of known_findings.json
    if 'case' not in obj:
        print(f'replay file holds no input (kind={obj.get("kind")}); re-running the quick check')
        return check('quick', 1)
    wd = common.Workdir(PROP + 'r')
    try:
        st = common.build(['theories/DispatchModel.vo', 'gen/DispatchGen.vo'], [])
        c = dict(obj['case'], doc='replay')
        r = drive(wd, [c], 'replay')[0]
        print(json.dumps(r, indent=1)[:3000])
        bad = True
        if r is not None and 'ok' in r:
            ev, err = evaluate(wd, [(c, r['ok'])], dict(st, models_ok=False), 'replay')
            bad = bool(err) or bool(ev['holds'])
        if bad:
            print(f'VIOLATION property={PROP} replay={path}')
            return 1
        print('replay: property holds on this input')
        return 0
    finally:
        wd.cleanup()
