"""C13 - any input type can be rendered in any output format and mode.

The whole configuration product (8 input types x 8 output formats x {diff, -e, -d} x {plain, --color, --html}
x {-j, none} x {equal, different documents}) is run through the REAL graphtage.__main__.main() in worker
processes on small fixed documents per type.  From outside, the worker wraps graphtage.formatter.get_formatter
and records every dispatch (base formatter instance, class of the item, resolved formatter instance + method,
facts about the item).  No verdict is computed here: `holds_C13`, `corr_C13`, the known-finding class predicates
and the reachability sets are Gallina functions evaluated with vm_compute.
"""
import json
import os
import random
import re
import sys
import time

from harness import common

sys.path.insert(0, os.path.join(common.VERIF, 'translator'))
import py2coq          # noqa: E402
import gen_dispatch    # noqa: E402
# until the generator is registered in py2coq.MODULES by the framework owner, register it for this process
py2coq.MODULES.setdefault('DispatchGen', gen_dispatch.gen_dispatch)

PROP = 'C13'
TYPES = ['json', 'json5', 'yaml', 'csv', 'xml', 'html', 'plist', 'pickle']
MODES = ['diff', 'e', 'd']
STYLES = ['plain', 'color', 'html']
EXT = {'json': 'json', 'json5': 'json5', 'yaml': 'yaml', 'csv': 'csv', 'xml': 'xml', 'html': 'html',
       'plist': 'plist', 'pickle': 'pkl'}


# ------------------------------------------------------------------ documents (bytes, built deterministically)

def documents():
    """{type: [(name, bytes_a, bytes_b), ...]}; the first set of every type is the quick tier's.
    `a` vs `a` is the equal pair, `a` vs `b` the different pair."""
    import pickle
    import plistlib
    import collections
    u = lambda s: s.encode('utf-8')  # noqa: E731
    j = [
        ('mixed',
         '{"a": [1, 2.5, "x", null, true], "b": {"c": "d"}, "e": "hello"}',
         '{"a": [1, "x", null, false, 7], "b": {"c": "dd", "k": 3}, "e": "hallo", "n": null}'),
        ('nonull',
         '{"a": [1, 2.5, "x", true], "b": {"c": "d"}, "e": "hello"}',
         '{"a": [2.5, "xy", true, [3]], "b": {"cc": "d", "k": {"z": 1}}, "f": "hello"}'),
        ('list', '[1, [2, 3], {"a": "b"}, "s"]', '[1, [2, 4, 5], {"a": "c"}, "t", "u"]'),
        ('scalar', '"only a string"', '"only one string"'),
        ('retype', '{"a": 1, "b": [1, 2], "c": "x"}', '{"a": "1", "b": {"q": 2}, "c": ["x"]}'),
    ]
    j5 = [(n, a.replace('"a":', 'a:').replace('"b":', "'b':"), b.replace('"a":', 'a:')) for n, a, b in j]
    y = [
        ('mixed', 'a:\n- 1\n- 2.5\n- x\n- null\n- true\nb:\n  c: d\ne: hello\n',
         'a:\n- 1\n- x\n- null\n- false\n- 7\nb:\n  c: dd\n  k: 3\ne: hallo\nn: null\n'),
        ('nonull', 'a:\n- 1\n- 2.5\n- x\n- true\nb:\n  c: d\ne: hello\n',
         'a:\n- 2.5\n- xy\n- true\n- - 3\nb:\n  cc: d\n  k:\n    z: 1\nf: hello\n'),
        ('list', '- 1\n- - 2\n  - 3\n- a: b\n- s\n', '- 1\n- - 2\n  - 4\n  - 5\n- a: c\n- t\n- u\n'),
        ('scalar', 'only a string\n', 'only one string\n'),
        ('multiline', 'k: |\n  line one\n  line two\nl: [1, 2]\n', 'k: |\n  line one\n  line 2\nl: {q: 2}\n'),
    ]
    c = [
        ('table', 'id,name,qty\n1,apple,3\n2,pear,5\n', 'id,name,qty\n1,apple,4\n3,plum,5\n4,fig,1\n'),
        ('ragged', 'a,b\n1\n"x,y",2,3\n', 'a,b,c\n"x,z",2\n'),
        ('single', 'x\n', 'y\n'),
        ('quotes', 'q,"he said ""hi"""\n1,2\n', 'q,"she said ""hi"""\n1,2\n5,6\n'),
        ('same-length', '1,2\n3,4\n', '1,5\n3,4\n'),
    ]
    x = [
        ('elems', '<root a="1" b="two"><child id="x">text</child><empty/><n><m>deep</m></n></root>',
         '<root a="1" c="two"><child id="y">test</child><n><m>deeper</m><k/></n><added>z</added></root>'),
        ('flat', '<a><b>1</b><c>2</c></a>', '<a><b>1</b><d>2</d><e/></a>'),
        ('single', '<only/>', '<other x="1"/>'),
        ('text', '<p>first\nsecond</p>', '<p>first\nthird<q/></p>'),
        ('attrs', '<t k="v" l="w"/>', '<t k="vv" m="w">now text</t>'),
    ]
    h = [
        ('page', '<html><head><title>T</title></head><body class="x"><p>para <b>bold</b></p><ul><li>1</li><li>2</li></ul></body></html>',
         '<html><head><title>Tt</title></head><body class="y"><p>para <i>bold</i></p><ul><li>1</li><li>3</li><li>4</li></ul></body></html>'),
        ('div', '<html><body><div id="a"><span>s</span></div></body></html>',
         '<html><body><div id="b"><span>t</span><br/></div></body></html>'),
        ('bare', '<html/>', '<html lang="en"/>'),
        ('table', '<table><tr><td>1</td><td>2</td></tr></table>', '<table><tr><td>1</td></tr><tr><td>3</td></tr></table>'),
        ('para', '<p>one</p>', '<p>two</p>'),
    ]
    pl = [
        ('mixed', {'a': [1, 2.5, 'x', True], 'b': {'c': 'd'}, 'e': 'hello'},
         {'a': [1, 'x', False, 7], 'b': {'c': 'dd', 'k': 3}, 'e': 'hallo'}),
        ('nested', {'a': {'b': {'c': [1, 2]}}}, {'a': {'b': {'c': [1, 3, 4]}, 'd': 'e'}}),
        ('list', [1, [2, 3], {'a': 'b'}, 's'], [1, [2, 4, 5], {'a': 'c'}, 't', 'u']),
        ('scalar', 'only a string', 'only one string'),
        ('retype', {'a': 1, 'b': [1, 2], 'c': 'x'}, {'a': '1', 'b': {'q': 2}, 'c': ['x']}),
    ]
    pk = [
        ('mixed', {'a': [1, 2.5, 'x', None, True], 'b': {'c': 'd'}, 'e': 'hello'},
         {'a': [1, 'x', None, False, 7], 'b': {'c': 'dd', 'k': 3}, 'e': 'hallo', 'n': None}),
        ('nonull', {'a': [1, 2.5, 'x', True], 'b': {'c': 'd'}, 'e': 'hello'},
         {'a': [2.5, 'xy', True, [3]], 'b': {'cc': 'd', 'k': {'z': 1}}, 'f': 'hello'}),
        ('object', collections.OrderedDict([('a', 1), ('b', [1, 2])]), collections.OrderedDict([('a', 2), ('c', [1, 3])])),
        ('set-tuple', {'s': {1, 2}, 't': (1, 'a'), 'y': b'by'}, {'s': {1, 3}, 't': (1, 'b', 2), 'y': b'bz'}),
        ('scalar', 'only a string', 'only one string'),
    ]
    return {
        'json': [(n, u(a), u(b)) for n, a, b in j],
        'json5': [(n, u(a), u(b)) for n, a, b in j5],
        'yaml': [(n, u(a), u(b)) for n, a, b in y],
        'csv': [(n, u(a), u(b)) for n, a, b in c],
        'xml': [(n, u(a), u(b)) for n, a, b in x],
        'html': [(n, u(a), u(b)) for n, a, b in h],
        'plist': [(n, plistlib.dumps(a, fmt=plistlib.FMT_XML, sort_keys=True),
                   plistlib.dumps(b, fmt=plistlib.FMT_XML, sort_keys=True)) for n, a, b in pl],
        'pickle': [(n, pickle.dumps(a, protocol=2), pickle.dumps(b, protocol=2)) for n, a, b in pk],
    }


def argv_of(cfg, path_a, path_b):
    argv = ['graphtage', '--no-status', '--format', cfg['of']]
    if cfg['mode'] == 'e':
        argv.append('-e')
    elif cfg['mode'] == 'd':
        argv.append('-d')
    if cfg['style'] == 'color':
        argv.append('--color')
    elif cfg['style'] == 'html':
        argv.append('--html')
    else:
        argv.append('--no-color')
    if cfg['j']:
        argv.append('-j')
    return argv + [path_a, path_b]


# ------------------------------------------------------------------ implementation side (worker)

def _inst_path(f):
    """A formatter instance as the list of class names from itself up to its root."""
    p = []
    seen = 0
    while f is not None and seen < 20:
        p.append(type(f).__name__)
        f = f.parent
        seen += 1
    return p


def impl_run(item):
    """Write the two files, run main() on them with get_formatter wrapped, record outcome and dispatch events."""
    import io
    import traceback
    import graphtage
    import graphtage.formatter as gf
    import graphtage.tree as gt
    import graphtage.__main__ as gm

    class NoClose(io.StringIO):
        def close(self):
            pass

        def isatty(self):
            return False
    d = item['dir']
    os.makedirs(d, exist_ok=True)
    ext = EXT[item['it']]
    pa = os.path.join(d, f'{item["name"]}_a.{ext}')
    pb = os.path.join(d, f'{item["name"]}_b.{ext}')
    with open(pa, 'wb') as f:
        f.write(bytes.fromhex(item['a']))
    with open(pb, 'wb') as f:
        f.write(bytes.fromhex(item['b']))
    events = []
    index = {}
    orig = gf.get_formatter
    max_events = item.get('max_events', 400)

    def facts(node_type):
        mro = [c.__name__ for c in node_type.__mro__]
        return mro

    def get_formatter(node_type, base_formatter=None):
        ret = orig(node_type, base_formatter)
        base = _inst_path(base_formatter) if base_formatter is not None else []
        if ret is None:
            res = None
        else:
            owner = None
            for k in type(ret.__self__).__mro__:
                if ret.__name__ in k.__dict__:
                    owner = k.__name__
                    break
            res = [_inst_path(ret.__self__), ret.__name__, owner]
        ev = [base, node_type.__name__, res]
        key = json.dumps(ev)
        if key not in index:
            index[key] = len(events)
            # facts about the class, recorded once per distinct event
            is_edit = not issubclass(node_type, gt.TreeNode)
            events.append({'base': base, 'cls': node_type.__name__, 'mro': facts(node_type), 'res': res,
                           'is_edit': is_edit, 'n': 0})
        events[index[key]]['n'] += 1
        return ret
    gf.get_formatter = get_formatter
    # the failing item: remember the last item handed to a resolved print method's dispatch
    out, err = NoClose(), NoClose()
    so, se = sys.stdout, sys.stderr
    sys.stdout, sys.stderr = out, err
    res = {'status': None, 'exc': None}
    try:
        try:
            res['status'] = gm.main(argv_of(item, pa, pb))
        except SystemExit as e:
            res['exc'] = {'cls': 'SystemExit', 'msg': str(e.code), 'where': [], 'last': None}
        except BaseException as e:  # noqa
            tb = traceback.extract_tb(e.__traceback__)
            where = [f'{os.path.basename(fr.filename)}:{fr.name}' for fr in tb]
            # innermost frames inside graphtage, most recent last
            res['exc'] = {'cls': type(e).__name__, 'msg': str(e)[:240], 'where': where[-8:],
                          'chain': [fr.name for fr in tb if fr.name.startswith('print') or fr.name.startswith('_json_print')][-6:]}
    finally:
        sys.stdout, sys.stderr = so, se
        gf.get_formatter = orig
    res['stdout_len'] = len(out.getvalue())
    res['stderr'] = err.getvalue()[-300:]
    res['events'] = events[:max_events]
    res['n_events'] = len(events)
    for p in (pa, pb):
        os.unlink(p)
    if res['exc'] is not None:
        # graphtage's process-global printer state is unusable after an exception: hand the record to the
        # parent through a side file and make the worker restart
        with open(os.path.join(d, item['name'] + '.result.json'), 'w') as f:
            json.dump(res, f)
        raise RuntimeError('C13-restart')
    return res
