"""C12 - printing an unedited document yields text that parses back equal.

Implementation side (worker): write a source file, load it with the real Filetype.build_tree, print the tree with
the format's own formatter through Printer(ansi_color=False, quiet=True), write the text to a file, reload it
through the same build_tree, compare the trees with the implementation's own `==`, and record what the real
parsers (json / json5 / csv.reader / csv.writer) make of the printed text.
Verdicts: Gallina `holds_C12x` (implementation's reload equals the original) and `corr_C12x` (printed text ==
jprint / csv_print / yaml_print / plist_print / xml_print; jparse / j5parse / csv_read / yaml_parse / plist_parse /
xml_parse == what the real parser made of that text) under vm_compute.  Known-finding classes are Gallina
predicates too (kf_json5_astral, kf_yaml_empty, kf_plist_eq).  For YAML, plist and XML the worker also extracts the
document as the model's tree: YAML scalars as the text YAMLFormatter.write_obj writes for them (PyYAML is an
oracle), plist numbers as graphtage's f-string writes them, XML attributes in the tree's order.
"""
import io
import json
import os
import random
import sys
import time

from harness import common

PROP = 'C12'
THEOREMS = ['C12_json', 'C12_json_string', 'C12_json5', 'C12_json5_refuted', 'C12_csv', 'C12_csv_refuted',
            'C12_struct_yaml', 'C12_struct_yaml_tok', 'C12_struct_yaml_refuted', 'C12_struct_plist', 'C12_struct_xml']
MODELS = ['theories/JsonModel.vo', 'theories/CsvModel.vo', 'theories/StructModel.vo']
HEADER = ('From Coq Require Import List Bool ZArith String.\nRequire Import GT.PyBase GT.JsonSpec GT.StructSpec.\n'
          'Import ListNotations.\nOpen Scope Z_scope.\nOpen Scope string_scope.\n')
MODEL_HEADER = 'Require Import GT.JsonModel GT.CsvModel GT.StructModel.\n'
KF_CLASSES = ['kf_json5_astral', 'kf_yaml_empty', 'kf_plist_eq']
KF_XCLASSES = ['kf_plist_markup']          # classes defined on the extended case (StructSpec)
FMT_CTOR = {'json': 'FJson', 'json5': 'FJson5', 'csv': 'FCsv', 'yaml': 'FYaml', 'plist': 'FPlist', 'xml': 'FXml'}


# ------------------------------------------------------------------ implementation side (worker)

def _enc(o):
    """Python value -> transport encoding of a jvalue (strings as code point lists: lone surrogates must
    survive the JSON pipe between worker and parent)."""
    if o is None:
        return ['n']
    if isinstance(o, bool):
        return ['b', o]
    if isinstance(o, (int, float)):
        return ['num', json.dumps(o)]
    if isinstance(o, str):
        return ['s', [ord(c) for c in o]]
    if isinstance(o, (list, tuple)):
        return ['a', [_enc(x) for x in o]]
    if isinstance(o, dict):
        out = []
        for k, v in o.items():
            if not isinstance(k, str):
                raise TypeError(f'non-string key {k!r}')
            out.append([[ord(c) for c in k], _enc(v)])
        return ['o', out]
    raise TypeError(f'cannot encode {type(o).__name__}')


def _enc_xml(node):
    """XMLElement -> mapping view; text modulo surrounding whitespace (the property's XML equality)."""
    text = node.text.object.strip() if node.text is not None else ''
    return ['o', [[[ord(c) for c in 'tag'], _enc(node.tag.object)],
                  [[ord(c) for c in 'attrs'], _enc({k.object: v.object for k, v in node.attrib.items()})],
                  [[ord(c) for c in 'text'], _enc(text)],
                  [[ord(c) for c in 'children'], ['a', [_enc_xml(c) for c in node._children._children]]]]]


def _view(fmt, tree):
    if fmt == 'xml':
        return _enc_xml(tree)
    return _enc(tree.to_obj())


def _ymodel(node):
    """graphtage tree -> token tree of the YAML model: scalars as the text YAMLFormatter.write_obj writes for them
    (the third-party emitter is an oracle); None if the tree has a node the model does not cover."""
    import graphtage
    from graphtage import printer as gp
    from graphtage.yaml import YAMLFormatter

    def tok(leaf):
        if not isinstance(leaf, graphtage.LeafNode):
            raise ValueError('non-scalar key')
        if isinstance(leaf.object, str) and '\n' in leaf.object:
            raise ValueError('multi-line string')
        out = io.StringIO()
        YAMLFormatter.write_obj(gp.Printer(out, ansi_color=False, quiet=True), leaf.object)
        return [ord(c) for c in out.getvalue()]

    def go(n):
        if isinstance(n, graphtage.KeyValuePairNode):
            raise ValueError('bare pair')
        if isinstance(n, graphtage.MappingNode):
            return ['d', [[tok(kv.key), go(kv.value)] for kv in n]]
        if isinstance(n, graphtage.ListNode):
            return ['l', [go(c) for c in n]]
        if isinstance(n, graphtage.LeafNode):
            return ['t', tok(n)]
        raise ValueError(type(n).__name__)
    try:
        return go(node)
    except ValueError:
        return None


def _pmodel(node):
    """PLISTNode -> tree of the plist model; number leaves as the text graphtage's f-strings write (str(obj))."""
    import graphtage
    from graphtage.plist import PLISTNode

    def cps(s):
        return [ord(c) for c in s]

    def go(n):
        if isinstance(n, graphtage.MappingNode):
            out = []
            for kv in n:
                if not isinstance(kv.key, graphtage.StringNode):
                    raise ValueError('non-string key')
                out.append([cps(kv.key.object), go(kv.value)])
            return ['d', out]
        if isinstance(n, graphtage.ListNode):
            return ['l', [go(c) for c in n]]
        if isinstance(n, graphtage.StringNode):
            return ['s', cps(n.object)]
        if isinstance(n, graphtage.BoolNode):
            return ['b', bool(n.object)]
        if isinstance(n, graphtage.IntegerNode):
            return ['i', cps(f'{n.object}')]
        if isinstance(n, graphtage.FloatNode):
            return ['r', cps(f'{n.object}')]
        raise ValueError(type(n).__name__)
    try:
        if not isinstance(node, PLISTNode):
            return None
        return go(node.root)
    except ValueError:
        return None


def _xmodel(node):
    """XMLElement -> tree of the XML model (attributes in the tree's order; text as loaded).  None if a string
    contains one of the five characters html.escape rewrites (not modelled)."""
    import graphtage

    def cps(s):
        if any(c in s for c in '&<>"\''):
            raise ValueError('markup character')
        return [ord(c) for c in s]

    def go(n):
        text = n.text.object if n.text is not None else None
        attrs = []
        for kv in n.attrib:
            if not isinstance(kv.key, graphtage.StringNode) or not isinstance(kv.value, graphtage.StringNode):
                raise ValueError('attribute')
            attrs.append([cps(kv.key.object), cps(kv.value.object)])
        return [cps(n.tag.object), attrs, None if text is None else cps(text), [go(c) for c in n._children._children]]
    try:
        return go(node)
    except (ValueError, AttributeError):
        return None


def _smodel(fmt, tree):
    if fmt == 'yaml':
        return _ymodel(tree)
    if fmt == 'plist':
        return _pmodel(tree)
    if fmt == 'xml':
        return _xmodel(tree)
    return None


def impl_roundtrip(item):
    import csv
    import graphtage
    import graphtage.tree
    import graphtage.levenshtein
    from graphtage import printer as gp
    for m in (gp, graphtage.tree, graphtage.levenshtein):
        m.DEFAULT_PRINTER.quiet = True
    fmt = item['fmt']
    d = item['dir']
    os.makedirs(d, exist_ok=True)
    ft = graphtage.FILETYPES_BY_TYPENAME[fmt]
    p1 = os.path.join(d, f'src.{fmt}')
    p2 = os.path.join(d, f'out.{fmt}')
    with open(p1, 'wb') as f:
        f.write(item['src'].encode('utf-8'))
    res = {'fmt': fmt, 'stage': 'load'}
    try:
        try:
            t0 = ft.build_tree(p1)
        except Exception as e:  # the source is not a document of this format: not a case
            res['load_error'] = f'{type(e).__name__}: {e}'[:200]
            return res
        if fmt in ('json', 'json5'):
            lib = json if fmt == 'json' else __import__('json5')
            with open(p1) as f:
                res['doc'] = _enc(lib.load(f))          # the very call build_tree makes: entries in file order
            res['tobj'] = _enc(t0.to_obj())
        elif fmt == 'csv':
            res['rows'] = [[[ord(c) for c in cell] for cell in row] for row in t0.to_obj()]
        else:
            res['doc'] = _view(fmt, t0)
            res['model'] = _smodel(fmt, t0)
        res['stage'] = 'print'
        out = io.StringIO()
        lay = item.get('lay')
        opts = {'join_lists': bool(lay[0]), 'join_dict_items': bool(lay[1])} if lay is not None else None
        pr = gp.Printer(out, ansi_color=False, quiet=True, options=opts)
        try:
            ft.get_default_formatter().print(pr, t0)
        except Exception as e:
            res['print_error'] = f'{type(e).__name__}: {e}'[:200]
            res['corrupt'] = True
            return res
        text = out.getvalue()
        res['text'] = [ord(c) for c in text]
        res['stage'] = 'reload'
        try:
            data = text.encode('utf-8')
        except UnicodeEncodeError as e:
            res['reload_error'] = f'printed text cannot be written as UTF-8: {e}'[:200]
            return res
        with open(p2, 'wb') as f:
            f.write(data)
        if fmt in ('json', 'json5'):
            try:
                res['loads'] = _enc(lib.loads(text))
            except Exception as e:
                res['loads_error'] = f'{type(e).__name__}: {e}'[:200]
        if fmt == 'csv':
            try:
                with open(p2) as f:                      # as csv.build_tree opens it
                    res['reader'] = [[[ord(c) for c in cell] for cell in row] for row in csv.reader(f)]
            except Exception as e:
                res['reader_error'] = f'{type(e).__name__}: {e}'[:200]
            cells = []
            seen = set()
            for row in t0.to_obj():
                for cell in row:
                    if cell not in seen and len(seen) < 64:
                        seen.add(cell)
                        s = io.StringIO()
                        csv.writer(s).writerow([cell])
                        r = s.getvalue()
                        r = r[:-2] if r.endswith('\r\n') else r
                        cells.append([[ord(c) for c in cell], [ord(c) for c in r]])
            res['cells'] = cells
        try:
            t1 = ft.build_tree(p2)
        except Exception as e:
            res['reload_error'] = f'{type(e).__name__}: {e}'[:200]
            res['corrupt'] = True
            return res
        res['stage'] = 'compare'
        res['eq'] = bool(t0 == t1)
        if fmt == 'csv':
            res['reload'] = [[[ord(c) for c in cell] for cell in row] for row in t1.to_obj()]
        else:
            res['reload'] = _view(fmt, t1)
            res['model_reload'] = _smodel(fmt, t1)
        res['stage'] = 'done'
        return res
    finally:
        for p in (p1, p2):
            try:
                os.unlink(p)
            except OSError:
                pass
        if res.get('corrupt'):
            # graphtage's global printer state is unusable after an exception: make the parent restart us
            sys.stdout = sys.__stdout__
            sys.stdout.write('@@R ' + json.dumps({'ok': res}) + '\n')
            sys.stdout.flush()
            os._exit(3)


# ------------------------------------------------------------------ generators

CHARS = ['"', '\\', ',', '\n', '\r', '\t', '\x00', '\x7f', 'é', ' ', '﻿', '￿', '\U00010000',
         '\U0001F600', '\ud800', '\udbff', '\udc00', '\udfff', ' ', '0', '1', '9', 'a', 'z', 'A', '/', '\x08', '\x0c',
         '\x1f', '{', '[', ':', ']', '}', 'u', '\u0080', '퟿', '', '\U0010ffff', "'", '-', '.', 'e', '#',
         'e', '\u0301', '\u0323', '\u212b', '\u1100', '\u1161', '\uf900']     # not in normal form C when combined
NUM_TOKENS = ['0', '-0', '1', '-1', '42', '9007199254740992', '-9007199254740992', '9007199254740993',
              '9223372036854775807', '-9223372036854775808', '9223372036854775808', '18446744073709551615',
              '18446744073709551616', '-18446744073709551616', '1000000000000000000000000000000', '5e-324', '1e308',
              '-0.0', '0.0', '1e16', '1E16', '1e+16', '1e-7', '0.1', '2.5', '-2.5E+3', '1.7976931348623157e308',
              '123456.789', '1e22', '1e21', '0.000001', '1e-5', '3.0', '100']


def gen_string(rng, maxlen=8):
    n = rng.choice([0, 1, 1, 2, 3, 5, maxlen])
    return ''.join(rng.choice(CHARS) for _ in range(n))


def gen_scalar(rng):
    k = rng.randrange(10)
    if k < 4:
        return ('str', gen_string(rng))
    if k < 7:
        return ('num', rng.choice(NUM_TOKENS))
    return ('lit', rng.choice(['true', 'false', 'null']))


def gen_ast(rng, depth, width):
    if depth <= 0 or rng.random() < 0.3:
        return gen_scalar(rng)
    n = rng.choice([0, 1, 2, width])
    if rng.random() < 0.5:
        return ('arr', [gen_ast(rng, depth - 1, width) for _ in range(n)])
    keys = []
    for _ in range(n):
        k = gen_string(rng, 4)
        if k not in keys:
            keys.append(k)
    return ('obj', [(k, gen_ast(rng, depth - 1, width)) for k in keys])


def gen_deep(rng, depth):
    """a chain of `depth` nested containers.  At most 10 of the levels are mappings: the implementation's `==` on
    nested DictNodes costs about 2^(mapping depth) (HashableCounter equality), 40 levels would not terminate."""
    node = gen_scalar(rng)
    levels = ['obj'] * min(10, depth // 2) + ['arr'] * (depth - min(10, depth // 2))
    rng.shuffle(levels)
    for kind in levels:
        if kind == 'arr':
            node = ('arr', [node] + ([gen_scalar(rng)] if rng.random() < 0.3 else []))
        else:
            node = ('obj', [(gen_string(rng, 2), node)] + ([('zz', gen_scalar(rng))] if rng.random() < 0.3 else []))
    return node


def src_string(s, rng, raw):
    out = ['"']
    for c in s:
        o = ord(c)
        if 0xd800 <= o <= 0xdfff:
            out.append('\\u%04x' % o)                 # a lone surrogate can only be written as an escape
        elif c in '"\\':
            out.append('\\' + c)
        elif o < 0x20 or o == 0x7f:
            out.append({'\n': '\\n', '\t': '\\t', '\r': '\\r'}.get(c, '\\u%04X' % o) if rng.random() < 0.5 else '\\u%04x' % o)
        elif o < 0x7f or (raw and rng.random() < 0.7):
            out.append(c)
        elif o < 0x10000:
            out.append('\\u%04x' % o)
        else:
            o -= 0x10000
            out.append('\\u%04x\\u%04x' % (0xd800 + (o >> 10), 0xdc00 + (o & 0x3ff)))
    out.append('"')
    return ''.join(out)


def src_json(ast, rng, raw=True):
    sp = lambda: rng.choice(['', '', ' ', '\n', '  ', '\t'])
    kind = ast[0]
    if kind == 'str':
        return src_string(ast[1], rng, raw)
    if kind in ('num', 'lit'):
        return ast[1]
    if kind == 'arr':
        return '[' + sp() + (',' + sp()).join(src_json(x, rng, raw) + sp() for x in ast[1]) + ']'
    return '{' + sp() + (',' + sp()).join(src_string(k, rng, raw) + sp() + ':' + sp() + src_json(v, rng, raw) + sp()
                                         for k, v in ast[1]) + '}'


def gen_json_items(rng, n_docs, fmt, layouts):
    items = []
    for i in range(n_docs):
        r = i % 10
        if r == 0:
            ast = gen_deep(rng, rng.choice([10, 25, 40]))
        elif r < 3:
            ast = gen_ast(rng, 2, 2) if rng.random() < 0.5 else gen_scalar(rng)
        else:
            ast = gen_ast(rng, rng.choice([2, 3, 4]), rng.choice([2, 3, 4]))
        src = src_json(ast, rng, raw=rng.random() < 0.6)
        for lay in layouts(rng):
            items.append({'fmt': fmt, 'src': src, 'lay': lay})
    return items


ALL_LAYOUTS = [[False, False], [False, True], [True, False], [True, True]]

CSV_CHARS = ['"', ',', '\n', '\r', '\t', ' ', 'a', 'b', '1', '0', 'é', ' ', '﻿', '\U0001F600', '\x00', "'", ';',
             '\x0b', '\x0c', '\x1c', '\x85', '\\', 'x', 'y',
             # text that is not in Unicode normal form C (a printer must not normalise): combining marks after a base letter,
             # in non-canonical order, singleton decompositions, conjoining Hangul jamo, a compatibility ideograph
             'e', '\u0301', '\u0323', '\u212b', '\u2126', '\u1100', '\u1161', '\uf900', '\u00c5']


def gen_csv_items(rng, n):
    # fixed documents first: cells that are not in Unicode normal form C must come back code point for code point
    items = [{'fmt': 'csv', 'src': src} for src in (
        'e\u0301,\u212b\n\u1100\u1161,a\u0323\u0301\n', 'a\u0301\u0323\n', '"\u2126,x",\uf900\n', '\u00c5,A\u030a\n')]
    for i in range(n):
        rows = []
        for _ in range(rng.choice([0, 1, 2, 3, 5])):
            rows.append([''.join(rng.choice(CSV_CHARS) for _ in range(rng.choice([0, 1, 1, 2, 4, 7])))
                         for _ in range(rng.choice([0, 1, 1, 2, 3, 4]))])
        lines = []
        for row in rows:
            cells = []
            for c in row:
                if any(ch in c for ch in '",\n\r') or rng.random() < 0.15:
                    cells.append('"' + c.replace('"', '""') + '"')
                elif rng.random() < 0.03:
                    cells.append('"' + c + '"x')            # text after a closing quote (accepted, not strict)
                else:
                    cells.append(c)
            lines.append(','.join(cells))
        eol = rng.choice(['\n', '\n', '\r\n', '\r'])
        src = eol.join(lines) + (eol if lines and rng.random() < 0.8 else '')
        if rng.random() < 0.03:
            src += '"unterminated'
        items.append({'fmt': 'csv', 'src': src})
    return items


ALNUM = 'abcdefghijklmnopqrstuvwxyzABCDEFGHIJKLMNOPQRSTUVWXYZ0123456789'
WORDS = ['a', 'Z', 'abc', 'x1', 'hello', 'World42', 'true', 'null', 'no', 'yes', 'on', '1', '007', '12', '1e3', 'NaN', 'inf',
         'y', 'n', 'Null', 'TRUE', '0x1F', '0o7', 'e5', 'k']


def gen_word(rng):
    if rng.random() < 0.35:
        return rng.choice(WORDS)
    return ''.join(rng.choice(ALNUM) for _ in range(rng.choice([1, 2, 3, 6, 12])))


def gen_plain(rng, depth, width, empties, kinds):
    """alphanumeric, non-empty content; `empties` adds the YAML known-finding class ({} [] "")."""
    if depth <= 0 or rng.random() < 0.3:
        k = rng.choice(kinds)
        if k == 's':
            return '' if empties and rng.random() < 0.3 else gen_word(rng)
        if k == 'i':
            return rng.choice([0, 1, -1, 42, 2 ** 31, -2 ** 53, 2 ** 63 - 1, 7, 100])
        if k == 'f':
            return rng.choice([1.5, -2.25, 1e16, 0.1, 3.0, 1e-7, 123456.789])
        if k == 'b':
            return rng.random() < 0.5
        return None
    n = rng.choice(([0] if empties else []) + [1, 2, width])
    if rng.random() < 0.5:
        return [gen_plain(rng, depth - 1, width, empties, kinds) for _ in range(n)]
    return {gen_word(rng): gen_plain(rng, depth - 1, width, empties, kinds) for _ in range(n)}


def gen_yaml_items(rng, n):
    import yaml
    items = []
    for i in range(n):
        empties = (i % 6 == 5)
        obj = gen_plain(rng, rng.choice([1, 2, 3, 4]), rng.choice([2, 3]), empties, 'sssifbn')
        items.append({'fmt': 'yaml', 'src': yaml.dump(obj, default_flow_style=rng.choice([False, False, None]))})
    return items


def gen_plist_items(rng, n):
    import plistlib
    items = []
    for i in range(n):
        obj = gen_plain(rng, rng.choice([0, 1, 2, 3, 4]), rng.choice([2, 3]), i % 5 == 4, 'sssifb')
        items.append({'fmt': 'plist', 'src': plistlib.dumps(obj, sort_keys=rng.random() < 0.5).decode('utf-8')})
    return items


def gen_xml_elem(rng, depth, plain=False):
    tag = rng.choice('abcdefgrxyz') + ''.join(rng.choice(ALNUM) for _ in range(rng.choice([0, 1, 3])))
    attrs = {}
    for _ in range(rng.choice([0, 0, 1, 2, 3])):
        attrs[rng.choice('abcdekq') + ''.join(rng.choice(ALNUM) for _ in range(rng.choice([0, 2])))] = \
            ''.join(rng.choice(ALNUM) for _ in range(rng.choice([0, 1, 4])))
    s = '<' + tag + ''.join(f' {k}="{v}"' for k, v in attrs.items())
    kids = [gen_xml_elem(rng, depth - 1, plain) for _ in range(rng.choice([0, 0, 1, 2, 3]) if depth > 0 else 0)]
    text = rng.choice(['', '', gen_word(rng), ' ' + gen_word(rng) + ' ', '\n  ' + gen_word(rng) + '\n'])
    if plain:                                          # the theorem's domain: no white space anywhere
        text = rng.choice(['', gen_word(rng)])
        if not kids and not text and rng.random() < 0.6:
            return s + '/>'
        return s + '>' + text + ''.join(kids) + '</' + tag + '>'
    if not kids and not text and rng.random() < 0.6:
        return s + '/>'
    pad = rng.choice(['', '', '\n', '\n  '])
    tail = rng.choice(['', '', '', 'tail'])
    return s + '>' + text + ''.join(pad + k + tail for k in kids) + (pad if kids else '') + '</' + tag + '>'


def gen_xml_items(rng, n):
    return [{'fmt': 'xml', 'src': rng.choice(['', '<?xml version="1.0"?>\n']) +
             gen_xml_elem(rng, rng.choice([0, 1, 2, 3, 5]), plain=(i % 2 == 1))}
            for i in range(n)]


def generate(tier, rng):
    q = tier == 'quick'
    n = 300 if q else 4000
    items = []
    items += gen_json_items(rng, n, 'json', lambda r: ALL_LAYOUTS)
    items += gen_json_items(rng, n if not q else 200, 'json5', lambda r: [r.choice(ALL_LAYOUTS)] if q else ALL_LAYOUTS)
    items += gen_csv_items(rng, n)
    items += gen_yaml_items(rng, n)
    items += gen_plist_items(rng, n)
    items += gen_xml_items(rng, n)
    return items


# ------------------------------------------------------------------ serialisation (Python -> Gallina)

def gz(cps):
    """list of code points -> Gallina list Z (ASCII-only texts as string literals: much cheaper to parse)."""
    if not cps:
        return '[]'
    if all((32 <= c <= 126) or c == 10 for c in cps):
        return '(zs "' + ''.join('""' if c == 34 else chr(c) for c in cps) + '")'
    return '[' + ';'.join(str(c) for c in cps) + ']'


def gs(s):
    return gz([ord(c) for c in s])


def gjv(e):
    k = e[0]
    if k == 'n':
        return 'JNull'
    if k == 'b':
        return '(JBool true)' if e[1] else '(JBool false)'
    if k == 'num':
        return f'(JNum {gs(e[1])})'
    if k == 's':
        return f'(JStr {gz(e[1])})'
    if k == 'a':
        return '(JArr [' + '; '.join(gjv(x) for x in e[1]) + '])'
    return '(JObj [' + '; '.join(f'({gz(kk)}, {gjv(v)})' for kk, v in e[1]) + '])'


def gopt(x, f):
    return 'None' if x is None else f'(Some {f(x)})'


def gb(b):
    return 'true' if b else 'false'


def gtable(t):
    return '[' + '; '.join('[' + '; '.join(gz(c) for c in row) + ']' for row in t) + ']'


def gytree(e):
    k = e[0]
    if k == 't':
        return f'(SLeaf {gz(e[1])})'
    if k == 'l':
        return '(SList [' + '; '.join(gytree(x) for x in e[1]) + '])'
    return '(SDict [' + '; '.join(f'({gz(kk)}, {gytree(v)})' for kk, v in e[1]) + '])'


def gptree(e):
    k = e[0]
    if k == 's':
        return f'(PStr {gz(e[1])})'
    if k == 'i':
        return f'(PInt {gz(e[1])})'
    if k == 'r':
        return f'(PReal {gz(e[1])})'
    if k == 'b':
        return f'(PBool {gb(e[1])})'
    if k == 'l':
        return '(PArr [' + '; '.join(gptree(x) for x in e[1]) + '])'
    return '(PDict [' + '; '.join(f'({gz(kk)}, {gptree(v)})' for kk, v in e[1]) + '])'


def gxtree(e):
    tag, attrs, text, kids = e
    return '(XElem %s [%s] %s [%s])' % (gz(tag), '; '.join(f'({gz(k)}, {gz(v)})' for k, v in attrs), gopt(text, gz),
                                        '; '.join(gxtree(k) for k in kids))


def gsmodel(fmt, m):
    if m is None:
        return 'MNone'
    if fmt == 'yaml':
        return f'(MYaml {gytree(m)})'
    if fmt == 'plist':
        return f'(MPlist {gptree(m)})'
    if fmt == 'xml':
        return f'(MXml {gxtree(m)})'
    return 'MNone'


def case_term(item, r):
    """Gallina `xcase` for an implementation result; None if the source was not a document (not a case)."""
    fmt = item['fmt']
    if 'load_error' in r:
        return None
    t = base_case_term(item, r)
    if t.startswith('(COther') and 'text' in r and r.get('model') is not None:
        return '(XStruct (Build_struct_case %s %s %s %s))' % (
            t[len('(COther '):-1], gz(r['text']), gsmodel(fmt, r['model']), gsmodel(fmt, r.get('model_reload')))
    return f'(XBase {t})'


def base_case_term(item, r):
    fmt = item['fmt']
    if fmt in ('json', 'json5') and 'text' in r:
        lay = item.get('lay') or [False, False]
        return ('(CJson (Build_json_case %s (%s, %s) %s %s %s %s %s %s))' % (
            gb(fmt == 'json5'), gb(lay[0]), gb(lay[1]), gjv(r['doc']), gjv(r['tobj']), gz(r['text']),
            gopt(r.get('loads'), gjv), gopt(r.get('reload'), gjv), gb(r.get('eq', False))))
    if fmt == 'csv' and 'text' in r:
        return ('(CCsv (Build_csv_case %s %s %s %s %s %s %s))' % (
            gs(item['src']), gtable(r['rows']), gz(r['text']), gopt(r.get('reader'), gtable),
            '[' + '; '.join(f'({gz(a)}, {gz(b)})' for a, b in r.get('cells', [])) + ']',
            gopt(r.get('reload'), gtable), gb(r.get('eq', False))))
    # YAML / plist / XML, and any format whose printing raised (no text: not loaded)
    return ('(COther (Build_other_case %s %s %s %s %s))' % (
        FMT_CTOR[fmt], gopt(r.get('doc') if fmt not in ('csv',) else None, gjv), gb(r.get('stage') == 'done'),
        gopt(r.get('reload') if fmt not in ('csv',) else None, gjv), gb(r.get('eq', False))))


# ------------------------------------------------------------------ check

def open_findings():
    fs = [f for f in common.known_findings(PROP) if f.get('status') == 'open']
    if os.environ.get('C12_DEV_KNOWN') == '1':
        p = os.path.join(common.VERIF, 'corpus', 'C12.known.json')
        if os.path.exists(p):
            have = {f['id'] for f in fs}
            fs += [f for f in json.load(open(p))['findings']
                   if f['property'] == PROP and f.get('status') == 'open' and f['id'] not in have]
    return fs


def run_items(run, wd, items, st, tag):
    """Drive the implementation, evaluate the Gallina verdicts. Returns a dict of results."""
    for i, it in enumerate(items):
        it['dir'] = os.path.join(wd.path, f'{tag}{i % 64}')
    t0 = time.time()
    res = common.run_impl('pC12', 'impl_roundtrip', items, extra_env={'PYTHONUTF8': '1'})
    t1 = time.time()
    keep, terms, skipped, internal = [], [], 0, []
    for it, r in zip(items, res):
        if 'ok' not in r:
            internal.append((it, r))
            continue
        t = case_term(it, r['ok'])
        if t is None:
            skipped += 1
            continue
        keep.append((it, r['ok']))
        terms.append(t)
        nontrivial = len(r['ok'].get('text', [])) > 8
        run.count([it['fmt'], it.get('lay'), it['src']], nontrivial)
        if t.startswith('(XStruct'):
            run.cov.setdefault('structure_printer_cases_modelled', {}).setdefault(it['fmt'], 0)
            run.cov['structure_printer_cases_modelled'][it['fmt']] += 1
    evals = (['bad_cases holds_C12x', 'bad_cases in_domain_C12x'] +
             [f'bad_cases (fun c => negb ({k} (base_case c)))' for k in KF_CLASSES] +
             [f'bad_cases (fun c => negb ({k} c))' for k in KF_XCLASSES])
    header = HEADER
    if st['models_ok']:
        evals.append('bad_cases corr_C12x')
        header += MODEL_HEADER
    chunk = max(20, -(-len(terms) // (2 * common.NPROC)))
    bad, err = common.coq_eval_cases(wd, 'cases_' + tag, header, terms, evals, chunk=chunk)
    common.log(f'C12 {tag}: {len(items)} items, implementation {t1 - t0:.1f}s, Coq evaluation {time.time() - t1:.1f}s')
    out = {'keep': keep, 'skipped': skipped, 'internal': internal, 'err': err,
           'bad_holds': [], 'out_domain': [], 'kf': {k: set() for k in KF_CLASSES + KF_XCLASSES}, 'bad_corr': []}
    if not err:
        out['bad_holds'], out['out_domain'] = bad[0], bad[1]
        for j, k in enumerate(KF_CLASSES + KF_XCLASSES):
            out['kf'][k] = set(bad[2 + j])
        out['bad_corr'] = bad[2 + len(KF_CLASSES + KF_XCLASSES)] if st['models_ok'] else []
    return out


def replay_obj(it, r, why):
    o = {'kind': why, 'item': {k: v for k, v in it.items() if k != 'dir'},
         'observed': {k: (''.join(map(chr, v)) if k == 'text' else v) for k, v in r.items()
                      if k in ('stage', 'text', 'eq', 'print_error', 'reload_error', 'loads_error', 'reader_error')},
         'replay': './check C12 --replay <this file>'}
    return o


def judge(run, out, findings, stats):
    """Turn failing `holds` cases into KNOWN-FINDING counts or violations."""
    keep = out['keep']
    n_viol = 0
    for i in out['bad_holds']:
        it, r = keep[i]
        cls = [f for f in findings if i in out['kf'].get(f.get('class'), ())]
        if cls:
            for f in cls:
                stats['known'].setdefault(f['id'], []).append(it)
            continue
        if n_viol < 3:
            run.violation(replay_obj(it, r, 'reload-differs-from-original'))
        n_viol += 1
    for it, r in out['internal'][:3]:
        run.violation({'kind': 'internal-error', 'item': {k: v for k, v in it.items() if k != 'dir'}, 'result': r})
    return n_viol


def corpus_items():
    p = os.path.join(common.VERIF, 'corpus', 'C12.jsonl')
    return [json.loads(l) for l in open(p) if l.strip()] if os.path.exists(p) else []


def check(tier, seed):
    run = common.Run(PROP, tier, seed)
    wd = common.Workdir(PROP)
    rng = random.Random(seed)
    try:
        st = common.build(MODELS, ['props/PropC12.vo'])
        common.proof_evidence(run, wd, PROP, st, THEOREMS)
        findings = open_findings()
        stats = {'known': {}}
        items = corpus_items() + generate(tier, rng)
        if os.environ.get('C12_DEV_KNOWN') == '1':         # demonstrate proposed findings (corpus/C12.known.json)
            have = {f['id'] for f in common.known_findings(PROP)}
            items = [dict(f['replay']) for f in findings if f['id'] not in have and 'replay' in f] + items
        out = run_items(run, wd, items, st, 'c')
        if out['err']:
            run.violation({'kind': 'case-evaluation-failed', 'error': out['err']}, no_input=True)
        judge(run, out, findings, stats)
        bad_corr = list(out['bad_corr'])
        first_corr = out['keep'][bad_corr[0]] if bad_corr else None
        n_cases = len(out['keep'])
        if (st['broken'] or bad_corr) and not run.violations:
            # the tie is broken and no case failed: search harder (thorough generator, more seeds)
            for s2 in range(2):
                more = generate('quick' if tier == 'quick' else 'thorough', random.Random(seed * 1000 + 17 + s2))
                o2 = run_items(run, wd, more, st, f's{s2}')
                judge(run, o2, findings, stats)
                n_cases += len(o2['keep'])
                if o2['bad_corr'] and first_corr is None:
                    first_corr = o2['keep'][o2['bad_corr'][0]]
                if run.violations:
                    break
            if not run.violations:
                if st['broken']:
                    run.violation({'kind': 'tie-broken', 'what': st['broken']}, no_input=True)
                else:
                    it, r = first_corr
                    run.violation(dict(replay_obj(it, r, 'correspondence-broken'),
                                       what='corr_C12x: the printed text differs from jprint/csv_print/yaml_print/'
                                            'plist_print/xml_print, or the model reader disagrees with the real parser '
                                            'on it, or csv.writer quotes a cell differently'), no_input=True)
        for f in findings:
            hits = stats['known'].get(f['id'], [])
            if hits:
                ex = {k: v for k, v in hits[0].items() if k != 'dir'}
                run.known(f"{f['id']} {f['what']} [{len(hits)} case(s) in class {f.get('class')}, e.g. "
                          f"{json.dumps(ex)[:160]}]")
        by_fmt = {}
        for it, r in out['keep']:
            by_fmt[it['fmt']] = by_fmt.get(it['fmt'], 0) + 1
        run.cov['traces_validated_against_impl'] = n_cases
        run.cov['cases_by_format'] = by_fmt
        run.cov['sources_rejected_by_loader'] = out['skipped']
        run.cov['cases_outside_theorem_domains'] = len(out['out_domain'])
        od = {}
        for i in out['out_domain']:
            f = out['keep'][i][0]['fmt']
            od[f] = od.get(f, 0) + 1
        run.cov['cases_outside_theorem_domains_by_format'] = od
        run.cov['known_finding_cases'] = {k: len(v) for k, v in stats['known'].items()}
        run.cov['rule'] = ('source files generated from a seeded grammar: JSON/JSON5 strings over quote, backslash, comma, '
                           'newline, CR, tab, NUL, U+007F, U+00E9, U+2028, U+FEFF, U+FFFF, U+10000, U+1F600, U+10FFFF, lone '
                           'surrogates (as escapes), space, digits; number tokens at +-2^53, +-2^63, +-2^64, 10^30, 5e-324, '
                           '1e308, -0.0, 1e16; empty containers; depth up to 40; all 4 layouts for JSON, one random layout '
                           'per JSON5 document (quick); CSV tables over quote, comma, newline, CR, NUL, non-ASCII with odd '
                           'quoting and line ends, ragged and empty rows; YAML/plist/XML over alphanumeric content (YAML also '
                           '{} [] "" for D15; plist also empty containers; XML with attributes, text, text with '
                           'surrounding white space, tails), each compared byte for byte with the structure-printer model '
                           '(yaml_print / plist_print / xml_print) and, inside the theorem domains, the model reader on the '
                           'printed text with the real loader\'s reload. non-trivial = printed text longer than 8 '
                           'characters; distinct by (format, layout, source)')
        run.cov['samples'] = [{k: v for k, v in it.items() if k != 'dir'} for it, _ in out['keep'][:3]]
        run.assumptions = [
            'number tokens are opaque: json.dumps(json.loads(tok)) == tok for the tokens json.dumps prints is an oracle '
            'contract, tested by the reload comparison of every case',
            'jparse / j5parse model json.loads / json5.loads only on the JSON grammar (validated on every printed text); '
            'csv_read models open() universal newlines + the _csv reader state machine for the excel dialect '
            '(validated on every source and every printed text)',
            'YAML: C12_struct_yaml is parametric in the scalar codec; its hypotheses scalar_rt (PyYAML resolves what it '
            'emitted back to the same scalar) and scalar_lex (the emitted token is non-empty, without LF, space, colon) '
            'are third-party behaviour, tested on every case: scalar_lex by yaml_domainb on the tokens write_obj produced, '
            'scalar_rt by the reload comparison; the block-structure reader yaml_parse is compared with PyYAML\'s reload '
            'on every in-domain printed text',
            'plist / XML: number tokens are Python str() of the scalar (opaque); plist_parse / xml_parse model plistlib / '
            'ElementTree only on the printers\' images (tags without entities, CDATA, comments, namespaces), compared '
            'with the real reload on every in-domain printed text; PLIST_HEADER / PLIST_FOOTER are constants of the model',
            'csv cells longer than csv.field_size_limit() (131072) are rejected by the loader and are not modelled; '
            'XML texts containing a line feed, YAML multi-line strings and multi-document streams are outside the '
            'structure-printer models (reload-tested only)',
            'Python str ordering used by sorted() in DictNode.from_dict is code-point lexicographic (zlist_leb), '
            'validated by the byte-exact text comparison']
        return run.finish()
    finally:
        wd.cleanup()


def replay(path):
    obj = json.load(open(path))
    item = obj.get('item') or obj.get('replay') or obj
    if isinstance(item, str) or 'fmt' not in item:
        print('replay file names no input (tie broken): re-run ./check C12')
        return 1
    wd = common.Workdir(PROP + 'r')
    try:
        st = common.build(MODELS, MODELS)          # an empty target list would make everything
        run = common.Run(PROP, 'replay', 0)
        out = run_items(run, wd, [dict(item)], st, 'r')
        for it, r in out['keep']:
            print(json.dumps({k: (''.join(map(chr, v)) if k == 'text' else v) for k, v in r.items()
                              if k in ('stage', 'text', 'eq', 'print_error', 'reload_error', 'loads_error')},
                             indent=1)[:3000])
        if out['err'] or out['internal'] or out['bad_holds'] or not out['keep']:
            print(f'VIOLATION property={PROP} replay={path}')
            return 1
        print('replay: property holds on this input')
        return 0
    finally:
        wd.cleanup()
