"""C02 - no edits are reported exactly when the two documents are equal.

Library half: the implementation's complete nested edit script for every pair (scriptlib.impl_script), judged by
the Gallina predicates `holds_C02_lib` = holds_C02 (cost 0 <-> equal as data) && spec_ok (valid, additive, priced,
cost >= 0, cost 0 -> zsim) and `corr_script` (exact script correspondence with the model).  Failures are classified
by the Gallina class predicates of the open findings D4 / D16 (GT.ScriptKnown); C02_classified proves that the
model has no other failures.
Command-line half: graphtage.__main__.main on the two documents written to files, in the three output modes
(default, -e, -d) under the three dictionary strategies, judged by `holds_C02_cli` (exit status and change marks
against the library cost of the same pair).
No property logic here: Python generates, drives, serialises and counts."""
import copy
import io
import json
import os
import random
import sys

from harness import common, scriptcheck, scriptlib as sl

PROP = 'C02'
THEOREMS = ['C02_equal_zero', 'C02_zero_sim', 'C02_partial', 'C02_refuted_D4', 'C02_refuted_D16', 'C02_classified',
            'C02_spec_sound', 'C02_model_priced', 'C02_zsim_data', 'C02_exit_flat', 'C02_exit_cost', 'C02_exit', 'C02_exit_cli']
HOLDS = 'holds_C02_lib'
# (finding id, Gallina class predicate, text)
KF = [('D4', 'kf_cross_type_py_equal',
       'Python-equal scalars of different type inside containers are reported equal (cost 0, exit 0)'),
      ('D16', 'kf_zero_size_in_leaf_list',
       'inserting/removing a zero-size element ("" or null) of a list of leaves costs 0 (reported equal, exit 0)')]
KF_CLI = ('D16', 'kf_cli_zero_size_marked',
          'the zero-cost insertion/removal of a zero-size list element is rendered with change marks although the '
          'cost is 0 and the exit status is 0')
MODES = {'default': [], 'edits': ['-e'], 'digest': ['-d']}


# ------------------------------------------------------------------ known findings

def open_findings():
    """Open C02 entries of known_findings.json; entries proposed in corpus/C02.known.json are used for ids the main
    file does not list yet (it is merged by hand, never written at run time)."""
    fs = list(common.known_findings(PROP))
    have = {f['id'] for f in fs}
    p = os.path.join(common.VERIF, 'corpus', 'C02.known.json')
    if os.path.exists(p):
        fs += [f for f in json.load(open(p))['findings'] if f['property'] == PROP and f['id'] not in have]
    return [f for f in fs if f.get('status') == 'open']


# ------------------------------------------------------------------ generators: the quantifier's hard cases

SCALAR_TWINS = [
    (1, 1.0), (1, True), (0, False), (0, -0.0), (-0.0, 0.0), (10, 10.0), (10000000000000000, 1e16),   # == across types / values
    (1, '1'), (1.0, '1.0'), (True, 'True'), (None, 'None'), (None, ''), ('', None), (0, ''), (False, ''), (5, ''),
    ('a', 'b'), ('abc', 'abd'), ('abc', 'ab'), ('', 'a'), ('a', ''), ('hello', 'hallo'), ('é', 'e'), (12, 13), (1.5, 2.5),
    (None, 0), (None, False), ('0', 0), ('', ' '),
]
ZERO_SIZE = [
    (['', 1], [1]), ([1], [1, '']), ([None], []), ([], [None]), ([None, ''], []), (['', ''], ['']), ([None], ['']),
    ([1, None, 2], [1, 2]), ([1, 2], ['', 1, None, 2, '']), (['a', '', 'b'], ['a', 'b']),
    ([[], ''], [[]]), ([[], None], [[]]), ([['']], [[]]), ([[None, 1]], [[1]]), ({'k': ['', 1]}, {'k': [1]}),
    ({'k': [None]}, {'k': []}), ([{'a': 1}, ''], [{'a': 1}]), ([1.0, ''], [1]), ([True, None], [1]),
    ({'': ''}, {}), ({'a': None}, {}), ({'a': ''}, {'a': None}), ([''], ['a']), ([''], [0]),
]
PERMUTED = [
    ({'a': 1, 'b': [1, 2], 'c': {'x': None}}, {'c': {'x': None}, 'b': [1, 2], 'a': 1}),
    ({'a': {'k1': 1, 'k2': 2}, 'b': ''}, {'b': '', 'a': {'k2': 2, 'k1': 1}}),
    ([{'a': 1, 'b': 2}, {'c': 3, 'd': 4}], [{'b': 2, 'a': 1}, {'d': 4, 'c': 3}]),
    ({'a': 1, 'b': 2, 'c': 3, 'd': 4}, {'d': 4, 'c': 3, 'b': 2, 'a': 1}),
    ({'a': 1, 'b': 2}, {'b': 1, 'a': 2}), ({'a': 1, 'b': 1.0}, {'b': 1, 'a': 1.0}),
    ({'a': [1, 2]}, {'a': [2, 1]}), ({'a': 1}, {'a': 1, '': None}),
]


def wrap_variants(x, y):
    return [(x, y), ([x], [y]), ({'k': x}, {'k': y}), ([[x]], [[y]]), ({'k': [x, 2]}, {'k': [y, 2]}),
            ([0, x, 'z'], [0, y, 'z']), ({'a': {'b': x}, 'c': 1}, {'c': 1, 'a': {'b': y}})]


def hard_pairs():
    out = []
    for x, y in SCALAR_TWINS:
        out += wrap_variants(x, y)
    out += ZERO_SIZE + PERMUTED
    out += [({'a': 1}, {'b': 1}), ({'': 1}, {'a': 1}), ({'ab': 1}, {'ac': 1}), ({'1': 1}, {'1': '1'})]
    return out


def paths(v, p=()):
    yield p, v
    if isinstance(v, list):
        for i, c in enumerate(v):
            yield from paths(c, p + (i,))
    elif isinstance(v, dict):
        for k, c in v.items():
            yield from paths(c, p + (k,))


def put(v, p, new):
    if not p:
        return new
    v = copy.copy(v)
    v[p[0]] = put(v[p[0]], p[1:], new)
    return v


def retype(rng, s):
    """A scalar that differs from s only in type, in one character, or by being empty."""
    cands = []
    if isinstance(s, bool):
        cands = [int(s), float(s), str(s)]
    elif isinstance(s, int):
        cands = [float(s), str(s), s + 1] + ([bool(s)] if s in (0, 1) else [])
    elif isinstance(s, float):
        cands = [str(s)] + ([int(s)] if s == int(s) and abs(s) < 1e15 else []) + [s + 1.0]
    elif s is None:
        cands = ['', 'None', 0, False]
    elif isinstance(s, str):
        cands = ['', None] if s else [None, ' ', 0]
        if s:
            i = rng.randrange(len(s))
            cands += [s[:i] + rng.choice('abxy') + s[i + 1:], s[:i] + s[i + 1:], s + rng.choice('ab')]
    return rng.choice(cands)


def point_mutation(rng, a):
    """b = a with exactly one hard edit: a scalar retyped / one character / emptied, a zero-size element inserted
    into or removed from a list, or the keys of a mapping permuted (equal document)."""
    nodes = list(paths(a))
    scalars = [(p, v) for p, v in nodes if not isinstance(v, (list, dict))]
    lists = [(p, v) for p, v in nodes if isinstance(v, list)]
    dicts = [(p, v) for p, v in nodes if isinstance(v, dict) and len(v) > 1]
    r = rng.random()
    if r < 0.45 and scalars:
        p, v = rng.choice(scalars)
        return put(a, p, retype(rng, v))
    if r < 0.75 and lists:
        p, v = rng.choice(lists)
        zeros = [i for i, c in enumerate(v) if c is None or (isinstance(c, str) and c == '')]
        if zeros and rng.random() < 0.5:
            i = rng.choice(zeros)
            return put(a, p, v[:i] + v[i + 1:])
        i = rng.randint(0, len(v))
        return put(a, p, v[:i] + [rng.choice(['', None])] + v[i:])
    if dicts:
        p, v = rng.choice(dicts)
        items = list(v.items())
        rng.shuffle(items)
        return put(a, p, dict(items))
    return json.loads(json.dumps(a))


def gen_leafy(rng, depth, width):
    """Documents rich in leaf-only lists and zero-size scalars."""
    r = rng.random()
    if depth <= 0 or r < 0.25:
        return rng.choice(['', None, '', None, 0, 1, 1.0, True, False, 'a', 'ab', '1', 'None', 2.5, -0.0, 10])
    if r < 0.7:
        return [gen_leafy(rng, depth - 2 if rng.random() < 0.6 else depth - 1, width) for _ in range(rng.randint(0, width))]
    ks = rng.sample(sl.KEYS, rng.randint(0, min(width, 4)))
    return {k: gen_leafy(rng, depth - 1, width) for k in ks}


def own_items(tier, rng):
    items = []
    path = os.path.join(common.VERIF, 'corpus', 'C02.jsonl')
    if os.path.exists(path):
        items += [json.loads(l) for l in open(path) if l.strip()]
    hp = hard_pairs()
    for k, (a, b) in enumerate(hp):
        sets = sl.OPTION_SETS if tier != 'quick' else [sl.OPTION_SETS[k % 9], sl.OPTION_SETS[(k + 4) % 9], sl.OPTION_SETS[(3 * k + 8) % 9]]
        for o in dict.fromkeys(sets):
            items.append({'a': a, 'b': b, 'opts': list(o)})
            if a != b and k % 2:
                items.append({'a': b, 'b': a, 'opts': list(o)})
    n = 350 if tier == 'quick' else 4000
    for k in range(n):
        a = gen_leafy(rng, 3, 4) if k % 2 else sl.gen_value(rng, 3, 4)
        b = point_mutation(rng, a)
        if rng.random() < 0.2:
            b = point_mutation(rng, b)
        items.append({'a': a, 'b': b, 'opts': list(sl.OPTION_SETS[k % 9])})
    return items, len(hp)


def cli_base_pairs(tier, rng, generated):
    """The pairs run through the command line: the hard list plus a sample of the generated pairs."""
    hp = hard_pairs()
    n_hard, n_gen = (40, 25) if tier == 'quick' else (len(hp), 400)
    base = rng.sample(hp, min(n_hard, len(hp)))
    base += [(it['a'], it['b']) for it in rng.sample(generated, min(n_gen, len(generated)))]
    # the pairs named by the findings and one equal pair with permuted keys are always run
    base += [([1], [1.0]), ([], [None]), (['', 1], [1]), PERMUTED[0], (1, '1'), (5, ''), ([1, 2, 3], [1, 2, 4])]
    return base


# ------------------------------------------------------------------ implementation side: the command line (worker)

class _NoClose(io.StringIO):
    def close(self):
        pass

    def isatty(self):
        return False


def _main(argv):
    import graphtage.__main__ as gm
    out, err = _NoClose(), _NoClose()
    so, se = sys.stdout, sys.stderr
    sys.stdout, sys.stderr = out, err
    try:
        status = gm.main(['graphtage'] + argv)
    finally:
        sys.stdout, sys.stderr = so, se
    return status, out.getvalue()


def cli_flags(opts, mode):
    ds, lm = opts
    return (['--no-status', '--no-color', '--dict-strategy', ds] + {'on': [], 'off': ['--no-list-edits'],
                                                      'same': ['--no-list-edits-when-same-length']}[lm] + MODES[mode])


def impl_cli(item):
    """main() on files holding the two documents."""
    d = item['dir']
    os.makedirs(d, exist_ok=True)
    pa, pb = os.path.join(d, 'a.json'), os.path.join(d, 'b.json')
    with open(pa, 'w') as f:
        json.dump(item['a'], f)
    with open(pb, 'w') as f:
        json.dump(item['b'], f)
    flags = cli_flags(item['opts'], item['mode'])
    status, out = _main(flags + [pa, pb])
    if not isinstance(status, int) or isinstance(status, bool):
        raise RuntimeError(f'main returned {status!r}')
    return {'exit': status, 'out': out, 'mode': list(MODES).index(item['mode'])}


def cli_term(lib, r):
    return f'(Build_cli_case {sl.case_term(lib)} {r["mode"]} {sl.z(r["exit"])} {sl.codes(r["out"])})'


# ------------------------------------------------------------------ check

def classify(run, ok, bad_holds, kfs, open_ids, reported, limit=3):
    """Prints known findings once per id, records everything else as a violation. Returns the number of violations."""
    n_viol = 0
    for i in bad_holds:
        known = [k for k, idx in zip(KF, kfs) if i in idx and k[0] in open_ids]
        it, r = ok[i]
        if known:
            if known[0][0] not in reported:
                reported.add(known[0][0])
                run.known(f'{known[0][0]}: {known[0][2]} (class {known[0][1]}; e.g. a={json.dumps(it["a"])} '
                          f'b={json.dumps(it["b"])} opts={it["opts"]})')
            continue
        if n_viol < limit:
            run.violation({'kind': f'{HOLDS}-false', 'input': it, 'script': r['script'],
                           'flat_total': r['flat_total'], 'edited_cost': r['edited_cost'],
                           'note': 'cost 0 <-> equal as data fails outside the open classes D4/D16, or the script is not '
                                   'valid/additive/priced, or cost 0 without zsim'})
        n_viol += 1
    return n_viol


def run_cli(run, wd, lib_by_key, cli_items, open_ids, reported):
    for i, it in enumerate(cli_items):
        it['dir'] = os.path.join(wd.path, f'cli{i % 64}')
    res = common.run_impl('pC02', 'impl_cli', cli_items)
    ok = []
    for it, r in zip(cli_items, res):
        run.count(['cli', it['a'], it['b'], it['opts'], it['mode']], sl.nontrivial(it['a'], it['b']))
        if 'ok' in r:
            ok.append((it, r['ok']))
        else:
            run.violation({'kind': 'cli-internal-error', 'input': {k: it[k] for k in ('a', 'b', 'opts', 'mode')},
                           'argv': cli_flags(it['opts'], it['mode']) + ['a.json', 'b.json'], 'result': r,
                           'note': 'graphtage.__main__.main raised or did not return an exit status'})
    header = sl.SCRIPT_HEADER + 'Require Import GT.ScriptKnown.\n'
    terms = [cli_term(lib_by_key[key(it)], r) for it, r in ok]
    evals = ['bad_cases holds_C02_cli', 'bad_cases cli_exit_ok', 'bad_cases cli_marks_ok',
             f'bad_cases (fun c => negb ({KF_CLI[1]} c))']
    bad, err = common.coq_eval_cases(wd, 'cli', header, terms, evals, chunk=60)
    if err:
        run.violation({'kind': 'case-evaluation-failed', 'error': err}, no_input=True)
        return
    bad_holds, bad_exit, bad_marks, in_kf = bad
    n = 0
    for i in bad_holds:
        it, r = ok[i]
        if i in in_kf and KF_CLI[0] in open_ids:
            if 'cli-' + KF_CLI[0] not in reported:
                reported.add('cli-' + KF_CLI[0])
                run.known(f'{KF_CLI[0]}: {KF_CLI[2]} (class {KF_CLI[1]}; e.g. graphtage '
                          f'{" ".join(cli_flags(it["opts"], it["mode"]))} a.json b.json with a={json.dumps(it["a"])} '
                          f'b={json.dumps(it["b"])})')
            continue
        if n < 3:
            lib = lib_by_key[key(it)]
            run.violation({'kind': 'holds_C02_cli-false', 'input': {k: it[k] for k in ('a', 'b', 'opts', 'mode')},
                           'argv': cli_flags(it['opts'], it['mode']) + ['a.json', 'b.json'],
                           'library_cost': lib['script'][1] if lib['script'][0] != 'comp' else lib['script'][2],
                           'exit_status': r['exit'], 'exit_ok': i not in bad_exit, 'marks_ok': i not in bad_marks,
                           'output': r['out'][:1500]})
        n += 1
    run.cov['cli_runs'] = len(ok)
    run.cov['cli_failures_total'] = len(bad_holds)
    run.cov['cli_exit_failures'] = len(bad_exit)
    run.cov['cli_modes'] = sorted(MODES)


def key(it):
    return json.dumps([it['a'], it['b'], it['opts']], sort_keys=False)


def check(tier, seed):
    run = common.Run(PROP, tier, seed)
    wd = common.Workdir(PROP)
    rng = random.Random(seed)
    try:
        st = common.build(scriptcheck.MODEL_TARGETS, [f'props/Prop{PROP}.vo'])
        common.proof_evidence(run, wd, PROP, st, THEOREMS)
        open_ids = {f['id'] for f in open_findings()}
        items, ndocs = scriptcheck.gen_items(tier, rng, 'scripts.jsonl')
        mine, nhard = own_items(tier, rng)
        items += mine
        # command-line pairs: each under the three dictionary strategies, plus (b, b)
        base = cli_base_pairs(tier, rng, mine)
        cli_lib = []
        for k, (a, b) in enumerate(base):
            lm = ('on', 'off', 'same')[k % 3] if k % 4 == 3 else 'on'
            for ds in ('auto', 'match', 'none'):
                cli_lib.append({'a': a, 'b': b, 'opts': [ds, lm]})
            cli_lib.append({'a': b, 'b': b, 'opts': [('auto', 'match', 'none')[k % 3], lm]})
        seen = set()
        all_items = []
        for it in items + cli_lib:
            kk = key(it)
            if kk not in seen:
                seen.add(kk)
                all_items.append(it)
        kf_fns = [k[1] for k in KF] + ['(fun c => negb (case_in_domain c))']
        ok, bad_holds, bad_corr, kfs = scriptcheck.evaluate(run, wd, st, all_items, HOLDS, kf_fns)
        outside = kfs[2]
        reported = set()
        n_viol = classify(run, ok, bad_holds, kfs[:2], open_ids, reported)
        for i in outside[:3]:
            run.violation({'kind': 'outside-theorem-domain', 'input': ok[i][0],
                           'note': 'the serialised trees violate wf / numtext_ok / consistent: the harness produced a case '
                                   'the C02 theorems do not speak about'})
        run.cov['traces_validated_against_impl'] = len(ok) if st['models_ok'] else 0
        run.cov['corr_disagreements'] = len(bad_corr)
        run.cov['holds_failures_total'] = len(bad_holds)
        run.cov['holds_failures_unexplained'] = n_viol
        run.cov['known_class_cases'] = {k[0]: len(idx) for k, idx in zip(KF, kfs)}
        # command line
        lib_by_key = {key(it): r for it, r in ok}
        cli_items = []
        for it in cli_lib:
            if key(it) in lib_by_key:
                for mode in MODES:
                    cli_items.append({'a': it['a'], 'b': it['b'], 'opts': it['opts'], 'mode': mode})
        seen = set()
        cli_items = [c for c in cli_items if not (json.dumps([key(c), c['mode']]) in seen or seen.add(json.dumps([key(c), c['mode']])))]
        run_cli(run, wd, lib_by_key, cli_items, open_ids, reported)
        if (st['broken'] or bad_corr) and not run.violations:
            # tie broken and no failing input yet: search with the thorough generators and more seeds
            found = False
            for s2 in range(2):
                r2 = random.Random(seed * 7919 + s2)
                more, _ = scriptcheck.gen_items('thorough', r2, 'scripts.jsonl')
                more = own_items('thorough', r2)[0][:2500] + more[:2500]
                ok2, bh2, bc2, kfs2 = scriptcheck.evaluate(run, wd, st, more, HOLDS, kf_fns, tag=f'search{s2}')
                if classify(run, ok2, bh2, kfs2[:2], open_ids, reported, limit=1):
                    found = True
                    break
            if not found:
                what = st['broken'] or {'stage': 'correspondence', 'statement': 'corr_script',
                                        'first_disagreeing_input': ok[bad_corr[0]][0] if bad_corr else None}
                run.violation({'kind': 'tie-broken', 'what': what}, no_input=True)
        run.cov['rule'] = (
            'library: pairs of JSON documents built by graphtage.json.build_tree under the 9 option sets (dictionary strategy '
            'auto/match/none x list edits on/off/off-when-same-length): the shared script corpus and generators of C01/C03/C10 '
            f'(fixed pairs, mutation pairs, pairs of all {ndocs} documents with at most {3 if tier == "quick" else 4} nodes) plus '
            f'the hard cases of this property: {nhard} fixed pairs (scalars differing only in type / in one character / by an '
            'empty string / null vs "", bare and wrapped in lists, mappings and nested containers; zero-size elements in '
            'leaf-only and mixed lists; equal documents with permuted keys) and point mutations of random documents (one scalar '
            'retyped, changed in one character or emptied; one zero-size element inserted or removed; keys permuted). '
            'command line: a sample of these pairs, each with (b, b), written to files and run through graphtage.__main__.main '
            '(--no-color) in the default, -e and -d output modes under the three dictionary strategies; "marked" = the rendered '
            'diff contains a change mark of the renderer (U+0336, U+031F, "~~", "++", " -> "), resp. the edit list / digest is '
            'not blank. non-trivial = the documents differ and one is a container; distinct '
            'by (a, b, options[, mode]).')
        run.cov['samples'] = [ok[i][0] for i in range(0, min(len(ok), 600), 97)]
        run.cov['exhaustive'] = False
        run.cov['open_findings_used'] = sorted(open_ids)
        run.assumptions = [
            'leaf text is Python str(object) and leaf numeric value float.as_integer_ratio, supplied by the harness '
            '(checked per case: case_in_domain = wf, numtext_ok, consistent)',
            'cost cells are modelled by Z (numpy uint64 does not wrap below 2^64)',
            'the matching returned by scipy and the order of a Python set are oracle inputs of the model, validated and '
            'universally quantified in the theorems',
            'node classes modelled: leaves, ListNode, KeyValuePairNode, DictNode/MultiSetNode without duplicates, '
            'FixedKeyDictNode (the JSON/YAML path); XML/CSV/plist/dataclass nodes are outside this model',
            'the command-line half (exit status, change marks in the three output modes) is checked on the implementation '
            'only (holds_C02_cli); the renderer is not modelled here (C06)']
        return run.finish()
    finally:
        wd.cleanup()


def replay(path):
    obj = json.load(open(path))
    it = obj.get('input')
    if not it:
        print('replay file names no input:', json.dumps(obj)[:400])
        print(f'VIOLATION property={PROP} replay={path} no-failing-input-found')
        return 1
    wd = common.Workdir(PROP + 'r')
    try:
        common.build(scriptcheck.MODEL_TARGETS, [])
        lib_it = {'a': it['a'], 'b': it['b'], 'opts': it['opts']}
        r = common.run_impl('scriptlib', 'impl_script', [lib_it], nproc=1)[0]
        print(json.dumps(r)[:2000])
        if 'ok' not in r:
            print(f'VIOLATION property={PROP} replay={path}')
            return 1
        # judged on the implementation's output alone (GT.ScriptKnown does not depend on translated code)
        header = sl.SCRIPT_HEADER + 'Require Import GT.ScriptKnown.\n'
        bad, err = common.coq_eval_cases(wd, 'replay', header, [sl.case_term(r['ok'])], [f'bad_cases {HOLDS}'])
        failed = bool(err or bad[0])
        if 'mode' in it:
            it2 = dict(it, dir=os.path.join(wd.path, 'cli'))
            c = common.run_impl('pC02', 'impl_cli', [it2], nproc=1)[0]
            print(json.dumps(c)[:2000])
            if 'ok' not in c:
                failed = True
            else:
                bad, err = common.coq_eval_cases(wd, 'replaycli', sl.SCRIPT_HEADER + 'Require Import GT.ScriptKnown.\n',
                                                 [cli_term(r['ok'], c['ok'])], ['bad_cases holds_C02_cli'])
                failed = failed or bool(err or bad[0])
        if failed:
            print(f'VIOLATION property={PROP} replay={path}')
            return 1
        print('replay: property holds on this input')
        return 0
    finally:
        wd.cleanup()
