"""C19 - match expressions cannot reach private attributes.

Implementation side: expression STRINGS (grammar-generated, mutated, systematic probes of every whitelisted
built-in and of every public member of the built-in types) are parsed by the real parser
(graphtage.expressions.parse) and evaluated by the real evaluator exactly as constraints.py does
(`expr.eval(locals=...)`, default globals) over environments of tripwired objects whose `__getattribute__`
records every read of a planted attribute; `Expression.get_value` is wrapped from outside to record which
identifiers were resolved.  The worker returns the RPN the real parser produced, the planted reads, the
resolved names and the outcome (value serialised into the model's value universe, or exception class).

Verdicts: Gallina `holds_C19` (on the observation alone), `corr_C19` (observation = model's log/outcome,
exact in the modelled fragment, over-approximation elsewhere) and the class predicates of the known
findings, all under vm_compute.  Python only generates, drives, serialises, counts.
"""
import json
import os
import random
import sys

from harness import common

PROP = 'C19'
THEOREMS = ['C19_direct', 'C19_full_if_guard_denies_format', 'C19_refuted_if_not', 'C19_partial', 'C19_repair',
            'C19_needs_clean_env', 'C19_guard_sound', 'C19_whitelist_documented']
HEADER = ('From Coq Require Import String List Bool ZArith Ascii.\nRequire Import GT.PyBase GT.ExprSpec.\n'
          'Import ListNotations.\nOpen Scope string_scope.\n'
          'Fixpoint bs (l : list nat) : string := match l with [] => EmptyString | n :: r => String (ascii_of_nat n) (bs r) end.\n')
MODEL_TARGETS = ['theories/ExprModel.vo']
PROOF_TARGETS = ['props/PropC19.vo']

# ------------------------------------------------------------------ implementation side (worker)

_STATE = {}


class _Timeout(BaseException):
    pass


def _setup():
    if _STATE:
        return _STATE
    import resource
    import signal
    from graphtage import expressions as E
    try:
        resource.setrlimit(resource.RLIMIT_AS, (3 << 30, 3 << 30))
    except Exception:
        pass
    meta, reads, resolved = {}, [], []

    class Trip:
        """Tripwired data object: every read of a planted attribute is recorded."""
        def __getattribute__(self, name):
            m = meta.get(id(self))
            if m is not None and name in m[1]:
                reads.append([m[0], name])
            return object.__getattribute__(self, name)

    class TripG(Trip):
        """...with a public generator method (an ordinary Python function reachable from the object)."""
        def walk(self):
            yield self

    orig = E.Expression.get_value

    def get_value(token, locals, globals):
        v = orig(token, locals, globals)
        if isinstance(token, E.IdentifierToken):
            resolved.append(token.name)
        return v
    E.Expression.get_value = staticmethod(get_value)

    def on_alarm(signum, frame):
        raise _Timeout()
    signal.signal(signal.SIGALRM, on_alarm)
    _STATE.update(E=E, meta=meta, reads=reads, resolved=resolved, Trip=Trip, TripG=TripG, signal=signal)
    return _STATE


def _build_env(st, env):
    objs = {}
    for o in env['objects']:
        if o.get('cls') == 'N':
            # a REAL graphtage tree (what --match-if hands to the expression), its root tripwired by swapping in a
            # subclass that records reads of the planted names
            import graphtage.json as gj
            node = gj.build_tree(o['doc'])
            base = type(node)
            sub = st.setdefault('subs', {}).get(base)
            if sub is None:
                def ga(self, name, _base=base, _meta=st['meta'], _reads=st['reads']):
                    m = _meta.get(id(self))
                    if m is not None and name in m[1]:
                        _reads.append([m[0], name])
                    return _base.__getattribute__(self, name)
                sub = st['subs'][base] = type('Trip' + base.__name__, (base,), {'__getattribute__': ga})
            node.__class__ = sub
            objs[o['id']] = node
        else:
            objs[o['id']] = (st['TripG'] if o.get('cls') == 'G' else st['Trip'])()

    def mk(v):
        k, x = next(iter(v.items()))
        if k == 'i':
            return int(x)
        if k == 's':
            return x
        if k == 'b':
            return bool(x)
        if k == 'n':
            return None
        if k == 'f':
            return float(x)
        if k == 'l':
            return [mk(e) for e in x]
        if k == 't':
            return tuple(mk(e) for e in x)
        if k == 'd':
            return {mk(a): mk(b) for a, b in x}
        if k == 'o':
            return objs[x]
        if k == 'g':
            return object.__getattribute__(objs[x], 'walk')
        raise ValueError(v)
    for o in env['objects']:
        obj = objs[o['id']]
        planted = set()
        for name, v in o['attrs']:
            planted.add(name)
            if next(iter(v)) != 'g':
                object.__setattr__(obj, name, mk(v))
        st['meta'][id(obj)] = (o['id'], planted)
    return objs, {name: mk(v) for name, v in env['locals']}


def _tok(E, t):
    if isinstance(t, E.FixedSizeCollection):
        return ['coll', t.size, 'tuple' if t.container_type is tuple else ('list' if t.container_type is list else '?')]
    if isinstance(t, E.OperatorToken):
        return ['op', t.op.name]
    if isinstance(t, E.IntegerToken):
        return ['int', t.value] if type(t.value) is int else ['other']
    if isinstance(t, E.FloatToken):
        return ['float', repr(t.value)]
    if isinstance(t, E.StringToken):
        return ['str', t.raw_token]
    if isinstance(t, E.IdentifierToken):
        return ['id', t.name]
    return ['other']


def _ser(st, objs_by_pyid, v, depth=0):
    E = st['E']
    if isinstance(v, E.Token):
        return {'tok': _tok(E, v)}
    if id(v) in objs_by_pyid:
        return {'o': objs_by_pyid[id(v)]}
    if v is None:
        return {'n': None}
    if type(v) is bool:
        return {'b': v}
    if type(v) is int:
        return {'i': v} if abs(v) < 10 ** 60 else {'x': 'bigint'}
    if type(v) is float:
        return {'f': repr(v)}
    if type(v) is str:
        return {'s': v} if len(v) < 2000 else {'x': 'longstr'}
    if depth < 4 and type(v) in (list, tuple) and len(v) <= 40:
        return {'l' if type(v) is list else 't': [_ser(st, objs_by_pyid, e, depth + 1) for e in v]}
    if depth < 4 and type(v) is dict and len(v) <= 40:
        return {'d': [[_ser(st, objs_by_pyid, a, depth + 1), _ser(st, objs_by_pyid, b, depth + 1)] for a, b in v.items()]}
    for name, b in E.DEFAULT_GLOBALS.items():
        if v is b:
            return {'bi': name}
    return {'x': type(v).__name__}


def impl_eval(item):
    """parse(expr).eval(locals=env) on /repo's code; never raises (the exception class is the observation)."""
    st = _setup()
    E = st['E']
    st['meta'].clear()
    objs, loc = _build_env(st, item['env'])
    by_pyid = {id(o): oid for oid, o in objs.items()}
    try:
        ex = E.parse(item['expr'])
    except Exception as e:  # rejected by the front end: nothing is evaluated
        return {'parse_error': type(e).__name__}
    rpn = [_tok(E, t) for t in ex.tokens]
    del st['reads'][:]
    del st['resolved'][:]
    st['signal'].setitimer(st['signal'].ITIMER_REAL, 6.0)
    try:
        try:
            v = ex.eval(locals=loc)
            out = {'val': None}
        except _Timeout:
            out = {'exc': '_Timeout'}
        except BaseException as e:  # noqa
            out = {'exc': type(e).__name__}
    finally:
        st['signal'].setitimer(st['signal'].ITIMER_REAL, 0)
    reads = [list(r) for r in st['reads']]
    resolved = list(st['resolved'])
    if 'val' in out:
        meta = dict(st['meta'])
        st['meta'].clear()          # serialising must not add reads
        out = {'val': _ser(st, by_pyid, v)}
        st['meta'].update(meta)
    st['meta'].clear()
    return {'rpn': rpn, 'reads': reads, 'resolved': resolved, 'out': out}


def impl_ops(item):
    """The operator tokens of the running implementation (so that the generator also exercises operators the
    model does not know yet)."""
    from graphtage import expressions as E
    return [[op.name, op.token] for op in E.Operator]


# ------------------------------------------------------------------ environments

PUBLIC = ['pub', 'name', 'val', 'child', 'data', 'items', 'format', 'offset', 'tag']
PRIVATE = ['_x', '_secret', '__y', '_Trip__y', '_', '__dunderish_']


def std_env(variant=0):
    """Objects 0..3 with public and private planted attributes, nested, inside containers."""
    objs = [
        {'id': 0, 'cls': 'T', 'attrs': [['pub', {'i': 1}], ['name', {'s': 'n0'}], ['_x', {'i': 42}], ['__y', {'s': 'yy'}],
                                        ['child', {'o': 1}], ['data', {'l': [{'o': 2}, {'i': 7}]}], ['_secret', {'o': 2}]]},
        {'id': 1, 'cls': 'T', 'attrs': [['pub', {'s': '{0._x}'}], ['_x', {'s': 'deep'}], ['_Trip__y', {'i': 3}],
                                        ['items', {'d': [[{'s': 'k'}, {'o': 2}], [{'s': '_k'}, {'i': 5}]]}],
                                        ['val', {'n': None}], ['format', {'s': 'fmt-attr'}]]},
        {'id': 2, 'cls': 'T', 'attrs': [['val', {'i': 0}], ['_x', {'n': None}], ['_', {'i': 9}], ['tag', {'t': [{'i': 1}, {'o': 0}]}],
                                        ['offset', {'i': 3}], ['__dunderish_', {'b': True}]]},
    ]
    if variant == 1:
        objs.append({'id': 3, 'cls': 'G', 'attrs': [['pub', {'i': 5}], ['_x', {'s': 'gsecret'}], ['walk', {'g': 3}]]})
    loc = [['o', {'o': 0}], ['p', {'o': 1}], ['q', {'o': 2}],
           ['d', {'d': [[{'s': 'a'}, {'o': 0}], [{'s': '_k'}, {'i': 5}], [{'i': 1}, {'o': 1}]]}],
           ['l', {'l': [{'o': 0}, {'o': 1}, {'i': 3}]}], ['t', {'t': [{'o': 2}, {'s': 'x'}]}],
           ['s', {'s': '{0._x}'}], ['n', {'i': 2}], ['e', {'s': ''}], ['z', {'n': None}], ['fl', {'f': '1.5'}],
           ['from', {'o': 0}], ['to', {'o': 1}]]
    if variant == 1:
        loc.append(['g', {'o': 3}])
    return {'objects': objs, 'locals': loc}


def treenode_env():
    """What MatchIf passes: real TreeNodes (their generator method dfs is an ordinary Python function)."""
    return {'objects': [{'id': 0, 'cls': 'N', 'doc': {'a': [1, 2], 'b': 'x'}, 'attrs': [['_x', {'s': 'SECRET'}], ['dfs', {'g': 0}]]},
                        {'id': 1, 'cls': 'N', 'doc': {'a': [1, 3]}, 'attrs': [['_x', {'i': 7}], ['dfs', {'g': 1}]]}],
            'locals': [['from', {'o': 0}], ['to', {'o': 1}]]}


TREENODE_EXPRS = ["((((((list(zip((iter((from.dfs), 0)), [1])))[0])[0]).gi_frame).f_builtins)['getattr'])(from, '_x')",
                  "'{0._x}{1._x}'.format(from, to)", "from._x", "to.__dict__", "from.dfs", "(from.dfs)(to)",
                  "'{0.dfs.__func__.__globals__}'.format(from)"]


def data_env():
    """What MatchUnless passes: plain data (to_obj()), no objects."""
    return {'objects': [], 'locals': [['from', {'d': [[{'s': 'a'}, {'l': [{'i': 1}, {'i': 2}]}], [{'s': '_k'}, {'s': 'x'}]]}],
                                      ['to', {'d': [[{'s': 'a'}, {'l': [{'i': 1}, {'i': 3}]}], [{'s': 'b'}, {'s': 'y'}]]}]]}


# ------------------------------------------------------------------ generators

WHITELIST_DOC = ['abs', 'all', 'any', 'ascii', 'bin', 'bool', 'bytearray', 'bytes', 'chr', 'complex', 'dict', 'enumerate',
                 'filter', 'float', 'frozenset', 'hash', 'hex', 'id', 'int', 'iter', 'len', 'list', 'map', 'max', 'min',
                 'oct', 'ord', 'round', 'set', 'slice', 'sorted', 'str', 'sum', 'tuple', 'zip']
TEMPTING = ['__builtins__', 'getattr', 'eval', 'exec', 'open', 'type', 'vars', 'dir', 'globals', 'locals', '__import__',
            'object', 'print', 'isinstance', 'super', 'compile', 'memoryview', 'property', 'range', 'reversed', 'repr',
            'format', 'pow', 'divmod', 'callable', 'hasattr', 'setattr', 'delattr', 'True', 'False', 'None',
            'NotImplemented', 'Ellipsis', '__name__', '__debug__', 'self', 'cls', 'x', 'foo', '_x', '__class__',
            'DEFAULT_GLOBALS', 'expressions', 'graphtage', 'os', 'sys', 'builtins', 'operator', 'attrgetter']
LOCALS = ['o', 'p', 'q', 'd', 'l', 't', 's', 'n', 'e', 'z', 'fl', 'from', 'to']
MEMBERS = PUBLIC + PRIVATE + ['__class__', '__dict__', '__init__', '__getattribute__', 'format_map', 'upper', 'join', 'get',
                              'keys', 'values', 'append', 'copy', 'index', 'count', 'real', 'bit_length', 'walk',
                              'gi_frame', 'f_builtins', 'f_globals', 'nosuch', 'startswith', 'strip', 'split',
                              '\uff3fx', '\ufe33secret', '\uff3f_class__', '\ufe4f_y']
BINOPS = ['+', '-', '*', '/', '//', '%', '<<', '>>', ' in ', '<', '>', '<=', '>=', '==', '!=', '&', '^', '|', ' and ', ' or ']
UNOPS = ['-', '+', 'not ', '~']


def gen_field(rng, depth=0):
    first = rng.choice(['0', '0', '0', '1', '', '', 'a', 'k', '2', '00', 'o'])
    steps = ''
    for _ in range(rng.choice([0, 1, 1, 1, 2, 2, 3])):
        if rng.random() < 0.7:
            steps += '.' + rng.choice(PUBLIC + PRIVATE + PRIVATE + ['real', 'nosuch', '__class__', 'upper', ''])
        else:
            steps += '[' + rng.choice(['0', '1', 'a', 'k', '_k', '-1', '5', '', 'a]', '0.x']) + ']'
    conv = rng.choice(['', '', '', '!r', '!s', '!a', '!x', '!'])
    spec = ''
    if rng.random() < 0.3:
        spec = ':' + rng.choice(['', '>5', 'd', 'x', 's', '>{1}', '{1._x}', '{0.pub}', '{}', '{0:{1}}', '^', '5'])
        if depth == 0 and rng.random() < 0.2:
            spec = ':' + gen_field(rng, 1)
    return '{' + first + steps + conv + spec + '}'


def gen_format_string(rng):
    parts = []
    for _ in range(rng.choice([1, 1, 1, 2, 2, 3])):
        r = rng.random()
        if r < 0.7:
            parts.append(gen_field(rng))
        elif r < 0.8:
            parts.append(rng.choice(['{{', '}}', '{', '}', '{0', '0}', '{0._x', '{[}', '{0[}]}']))
        else:
            parts.append(rng.choice(['a', ' ', 'x=', '%s', '.']))
    return ''.join(parts)


def quote(s):
    q = "'" if "'" not in s else '"'
    return q + s.replace('\\', '\\\\').replace(q, '\\' + q) + q


def gen_expr(rng, depth=0):
    r = rng.random()
    if depth >= 3 or r < 0.28:
        k = rng.random()
        if k < 0.45:
            return rng.choice(LOCALS)
        if k < 0.55:
            return rng.choice(WHITELIST_DOC)
        if k < 0.6:
            return rng.choice(TEMPTING)
        if k < 0.75:
            return str(rng.choice([0, 1, 2, 3, 5, 10, 255, 0, 1]))
        if k < 0.78:
            return rng.choice(['1.5', '0x10', '0b11', '1e2', '0.0'])
        if k < 0.9:
            return quote(gen_format_string(rng))
        return quote(rng.choice(['', 'a', 'k', '_k', '_x', 'pub', 'abc', 'format']))
    a = gen_expr(rng, depth + 1)
    if r < 0.5:
        m = rng.choice(MEMBERS)
        k = rng.random()
        if k < 0.12:                      # the member operand wrapped in redundant grouping parentheses / spaced out
            m = f'({m})' if k < 0.08 else f'(({m}))'
            return f'{wrap(rng, a)}.{m}'
        if k < 0.18:
            return f'{wrap(rng, a)} . {m}'
        return f'{wrap(rng, a)}.{m}'
    if r < 0.6:
        return f'{wrap(rng, a)}[{gen_expr(rng, depth + 1)}]'
    if r < 0.78:
        n = rng.choice([1, 1, 1, 2, 2, 3])
        args = ', '.join(wrap(rng, gen_expr(rng, depth + 1), 0.7) for _ in range(n))
        return f'{wrap(rng, a, 0.6)}({args})'
    if r < 0.88:
        return f'{wrap(rng, a, 0.4)}{rng.choice(BINOPS)}{wrap(rng, gen_expr(rng, depth + 1), 0.4)}'
    if r < 0.91:
        return f'{rng.choice(UNOPS)}{wrap(rng, a, 0.5)}'
    if r < 0.94:
        return f'{wrap(rng, a)} ? {wrap(rng, gen_expr(rng, depth + 1))} : {wrap(rng, gen_expr(rng, depth + 1))}'
    if r < 0.97:
        return '[' + ', '.join(wrap(rng, gen_expr(rng, depth + 1), 0.6) for _ in range(rng.choice([0, 1, 2, 3]))) + ']'
    return '(' + ', '.join(wrap(rng, gen_expr(rng, depth + 1), 0.6) for _ in range(rng.choice([2, 2, 3]))) + ')'


# ---- structure-aware stream: expressions that really walk the object graph of std_env(0)

def _attrs0():
    return {o['id']: dict((n, v) for n, v in o['attrs']) for o in std_env(0)['objects']}


OBJ_PATHS = {0: ['o', 'from', "d['a']", 'l[0]', '(q.tag)[1]'],
             1: ['p', 'to', 'o.child', 'l[1]', 'd[1]'],
             2: ['q', 't[0]', '(o.data)[0]', "(p.items)['k']", '(o.child.items)["k"]']}


def gen_walk(rng):
    """(expression, valspec or None) following planted attributes from a local."""
    attrs = _attrs0()
    oid = rng.choice([0, 0, 1, 1, 2])
    e = rng.choice(OBJ_PATHS[oid])
    cur = {'o': oid}
    for _ in range(rng.choice([1, 1, 1, 2, 2, 3])):
        if cur is None:
            break
        k, x = next(iter(cur.items()))
        if k == 'o':
            a = attrs[x]
            r = rng.random()
            if r < 0.55:
                n = rng.choice([m for m in a if not m.startswith('_')])
            elif r < 0.85:
                n = rng.choice([m for m in a if m.startswith('_')] or ['_x'])
            else:
                n = rng.choice(MEMBERS)
            e = f'{e}.{n}' if rng.random() < 0.7 else f'({e}).{n}'
            cur = a.get(n) if not n.startswith('_') else None
        elif k in ('l', 't') and x:
            i = rng.randrange(-1, len(x) + 1)
            e = f'({e})[{i}]'
            cur = x[i] if -1 <= i < len(x) else None
        elif k == 'd' and x:
            kk, vv = rng.choice(x)
            key = quote(kk['s']) if 's' in kk else str(kk['i'])
            e = f'({e})[{key}]'
            cur = vv
        elif k == 's':
            e = f'({e}).{rng.choice(["format", "upper", "format_map", "join", "_x", "startswith"])}'
            cur = None
        else:
            break
    return e, cur


def gen_typed(rng):
    e, cur = gen_walk(rng)
    r = rng.random()
    if r < 0.25:
        return e
    if r < 0.4:
        e2, _ = gen_walk(rng)
        return f'({e}){rng.choice(BINOPS)}({e2})'
    if r < 0.5:
        return f'({e}){rng.choice(BINOPS)}{rng.choice(["1", "0", quote("a"), "n", "[1]"])}'
    if r < 0.6:
        return f'{rng.choice(["len", "str", "bool", "list", "tuple", "int", "dict", "sorted", "abs", "hash", "id"])}(({e}))'
    if r < 0.7:
        e2, _ = gen_walk(rng)
        return f'({e}) ? ({e2}) : {rng.choice(["1", "o", quote("x")])}'
    if r < 0.8:
        e2, _ = gen_walk(rng)
        return f'[({e}), ({e2})]' if rng.random() < 0.5 else f'(({e}), ({e2}))[{rng.choice([0, 1, 2])}]'
    if r < 0.9:
        e2, _ = gen_walk(rng)
        return f'{quote(gen_format_typed(rng, [None, None]))}.format(({e}), ({e2}))'
    return f'{rng.choice(UNOPS)}({e})'


def gen_format_typed(rng, argobjs):
    """A format string whose fields walk planted attributes of the positional arguments (object ids, or None)."""
    attrs = _attrs0()
    parts = []
    for _ in range(rng.choice([1, 1, 2, 2, 3])):
        i = rng.randrange(len(argobjs))
        oid = argobjs[i]
        f = rng.choice([str(i), str(i), '']) if len(parts) == 0 or rng.random() < 0.8 else ''
        cur = {'o': oid} if oid is not None else {'o': rng.choice([0, 1, 2])}
        for _ in range(rng.choice([1, 1, 2, 3])):
            if cur is None or 'o' not in cur:
                break
            a = attrs[cur['o']]
            n = rng.choice(list(a)) if rng.random() < 0.85 else rng.choice(MEMBERS)
            f += '.' + n
            cur = a.get(n)
            if cur is not None and next(iter(cur)) in ('l', 't') and rng.random() < 0.6:
                x = next(iter(cur.values()))
                j = rng.randrange(len(x) + 1)
                f += f'[{j}]'
                cur = x[j] if j < len(x) else None
            elif cur is not None and 'd' in cur and rng.random() < 0.6:
                kk, vv = rng.choice(cur['d'])
                f += '[' + (kk['s'] if 's' in kk else str(kk['i'])) + ']'
                cur = vv
        f += rng.choice(['', '', '', '!r', '!s', ':>4', ':', '!a:'])
        parts.append(rng.choice(['', 'a', ' ', '{{', '}}']) + '{' + f + '}')
    return ''.join(parts)


def wrap(rng, s, p=0.5):
    return f'({s})' if rng.random() < p else s


MUT_ALPHABET = list("._[]()'{}!:,+-*/%<>=&|^~? ") + list('ox_0f1')


def mutate(rng, s):
    if not s:
        return s
    for _ in range(rng.choice([1, 1, 2, 3])):
        i = rng.randrange(len(s) + 1)
        k = rng.random()
        if k < 0.35:
            s = s[:i] + rng.choice(MUT_ALPHABET) + s[i:]
        elif k < 0.65 and s:
            s = s[:i] + s[i + 1:]
        elif k < 0.85 and s:
            s = s[:i] + rng.choice(MUT_ALPHABET) + s[i + 1:]
        else:
            s = s[:i] + rng.choice(['._x', '.format', '(o)', '[0]', '.__class__', "'{0._x}'", '.pub']) + s[i:]
    return s


def d12_family():
    out = []
    for n in PRIVATE + ['__class__', 'pub', 'child._x', 'child._Trip__y', '_secret._', 'data[0]._x', 'nosuch._x']:
        out += [f"'{{0.{n}}}'.format(o)", f"'{{.{n}}}'.format(o)", f"'{{0[a].{n}}}'.format(d)", f"'{{0[0].{n}}}'.format(l)",
                f"str.format('{{0.{n}}}', o)", f"'{{a.{n}}}'.format_map(dict([['a', o]]))", f"'{{a.{n}}}'.format_map(d)",
                f"'{{0:{{1.{n}}}}}'.format(1, o)", f"'{{0.{n}!r:>5}}'.format(o)", f"'x{{}}y{{.{n}}}'.format(1, o)",
                f"'{{1.{n}}}{{0.{n}}}'.format(o, p)", f"(p.pub).format(o)", f"s.format(q)", f"(s + '{{0.{n}}}').format(o)",
                f"'{{0.{n}}}'.format(1)", f"'{{0.{n}}}'.format(z)", f"'{{0.{n}}}'.format", f"('{{0.{n}}}'.format)((o))",
                f"'{{0.{n}}}'.format(o, p)[0]", f"'{{from.{n}}}'.format_map(dict([['from', from]]))"]
    return out


def caps_probe():
    """Every whitelisted built-in and every public member of the built-in types, fed a tripwired object and the
    names / format strings of its private attributes in the first argument positions."""
    import builtins
    out = []
    recv = {'str': "'{0._x}'", 'bytes': None, 'int': '1', 'float': 'fl', 'list': 'l', 'dict': 'd', 'tuple': 't', 'bool': None}
    argsets = ['o', "o, '_x'", "'_x', o", "'{0._x}', o", "o, '_x', 0", "[o], '_x'", "'{0._x}', [o]", "d", "'_x'"]
    for w in WHITELIST_DOC:
        obj = getattr(builtins, w)
        for a in argsets:
            out.append(f'{w}({a})')
        out.append(f"list(map({w}, [o], ['_x']))")
        out.append(f"list(map({w}, ['{{0._x}}'], [o]))")
        out.append(f'list(filter({w}, [o]))')
        if isinstance(obj, type):
            for m in [n for n in dir(obj) if not n.startswith('_')]:
                for a in argsets[:7]:
                    out.append(f'({w}.{m})({a})')
                out.append(f"list(map(({w}.{m}), ['{{0._x}}'], [o]))")
                r = recv.get(w)
                if r:
                    out.append(f'(({r}).{m})(o)')
                    out.append(f"(({r}).{m})(o, '_x')")
                    out.append(f"(({r}).{m})('_x')")
    return out


def name_probe():
    out = []
    for n in TEMPTING + WHITELIST_DOC + LOCALS:
        out += [n, f"({n})(o, '_x')", f'{n}.pub', f'o.pub + {n}', f'[{n}]']
    return out


def ops_probe(ops):
    """Every operator of the running implementation applied to a tripwired object and the name of a private attribute."""
    out = []
    for _, t in ops:
        if not all(32 < ord(c) < 127 for c in t) or t in ('[', '.'):
            continue
        sp = ' ' if t.isalpha() else ''
        out += [f"o{sp}{t}{sp}'_x'", f"'_x'{sp}{t}{sp}o", f"o{sp}{t}{sp}_x", f"{t}{sp}o", f"o{sp}{t}{sp}p", f"d{sp}{t}{sp}'_k'",
                f"(o{sp}{t}{sp}'_secret'){sp}{t}{sp}'_'", f"{t}{sp}'_x'", f"o{sp}{t}{sp}('_x')", f"(o){sp}{t}{sp}(n)",
                f"1{sp}{t}{sp}2", f"'a'{sp}{t}{sp}'b'", f"l{sp}{t}{sp}l", f"n{sp}{t}{sp}0"]
    return out


FRAME_ESCAPE = ("((((((list(zip((iter((g.walk), 0)), [1])))[0])[0]).gi_frame).f_builtins)['getattr'])(g, '_x')")


# code points that Unicode compatibility normalisation (NFKC/NFKD) turns into "_", a zero-width joiner, a combining mark:
# spellings of a private name that do not START with the ASCII underscore but could be made to resolve to it
UNDERSCORE_LIKE = ['\uff3f', '\ufe33', '\ufe34', '\ufe4d', '\ufe4e', '\ufe4f']
CONFUSABLE = ([u + n[1:] for u in UNDERSCORE_LIKE for n in ('_x', '_secret', '__y', '_Trip__y', '__class__', '__dict__')]
              + ['\u200d_x', 'x\u0301', '\uff58', '\u2139d'])


def confusable_family():
    out = []
    for n in CONFUSABLE:
        out += [f'o.{n}', f'(o).{n}', f'p.child.{n}', f'(l[0]).{n}', f'o.{n}.real', f'(o.{n}) == 42', f'o . {n}',
                f"'{{0.{n}}}'.format(o)", f"o['{n}']", f'{n}', f'o.pub.{n}']
    return out


def gen_cases(tier, rng, ops=()):
    cases = []
    e0, e1, e2 = std_env(0), std_env(1), data_env()
    for s in confusable_family():
        cases.append({'expr': s, 'env': e0, 'stream': 'confusable'})
    for s in ops_probe(ops):
        cases.append({'expr': s, 'env': e0, 'stream': 'operators'})
    for s in d12_family():
        cases.append({'expr': s, 'env': e0, 'stream': 'd12'})
    for s in caps_probe():
        cases.append({'expr': s, 'env': e0, 'stream': 'caps'})
    for s in name_probe():
        cases.append({'expr': s, 'env': e0, 'stream': 'names'})
    n_rand = 2500 if tier == 'quick' else 100000
    for i in range(n_rand):
        s = gen_expr(rng)
        env = e0 if i % 5 else (e1 if i % 10 else e2)
        cases.append({'expr': s, 'env': env, 'stream': 'grammar'})
        if i % 2 == 0:
            cases.append({'expr': mutate(rng, s), 'env': env, 'stream': 'mutated'})
    for i in range(n_rand // 2):
        s = gen_typed(rng)
        cases.append({'expr': s, 'env': e0, 'stream': 'walk'})
        if i % 4 == 0:
            cases.append({'expr': mutate(rng, s), 'env': e0, 'stream': 'mutated'})
    for i in range(n_rand // 5):
        # (the real parser mis-counts arguments once an argument is parenthesised or contains an operator, so several
        #  arguments are bare names and only a single argument may be a complex expression)
        k = rng.choice([1, 1, 2, 2, 3])
        if k == 1:
            argsel = [rng.choice([(0, '(o)'), (1, '(o.child)'), (2, '(t[0])'), (0, "(d['a'])"), (2, '((o.data)[0])'), (1, 'p')])]
        else:
            argsel = [rng.choice([(0, 'o'), (1, 'p'), (2, 'q'), (0, 'from'), (1, 'to')]) for _ in range(k)]
        f = gen_format_typed(rng, [a for a, _ in argsel])
        if i % 5 == 0:
            f = mutate(rng, f)
        if "'" in f and '"' in f:
            continue
        shape = rng.choice(['{q}.format({a})', '{q}.format({a})', 'str.format({q}, {a})', '({q}.format)({a})'])
        if k == 1 and shape.startswith('str.format'):
            shape = '{q}.format({a})'
        cases.append({'expr': shape.replace('{q}', quote(f)).replace('{a}', ', '.join(x for _, x in argsel)),
                      'env': e0, 'stream': 'format-walk'})
    n_fmt = 1200 if tier == 'quick' else 50000
    for i in range(n_fmt):
        f = gen_format_string(rng)
        if i % 3 == 0:
            f = mutate(rng, f)
        if "'" in f and '"' in f:
            continue
        shape = rng.choice(["{q}.format(o)", "{q}.format(o, p)", "{q}.format(l, 5)", "{q}.format(d)", "{q}.format_map(d)",
                            "{q}.format_map(dict([['a', o], ['k', p]]))", "str.format({q}, o, 2)", "{q}.format(1, 'x')",
                            "{q}.format(q, o)", "{q}.format_map(o)", "{q}.format((o, p), d)"])
        cases.append({'expr': shape.replace('{q}', quote(f)), 'env': e0, 'stream': 'format'})
    for s in d12_family()[::3]:
        for _ in range(2 if tier == 'quick' else 10):
            cases.append({'expr': mutate(rng, s), 'env': e0, 'stream': 'mutated'})
    cases.append({'expr': FRAME_ESCAPE, 'env': e1, 'stream': 'frame'})
    for s in TREENODE_EXPRS:
        cases.append({'expr': s, 'env': treenode_env(), 'stream': 'treenode'})
    return cases


# ------------------------------------------------------------------ serialisation (Python -> Gallina)

def cstr(s):
    if all(32 <= ord(c) <= 126 for c in s):
        return '"' + s.replace('"', '""') + '"'
    return '(bs [' + '; '.join(str(b) for b in s.encode('utf-8', 'surrogatepass')) + '])'


def cval(v):
    k, x = next(iter(v.items()))
    if k == 'i':
        return f'(VInt ({x})%Z)'
    if k == 's':
        return f'(VStr {cstr(x)})'
    if k == 'b':
        return f'(VBool {"true" if x else "false"})'
    if k == 'n':
        return 'VNone'
    if k == 'f':
        return f'(VFloat {cstr(str(x))})'
    if k in ('l', 't'):
        return f'({"VList" if k == "l" else "VTuple"} [' + '; '.join(cval(e) for e in x) + '])'
    if k == 'd':
        return '(VDict [' + '; '.join(f'({cval(a)}, {cval(b)})' for a, b in x) + '])'
    if k == 'o':
        return f'(VObj {x})'
    if k == 'g':
        return 'VForeign'
    if k == 'bi':
        return f'(VBuiltin {cstr(x)})'
    if k == 'x':
        return 'VOpaque'
    raise ValueError(v)


def ctok(t):
    k = t[0]
    if k == 'int':
        return f'(TInt ({t[1]})%Z)'
    if k == 'float':
        return f'(TFloat {cstr(t[1])})'
    if k == 'str':
        return f'(TStr {cstr(t[1])})'
    if k == 'id':
        return f'(TId {cstr(t[1])})'
    if k == 'coll':
        if t[2] not in ('tuple', 'list'):
            return 'TOther'
        return f'(TColl {t[1]} {"CTuple" if t[2] == "tuple" else "CList"})'
    if k == 'op':
        return f'(TOp {cstr(t[1])})'
    return 'TOther'


def env_terms(env):
    heap = '[' + '; '.join(
        f'({o["id"]}%nat, [' + '; '.join(f'({cstr(n)}, {cval(v)})' for n, v in o['attrs']) + '])' for o in env['objects']) + ']'
    loc = '[' + '; '.join(f'({cstr(n)}, {cval(v)})' for n, v in env['locals']) + ']'
    return heap, loc


def env_key(env):
    return json.dumps(env, sort_keys=True)


def env_defs(envs):
    """Gallina definitions of the distinct environments of a batch, and the name table (the case terms refer to them
    by name so that a case file stays small)."""
    names, defs = {}, []
    for env in envs:
        k = env_key(env)
        if k in names:
            continue
        i = len(names)
        heap, loc = env_terms(env)
        defs.append(f'Definition env_heap_{i} : heap := {heap}.\nDefinition env_locals_{i} : env := {loc}.')
        names[k] = (f'env_heap_{i}', f'env_locals_{i}')
    return '\n'.join(defs) + '\n', names


def case_term(item, rec, names=None):
    env = item['env']
    if names is not None:
        heap, loc = names[env_key(env)]
    else:
        heap, loc = env_terms(env)
    reads = '[' + '; '.join(f'({i}%nat, {cstr(n)})' for i, n in rec['reads']) + ']'
    res = '[' + '; '.join(cstr(n) for n in rec['resolved']) + ']'
    out = rec['out']
    if 'exc' in out:
        o = f'(ObsExc {cstr(out["exc"])})'
    elif 'tok' in out['val']:
        o = f'(ObsTok {ctok(out["val"]["tok"])})'
    else:
        o = f'(ObsVal {cval(out["val"])})'
    rpn = '[' + '; '.join(ctok(t) for t in rec['rpn']) + ']'
    return f'(Build_case {rpn} {heap} {loc} {reads} {res} {o})'


# ------------------------------------------------------------------ check

def findings():
    fs = list(common.known_findings(PROP))
    if os.environ.get('C19_DEV_KNOWN') == '1':
        p = os.path.join(common.VERIF, 'corpus', 'C19.known.json')
        if os.path.exists(p):
            have = {f['id'] for f in fs}
            fs += [f for f in json.load(open(p))['findings'] if f['property'] == PROP and f['id'] not in have]
    return fs


def coq_eval_local(wd, name, header, case_terms, evals, chunk=250, timeout=900):
    """common.coq_eval_cases with chunk-LOCAL case numbers (a case file numbered 0..chunk-1: Coq parses unary nat
    literals in the thousands very slowly).  Returns (per-eval sorted global indices, error-or-None)."""
    import threading
    files = []
    for ci in range(0, len(case_terms), chunk):
        body = [header, 'Definition cases := [',
                ';\n'.join(f'({j}%nat, {t})' for j, t in enumerate(case_terms[ci:ci + chunk])), '].']
        body += [f'Eval vm_compute in ({e} cases).' for e in evals]
        path = wd.file(f'{name}_{ci // chunk}.v')
        with open(path, 'w') as f:
            f.write('\n'.join(body) + '\n')
        files.append((ci, path))
    results = [[] for _ in evals]
    errors = []
    lock = threading.Lock()
    sem = threading.Semaphore(common.NPROC)

    def work(ci, path):
        with sem:
            rc, out, err = common.coqc_file(path, timeout)
        with lock:
            if rc != 0:
                errors.append(f'{os.path.basename(path)}: rc={rc} {err[-800:]}')
                return
            blocks = common.eval_blocks(out)
            if len(blocks) != len(evals):
                errors.append(f'{os.path.basename(path)}: expected {len(evals)} blocks, got {len(blocks)}: {out[-400:]}')
                return
            for k, b in enumerate(blocks):
                results[k] += [ci + i for i in common.parse_nat_list(b)]
    threads = [threading.Thread(target=work, args=a) for a in files]
    for t in threads:
        t.start()
    for t in threads:
        t.join()
    return [sorted(r) for r in results], (errors[0] if errors else None)


def evaluate(run, wd, cases, st, tag):
    """Run the cases on the implementation and evaluate the Gallina verdict functions.
    Returns (kept [(case, record)], {verdict name: set of indices into kept})."""
    res = common.run_impl('pC19', 'impl_eval', cases, timeout_item=20)
    keep, terms, rejected = [], [], 0
    defs, names = env_defs([c['env'] for c in cases])
    for c, r in zip(cases, res):
        if 'ok' not in r:
            run.violation({'kind': 'internal-error', 'expr': c['expr'], 'env': c['env'], 'result': r})
            continue
        rec = r['ok']
        if 'parse_error' in rec:
            rejected += 1
            run.count(['rejected', c['expr']], nontrivial=False)
            continue
        keep.append((c, rec))
        terms.append(case_term(c, rec, names))
        run.count([c['expr'], c['env']['locals'][-1][0]], nontrivial=len(rec['rpn']) > 1)
    evals = ['bad_cases holds_C19', 'bad_cases (fun c => negb (kf_format_reads_private c))',
             'bad_cases (fun c => negb (kf_frame_escape c))']
    header = HEADER
    if st['models_ok']:
        evals += ['bad_cases corr_C19', 'bad_cases exact_C19']
        header += 'Require Import GTgen.ExprGen GT.ExprModel.\n'
    header += defs
    bad, err = coq_eval_local(wd, 'cases_' + tag, header, terms, evals)
    if err:
        run.violation({'kind': 'case-evaluation-failed', 'error': err}, no_input=True)
        return keep, None, rejected
    v = {'holds_false': set(bad[0]), 'kf_format_reads_private': set(bad[1]), 'kf_frame_escape': set(bad[2]),
         'corr_false': set(bad[3]) if len(bad) > 3 else set(), 'tainted': set(bad[4]) if len(bad) > 4 else set()}
    return keep, v, rejected


def model_view(wd, st, item, rec):
    if not st['models_ok']:
        return None
    out, err = common.coq_eval_terms(wd, 'view', HEADER + 'Require Import GTgen.ExprGen GT.ExprModel.\n',
                                     [f'model_view {case_term(item, rec)}'])
    return out[0] if out else err


def ensure_gen():
    """Until gen_expr is registered in py2coq.MODULES (as 'ExprGen') regenerate coq/gen/ExprGen.v here, fail-closed."""
    sys.path.insert(0, os.path.join(common.VERIF, 'translator'))
    import py2coq
    if 'ExprGen' in py2coq.MODULES:
        return None
    import gen_expr
    path = os.path.join(common.COQ, 'gen', 'ExprGen.v')
    with common.Lock():
        try:
            common.write_if_changed(path, gen_expr.gen_expr(common.REPO))
            return None
        except Exception as e:
            common.write_if_changed(path, '(* translator failed: %s *)\nDefinition translator_failed : True := 0.\n'
                                    % str(e).replace('*)', '* )'))
            return f'{type(e).__name__}: {e}'


def build(model_targets, proof_targets):
    err = ensure_gen()
    st = common.build(model_targets, proof_targets)
    if 'ExprGen' not in st['translator']:
        st['translator']['ExprGen'] = err
        if err and st['broken']:
            st['broken'].setdefault('translator_errors', {})['ExprGen'] = err
    return st


def check(tier, seed):
    run = common.Run(PROP, tier, seed)
    wd = common.Workdir(PROP)
    rng = random.Random(seed)
    try:
        st = build(MODEL_TARGETS, PROOF_TARGETS)
        common.proof_evidence(run, wd, PROP, st, THEOREMS)
        fs = findings()
        open_classes = {f['class']: f for f in fs if f['status'] == 'open'}
        corpus = []
        cp = os.path.join(common.VERIF, 'corpus', 'C19.jsonl')
        if os.path.exists(cp):
            corpus = [json.loads(l) for l in open(cp) if l.strip()]
        for c in corpus:
            c['stream'] = 'corpus'
            c.setdefault('env', std_env(1))
        r_ops = common.run_impl('pC19', 'impl_ops', [{}], nproc=1)[0]
        ops = r_ops.get('ok') or []
        cases = corpus + gen_cases(tier, rng, ops)
        keep, v, rejected = evaluate(run, wd, cases, st, 'main')
        known_hit = {}
        streams = {}
        if v is not None:
            for i, (c, rec) in enumerate(keep):
                streams[c['stream']] = streams.get(c['stream'], 0) + 1
            n_viol = 0
            for i in sorted(v['holds_false']):
                c, rec = keep[i]
                cls = [k for k in ('kf_format_reads_private', 'kf_frame_escape') if i in v[k] and k in open_classes]
                if cls:
                    known_hit.setdefault(cls[0], []).append(c['expr'])
                    continue
                if n_viol < 3:
                    run.violation({'kind': 'private-attribute-read-or-foreign-name-resolved', 'expr': c['expr'], 'env': c['env'],
                                   'rpn': rec['rpn'], 'reads': rec['reads'], 'resolved': rec['resolved'], 'out': rec['out'],
                                   'replay': './check C19 --replay <this file>'})
                n_viol += 1
            if st['broken'] and not run.violations:
                # tie broken (translator / model / proof no longer builds): look harder for a failing input
                for s2 in range(3):
                    more = gen_cases('thorough' if tier == 'quick' else tier, random.Random(seed * 1000 + s2 + 7), ops)[:30000]
                    k2, v2, _ = evaluate(run, wd, more, st, f'search{s2}')
                    if v2 is None:
                        break
                    for i in sorted(v2['holds_false']):
                        c, rec = k2[i]
                        if any(i in v2[k] and k in open_classes for k in ('kf_format_reads_private', 'kf_frame_escape')):
                            continue
                        run.violation({'kind': 'private-attribute-read-or-foreign-name-resolved', 'expr': c['expr'],
                                       'env': c['env'], 'rpn': rec['rpn'], 'reads': rec['reads'], 'resolved': rec['resolved']})
                        break
                    if run.violations:
                        break
                if not run.violations:
                    run.violation({'kind': 'tie-broken', 'what': st['broken']}, no_input=True)
            elif v['corr_false'] and not run.violations:
                i = sorted(v['corr_false'])[0]
                c, rec = keep[i]
                run.violation({'kind': 'correspondence-broken',
                               'what': 'corr_C19: the real evaluator did something else than the model on this input',
                               'expr': c['expr'], 'env': c['env'], 'rpn': rec['rpn'], 'observed': rec,
                               'model': model_view(wd, st, c, rec), 'disagreeing_cases': len(v['corr_false'])}, no_input=True)
            for k, f in open_classes.items():
                if k in known_hit:
                    ex = known_hit[k]
                    replay = f.get('replay', {}).get('expr')
                    shown = replay if replay in ex else ex[0]
                    run.known(f"{f['id']} {f['what']} [{len(ex)} cases this run, e.g. {shown}]")
            run.cov['traces_validated_against_impl'] = len(keep)
            run.cov['exact_fragment_cases'] = len(keep) - len(v['tainted'])
            run.cov['over_approximated_cases'] = len(v['tainted'])
            run.cov['holds_false_known'] = {k: len(x) for k, x in known_hit.items()}
        run.cov['rule'] = ('expression strings: D12 family (format/format_map x private names x shapes), capability probe (every '
                           'whitelisted built-in and every public member of the whitelisted types applied to a tripwired object and '
                           'to the names / format strings of its private attributes, also through map/filter), name probe (tempting '
                           'built-in names), seeded grammar (members incl. private/dunder, calls, indexing, literals, all operators, '
                           'ternary, collections), character mutations, random replacement-field format strings; parsed by the real '
                           'parser; environments: tripwired objects nested in objects/dicts/lists/tuples, plain data; non-trivial = '
                           'RPN longer than one token; distinct by (expression, environment)')
        run.cov['samples'] = [c['expr'] for c, _ in keep[:2]] + [c['expr'] for c, _ in keep[len(keep) // 2:len(keep) // 2 + 3]]
        run.cov['streams'] = streams
        run.cov['rejected_by_parser'] = rejected
        run.assumptions = ['trusted capability table: among the whitelisted built-ins and the public members of built-in types only '
                           'str.format / str.format_map read attributes named by data (ExprModel.fmt_methods); probed on every run '
                           'by the capability stream, not proved',
                           'environment objects are data objects (clean_env / clean_heap): no Python-level function, generator or '
                           'frame is reachable through public attributes; where that is false (TreeNode methods under --match-if) '
                           'the evaluator is escapable (finding D20)',
                           'calls of built-ins are summarised (opaque value); the correspondence is exact in the modelled fragment '
                           'and an over-approximation of the reads elsewhere',
                           'tokenizer and shunting-yard are not modelled: the model evaluates the RPN the real parser produced, and '
                           'the theorems quantify over arbitrary RPN']
        return run.finish()
    finally:
        wd.cleanup()


def replay(path):
    obj = json.load(open(path))
    wd = common.Workdir(PROP + 'r')
    try:
        st = build(MODEL_TARGETS, [])
        if 'expr' not in obj:
            print(json.dumps(obj, indent=1)[:3000])
            print(f'VIOLATION property={PROP} replay={path} no-failing-input-found')
            return 1
        item = {'expr': obj['expr'], 'env': obj.get('env') or std_env(1)}
        r = common.run_impl('pC19', 'impl_eval', [item], nproc=1)[0]
        print(json.dumps(r, indent=1)[:3000])
        if 'ok' not in r:
            bad = True
        elif 'parse_error' in r['ok']:
            bad = False
        else:
            b, err = common.coq_eval_cases(wd, 'replay', HEADER, [case_term(item, r['ok'])], ['bad_cases holds_C19'])
            bad = bool(err) or bool(b[0])
            print('model:', model_view(wd, st, item, r['ok']))
        if bad:
            print(f'VIOLATION property={PROP} replay={path}')
            return 1
        print('replay: property holds on this input')
        return 0
    finally:
        wd.cleanup()
