"""C01 - the edit script turns the first document into the second."""
from harness import scriptcheck

PROP = 'C01'
THEOREMS = ['C01', 'C01_holds']


def check(tier, seed):
    return scriptcheck.check(PROP, tier, seed, 'holds_C01', THEOREMS, ext=True,
                             rule_extra='Extended stream (outside the model, property evaluated on the implementation script alone): '
                                        'directly built MultiSetNodes with repeated elements, nested in lists/mappings/multisets.')


def replay(path):
    return scriptcheck.replay(PROP, path, 'holds_C01')
