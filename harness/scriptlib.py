"""Shared by C01/C02/C03/C10 (and C08/C09): document generators, the implementation driver that extracts the
complete nested edit script with all own costs, and the Python -> Gallina serialiser.
No property logic: indices are resolved by object identity, verdicts are computed in Coq."""
import json
import math
import random

OPTION_SETS = [(ds, lm) for ds in ('auto', 'match', 'none') for lm in ('on', 'off', 'same')]


def options_kwargs(ds, lm):
    return dict(allow_key_edits=ds != 'none', auto_match_keys=ds == 'auto',
                allow_list_edits=lm != 'off', allow_list_edits_when_same_length=lm != 'same')


# ------------------------------------------------------------------ implementation side

def _quiet():
    import graphtage
    import graphtage.printer
    import graphtage.tree
    import graphtage.levenshtein
    for m in (graphtage.printer, graphtage.tree, graphtage.levenshtein):
        m.DEFAULT_PRINTER.quiet = True


EXT_TIMEOUT = 12


class ItemTimeout(BaseException):
    pass


ALLOW_DUPLICATES = [False]     # set for "extended" items: multisets with repeated elements (outside the model, spec-level only)


def node_children(n):
    import graphtage as g
    if isinstance(n, g.KeyValuePairNode):
        return [n.key, n.value]
    if isinstance(n, g.ListNode):
        return list(n._children)
    if isinstance(n, g.FixedKeyDictNode):
        return list(n._children.values())
    if isinstance(n, g.MultiSetNode):
        return list(n._children.elements())
    if isinstance(n, g.LeafNode):
        return []
    raise ValueError(f'unsupported node class {type(n).__name__}')


def ser_tree(n):
    """Tree as nested JSON: ['leaf', kind, text, num, exp] | ['lst', ale, alsl, [..]] | ['kvp', ake, k, v] |
    ['mset', amk, [..]] | ['fdict', [..]]"""
    import graphtage as g
    if isinstance(n, g.NullNode):
        return ['leaf', 'KNull', 'None', 0, 0]
    if isinstance(n, g.StringNode):
        o = n.object
        if isinstance(o, bytes):
            raise ValueError('bytes string')
        return ['leaf', 'KStr', o, 0, 0]
    if isinstance(n, g.LeafNode):
        o = n.object
        if isinstance(o, bool):
            return ['leaf', 'KBool', str(o), int(o), 0]
        if isinstance(o, int):
            return ['leaf', 'KInt', str(o), o, 0]
        if isinstance(o, float):
            if math.isnan(o) or math.isinf(o):
                raise ValueError('non-finite float')
            num, den = o.as_integer_ratio()
            return ['leaf', 'KFloat', str(o), num, den.bit_length() - 1]
        raise ValueError(f'unsupported leaf object {type(o).__name__}')
    if isinstance(n, g.KeyValuePairNode):
        return ['kvp', bool(n.allow_key_edits), ser_tree(n.key), ser_tree(n.value)]
    if isinstance(n, g.ListNode):
        return ['lst', bool(n.allow_list_edits), bool(n.allow_list_edits_when_same_length),
                [ser_tree(c) for c in n._children]]
    if isinstance(n, g.FixedKeyDictNode):
        return ['fdict', [ser_tree(c) for c in n._children.values()]]
    if isinstance(n, g.MultiSetNode):
        if any(v != 1 for v in n._children.values()) and not ALLOW_DUPLICATES[0]:
            raise ValueError('multiset with duplicate elements')
        return ['mset', bool(n.auto_match_keys), [ser_tree(c) for c in n._children.elements()]]
    raise ValueError(f'unsupported node class {type(n).__name__}')


def _tighten(e):
    # the library's own idiom (Edit.has_non_zero_cost / get_all_edit_contexts): never call
    # tighten_bounds() on an edit whose bounds are already definitive
    n = 0
    while not e.bounds().definitive() and e.tighten_bounds():
        n += 1
        if n > 1000000:
            raise RuntimeError('tighten_bounds does not converge')


def _index(children, used, node, by_eq=False):
    for k, c in enumerate(children):
        if k not in used and c is node:
            used.add(k)
            return k
    if by_eq:
        for k, c in enumerate(children):
            if k not in used and c == node:
                used.add(k)
                return k
    for k, c in enumerate(children):        # already accounted for once: name it again (the script is then invalid)
        if c is node:
            return k
    raise LookupError('sub-edit node is not a child of the edited container')


def ser_edit(e):
    """Nested script with own costs; children are named by position."""
    import graphtage as g
    from graphtage.levenshtein import EditDistance
    from graphtage.sequences import FixedLengthSequenceEdit
    from graphtage.multiset import MultiSetEdit
    name = type(e).__name__
    if isinstance(e, g.StringEdit):
        ops = []
        for s in e.edit_distance.edits():
            if isinstance(s, g.Match):
                a, b = s.from_node.object, s.to_node.object
                ops.append(['keep', ord(a)] if a == b else ['sub', ord(a), ord(b)])
            elif isinstance(s, g.Remove):
                ops.append(['del', ord(s.from_node.object)])
            elif isinstance(s, g.Insert):
                ops.append(['add', ord(s.to_insert.object)])
            else:
                raise ValueError('unexpected sub-edit of a string edit: ' + type(s).__name__)
        _tighten(e)
        return ['str', cost_of(e), ops]
    if isinstance(e, (EditDistance, FixedLengthSequenceEdit, MultiSetEdit, g.FixedKeyDictNodeEdit, g.KeyValuePairEdit)):
        kind = {'EditDistance': 'KEditDist', 'FixedLengthSequenceEdit': 'KFixedLen', 'MultiSetEdit': 'KMultiSet',
                'FixedKeyDictNodeEdit': 'KFixedDict', 'KeyValuePairEdit': 'KKvp'}[name]
        cf, ct = node_children(e.from_node), node_children(e.to_node)
        uf, ut = set(), set()
        subs = []
        for s in list(e.edits()):
            if isinstance(s, g.Remove):
                subs.append(['rem', _index(cf, uf, s.from_node), None, s])
            elif isinstance(s, g.Insert):
                subs.append(['ins', _index(ct, ut, s.to_insert), None, s])
            else:
                i = _index(cf, uf, s.from_node)
                j = _index(ct, ut, s.to_node, by_eq=True)
                subs.append(['pair', i, j, s])
        out = []
        for s in subs:
            if s[0] == 'pair':
                out.append(['pair', s[1], s[2], ser_edit(s[3])])
            else:
                _tighten(s[3])
                out.append([s[0], s[1], cost_of(s[3])])
        _tighten(e)
        return ['comp', kind, cost_of(e), out]
    _tighten(e)
    if isinstance(e, g.Match):
        return ['match', cost_of(e)]
    if isinstance(e, g.Replace):
        return ['replace', cost_of(e)]
    raise ValueError('unexpected edit class ' + name)


def cost_of(e):
    b = e.bounds()
    if not b.definitive():
        raise RuntimeError(f'{type(e).__name__} is not definitive after tightening: {b}')
    return int(b.upper_bound)


def paths_of(root):
    """id(node) -> path (first occurrence)"""
    out = {}
    stack = [(root, [])]
    while stack:
        n, p = stack.pop()
        out.setdefault(id(n), p)
        for k, c in enumerate(node_children(n)):
            stack.append((c, p + [k]))
    return out


def build_pair(item):
    import graphtage
    from graphtage import json as gjson
    opts = graphtage.BuildOptions(**options_kwargs(*item['opts']))
    a = gjson.build_tree(item['a'], opts)
    b = gjson.build_tree(item['b'], opts)
    return a, b, opts


def build_ext(v, opts):
    """json.build_tree extended by {"__mset__": [...]}: a MultiSetNode built directly from the (possibly repeated)
    elements - the node class Python sets and hand-built trees use; everything else goes through the real json.build_tree
    logic (lists and mappings are rebuilt here only so that a multiset can occur below them)."""
    import graphtage as g
    from graphtage import json as gjson
    if isinstance(v, dict) and set(v) == {'__mset__'}:
        return g.MultiSetNode([build_ext(x, opts) for x in v['__mset__']])
    if isinstance(v, list):
        return g.ListNode([build_ext(x, opts) for x in v], allow_list_edits=opts.allow_list_edits,
                          allow_list_edits_when_same_length=opts.allow_list_edits_when_same_length)
    if isinstance(v, dict):
        items = {gjson.build_tree(k, options=opts, force_leaf_node=True): build_ext(x, opts) for k, x in v.items()}
        if opts.allow_key_edits:
            d = g.DictNode.from_dict(items)
            d.auto_match_keys = opts.auto_match_keys
            return d
        return g.FixedKeyDictNode.from_dict(items)
    return gjson.build_tree(v, opts)


def impl_script(item):
    """item: {'a': json value, 'b': json value, 'opts': [dict strategy, list mode]}; with 'ext': true the values may
    contain {"__mset__": [...]} (multisets with repeated elements; outside the model: evaluated at spec level only)"""
    if item.get('ext'):
        import graphtage
        ALLOW_DUPLICATES[0] = True

        def build():
            opts = graphtage.BuildOptions(**options_kwargs(*item['opts']))
            return build_ext(item['a'], opts), build_ext(item['b'], opts)
        import signal

        def on_alarm(signum, frame):
            # a BaseException: logging (where a spinning repeat_until_tightened spends its time) swallows Exceptions
            raise ItemTimeout('the implementation did not finish within %d s' % EXT_TIMEOUT)
        signal.signal(signal.SIGALRM, on_alarm)
        signal.setitimer(signal.ITIMER_REAL, EXT_TIMEOUT, 1.0)      # re-armed every second until it gets through
        try:
            r = run_script(build)
        finally:
            signal.setitimer(signal.ITIMER_REAL, 0)
        r['ext'] = True
        return r
    return run_script(lambda: build_pair(item)[:2])


def run_script(build, unwrap=None, ser_top=None):
    """build() -> (a, b), fresh trees on every call.  unwrap(node) -> the node whose children are named by the
    oracle paths (identity by default; C09 unwraps PLISTNode); ser_top(edit) serialises the top-level edit
    (ser_edit by default)."""
    import graphtage as g
    from graphtage.multiset import MultiSetEdit
    _quiet()
    unwrap = unwrap or (lambda n: n)
    ser_top = ser_top or ser_edit
    a, b = build()
    created = []
    orig_init = MultiSetEdit.__init__

    def init(self, *x, **k):
        created.append(self)
        return orig_init(self, *x, **k)
    MultiSetEdit.__init__ = init
    try:
        edit = a.edits(b)
        # the library's own driving loop (TreeNode.diff / get_all_edit_contexts)
        while edit.valid and not edit.is_complete() and edit.tighten_bounds():
            pass
        script = ser_top(edit)
        # oracle: the matchings the implementation computed; edits it never had to match are forced now
        # (their results are not compared; they only complete the oracle for non-selected alternatives)
        done = 0
        rounds = 0
        while done < len(created) and rounds < 10000:
            ms = created[done]
            done += 1
            rounds += 1
            for _, (_, edge) in ms._matcher.matching.items():
                _tighten(edge)
            for kv in ms._matched_kvp_edits:
                _tighten(kv)
        # D36's signature on the implementation object: a matcher whose node-keyed dictionaries collapsed repeated nodes
        collapsed = any(ms._matcher._match is not None and
                        len(ms._matcher._match) < min(len(ms._matcher.from_nodes), len(ms._matcher.to_nodes))
                        for ms in created)
        pa, pb = paths_of(unwrap(a)), paths_of(unwrap(b))
        matchings = []
        for ms in created:
            m = ms._matcher
            if not m.from_nodes or not m.to_nodes:
                continue
            fi = {id(n): k for k, n in enumerate(m.from_nodes)}
            ti = {id(n): k for k, n in enumerate(m.to_nodes)}
            pairs = [[fi[id(f)], ti[id(t)]] for f, (t, _) in m._match.items()]
            if id(ms.from_node) in pa and id(ms.to_node) in pb:
                matchings.append([pa[id(ms.from_node)], pb[id(ms.to_node)], pairs])
    finally:
        MultiSetEdit.__init__ = orig_init
    # removal orders of fixed-key dictionary edits, read off the script (keyed by node paths)
    orders = []

    def walk(s, p, q):
        if s[0] != 'comp':
            return
        if s[1] == 'KFixedDict':
            rem = [x[1] for x in s[3] if x[0] == 'rem']
            if len(rem) > 1:
                orders.append([p, q, rem])
        for x in s[3]:
            if x[0] == 'pair':
                walk(x[3], p + [x[1]], q + [x[2]])
    walk(script if script[0] != 'plist2' else script[1], [], [])
    # the other views of the total (fresh trees: the views must not share state)
    a2, b2 = build()
    flat = 0
    for e in a2.get_all_edits(b2):
        _tighten(e)
        flat += cost_of(e)
    a3, b3 = build()
    d = a3.diff(b3)
    edited = d.edited_cost()
    return {'a': ser_tree(unwrap(a)), 'b': ser_tree(unwrap(b)), 'script': script, 'matchings': matchings, 'orders': orders,
            'flat_total': flat, 'edited_cost': int(edited), 'collapsed': bool(collapsed)}


# ------------------------------------------------------------------ Gallina terms

def z(n):
    return f'({n})' if n < 0 else str(n)


def codes(s):
    return '[' + ';'.join(str(ord(c)) for c in s) + ']'


def tree_term(t):
    if t[0] == 'leaf':
        return f'(Leaf (Build_leaf {t[1]} {codes(t[2])} {z(t[3])} {z(t[4])}))'
    if t[0] == 'lst':
        return f'(Lst {b(t[1])} {b(t[2])} [{";".join(tree_term(c) for c in t[3])}])'
    if t[0] == 'kvp':
        return f'(Kvp {b(t[1])} {tree_term(t[2])} {tree_term(t[3])})'
    if t[0] == 'mset':
        return f'(MSet {b(t[1])} [{";".join(tree_term(c) for c in t[2])}])'
    if t[0] == 'fdict':
        return f'(FDict [{";".join(tree_term(c) for c in t[1])}])'
    raise ValueError(t[0])


def b(x):
    return 'true' if x else 'false'


def sop_term(o):
    return {'keep': lambda: f'SKeep {o[1]}', 'sub': lambda: f'SSub {o[1]} {o[2]}',
            'del': lambda: f'SDel {o[1]}', 'add': lambda: f'SAdd {o[1]}'}[o[0]]()


def edit_term(e):
    if e[0] == 'match':
        return f'(EMatch {z(e[1])})'
    if e[0] == 'replace':
        return f'(EReplace {z(e[1])})'
    if e[0] == 'str':
        return f'(EStr {z(e[1])} [{";".join(sop_term(o) for o in e[2])}])'
    subs = []
    for s in e[3]:
        if s[0] == 'pair':
            subs.append(f'SPair {s[1]} {s[2]} {edit_term(s[3])}')
        elif s[0] == 'rem':
            subs.append(f'SRem {s[1]} {z(s[2])}')
        else:
            subs.append(f'SIns {s[1]} {z(s[2])}')
    return f'(EComp {e[1]} {z(e[2])} [{";".join(subs)}])'


def nats(l):
    return '[' + ';'.join(f'{x}%nat' for x in l) + ']'


def case_term(r):
    return (f'(Build_script_case {tree_term(r["a"])} {tree_term(r["b"])} {edit_term(r["script"])} '
            f'{z(r["flat_total"])} {z(r["edited_cost"])})')


def corr_term(r):
    ms = ';'.join(f'({nats(p)}, {nats(q)}, [{";".join(f"({x}%nat,{y}%nat)" for x, y in pairs)}])'
                  for p, q, pairs in r['matchings'])
    od = ';'.join(f'({nats(p)}, {nats(q)}, {nats(o)})' for p, q, o in r['orders'])
    return f'(Build_corr_case {case_term(r)} (Build_oracle [{ms}] [{od}]))'


SCRIPT_HEADER = ('From Coq Require Import ZArith List Bool.\nRequire Import GT.PyBase GT.Data GT.ScriptSpec.\n'
                 'Import ListNotations.\nOpen Scope Z_scope.\n')


# ------------------------------------------------------------------ generators

ALPHA = ['a', 'b', 'ab', 'abc', 'x', '', '1', '10', 'True', 'None', 'hello', 'hallo', 'k', 'é', 'aXb']
KEYS = ['a', 'b', 'c', 'key', 'kez', 'aaaaaaaX', 'aaaaaaaY', 'k1', 'k2', '']


def gen_scalar(rng):
    r = rng.random()
    if r < 0.3:
        return rng.choice([0, 1, 2, 5, 10, 11, 100, -1, 12345])
    if r < 0.55:
        return rng.choice(ALPHA)
    if r < 0.65:
        return rng.choice([True, False])
    if r < 0.75:
        return None
    if r < 0.85:
        return rng.choice([0.5, 1.0, 1.5, 2.25, -0.0, 1e16, 10.0])
    return ''.join(rng.choice('abc') for _ in range(rng.randint(0, 6)))


def gen_value(rng, depth, width):
    r = rng.random()
    if depth <= 0 or r < 0.35:
        return gen_scalar(rng)
    if r < 0.7:
        return [gen_value(rng, depth - 1, width) for _ in range(rng.randint(0, width))]
    ks = rng.sample(KEYS, rng.randint(0, min(width, len(KEYS))))
    return {k: gen_value(rng, depth - 1, width) for k in ks}


def mutate(rng, v, depth=0):
    """A near copy of v: one or two local edits."""
    r = rng.random()
    if isinstance(v, list):
        v = list(v)
        if v and r < 0.4:
            i = rng.randrange(len(v))
            v[i] = mutate(rng, v[i], depth + 1)
        elif r < 0.55:
            v.insert(rng.randint(0, len(v)), gen_value(rng, 1, 2))
        elif v and r < 0.7:
            del v[rng.randrange(len(v))]
        elif len(v) > 1 and r < 0.8:
            i, j = rng.sample(range(len(v)), 2)
            v[i], v[j] = v[j], v[i]
        elif v and r < 0.88:
            v.insert(rng.randint(0, len(v)), v[rng.randrange(len(v))])       # duplicate an element
        elif r < 0.94:
            v = v + [gen_value(rng, 1, 2) for _ in range(rng.randint(1, 3))]  # surplus tail
        return v
    if isinstance(v, dict):
        v = dict(v)
        ks = list(v)
        if ks and r < 0.4:
            k = rng.choice(ks)
            v[k] = mutate(rng, v[k], depth + 1)
        elif ks and r < 0.55:
            k = rng.choice(ks)
            nk = rng.choice(KEYS)
            if nk not in v:
                v[nk] = v.pop(k)                                               # rename a key
        elif r < 0.7:
            v[rng.choice(KEYS)] = gen_value(rng, 1, 2)
        elif ks and r < 0.85:
            del v[rng.choice(ks)]
        elif ks:
            items = list(v.items())
            rng.shuffle(items)
            v = dict(items)                                                    # permute keys
        return v
    if r < 0.3:
        return gen_scalar(rng)
    if r < 0.45 and isinstance(v, (int, float)) and not isinstance(v, bool):
        return str(v) if rng.random() < 0.5 else float(v)                     # change a scalar's type only
    if r < 0.55 and isinstance(v, bool):
        return int(v)
    if isinstance(v, str) and r < 0.8:
        if v and rng.random() < 0.5:
            i = rng.randrange(len(v))
            return v[:i] + rng.choice('abxyz') + v[i + (rng.random() < 0.5):]
        return v + rng.choice(['', 'a', 'zz'])
    if r < 0.9:
        return gen_value(rng, 1, 2)
    return v


def gen_pair(rng, depth, width):
    a = gen_value(rng, depth, width)
    r = rng.random()
    if r < 0.08:
        return a, json.loads(json.dumps(a))
    if r < 0.8:
        bv = mutate(rng, a)
        if rng.random() < 0.35:
            bv = mutate(rng, bv)
        return a, bv
    return a, gen_value(rng, depth, width)


def gen_ext_pair(rng):
    """pairs of documents containing multisets with repeated elements (kept k >= 2 times, partly kept, nested)"""
    def mset(rng, depth):
        base = [gen_scalar(rng) if depth <= 0 or rng.random() < 0.7 else gen_value(rng, 1, 2) for _ in range(rng.randint(1, 3))]
        els = []
        for x in base:
            els += [x] * rng.choice([1, 2, 2, 3])
        rng.shuffle(els)
        return {'__mset__': els}

    def mutate_mset(rng, m):
        els = list(m['__mset__'])
        r = rng.random()
        if els and r < 0.35:
            els[rng.randrange(len(els))] = gen_scalar(rng)
        elif els and r < 0.6:
            del els[rng.randrange(len(els))]
        elif r < 0.85:
            els.insert(rng.randint(0, len(els)), rng.choice(els) if els and rng.random() < 0.5 else gen_scalar(rng))
        else:
            rng.shuffle(els)
        return {'__mset__': els}
    a = mset(rng, 1)
    b = mutate_mset(rng, a)
    if rng.random() < 0.4:
        b = mutate_mset(rng, b)
    r = rng.random()
    if r < 0.3:
        return [a, 1], [b, 1]
    if r < 0.5:
        return {'k': a, 'x': 1}, {'k': b, 'x': 2}
    if r < 0.6:
        return {'__mset__': [a, a, 1]}, {'__mset__': [a, b, 1]}
    return a, b


EXT_FIXED_PAIRS = [
    ({'__mset__': [1, 1, 2]}, {'__mset__': [1, 1, 3]}), ({'__mset__': [1, 1, 1, 2]}, {'__mset__': [1, 1, 3]}),
    ({'__mset__': [1, 1, 2]}, {'__mset__': [3, 3]}), ({'__mset__': ['a', 'a', 'b', 'b']}, {'__mset__': ['a', 'b', 'b', 'c']}),
    ([{'__mset__': [1, 1, 2]}, 5], [{'__mset__': [1, 1, 3]}, 5]), ({'__mset__': [[1], [1], 2]}, {'__mset__': [[1], [1], [2]]}),
    ({'__mset__': []}, {'__mset__': [1, 1]}), ({'__mset__': [1, 1]}, {'__mset__': []}),
]


def has_dup_mset_value(v):
    """pure serialiser-side mirror of ScriptKnown.kf_multiset_duplicates on the item's VALUE (used only when the
    implementation produced no trees at all): some {"__mset__": [...]} lists a JSON-equal element twice"""
    if isinstance(v, dict) and set(v) == {'__mset__'}:
        els = v['__mset__']
        keys = [json.dumps(x, sort_keys=True) for x in els]
        return len(set(keys)) < len(keys) or any(has_dup_mset_value(x) for x in els)
    if isinstance(v, list):
        return any(has_dup_mset_value(x) for x in v)
    if isinstance(v, dict):
        return any(has_dup_mset_value(x) for x in v.values())
    return False


def nontrivial(a, b):
    return a != b and (isinstance(a, (list, dict)) or isinstance(b, (list, dict)))


FIXED_PAIRS = [
    ([1, 2, 3], [9]), ([9], [1, 2, 3]), (5, ''), ('', 5), (1, '1'), ([1], [1.0]), ([True], [1]), (True, 1),
    ({'aaaaaaaX': 1, 'b': 5}, {'aaaaaaaY': 1}), (['', 1], [1]), ([], [None]), ([None], []),
    ([[1, 2], [3, 4]], [[1, 2], [3, 5]]), ([[1, 2], [3, [4, 5]]], [[1, 2], [3, [4, 6]], 7]),
    ({'a': [1, 2], 'b': {'c': 1}}, {'a': [1, 3], 'b': {'c': 2, 'd': 3}}),
    ({'a': 1, 'b': 2, 'c': 3}, {'c': 3, 'b': 2, 'a': 1}), ({'a': 1, 'b': 2, 'c': 3}, {'d': 4}),
    ('hello world', 'hallo wörld'), ('abc', ''), ('', 'abc'), ([1, 2, 3, 4], [1, 3, 2, 4]),
    ([{'a': 1}, {'b': 2}], [{'b': 2}, {'a': 1}]), ({'k': [1, {'x': 'y'}]}, {'k': [1, {'x': 'z'}, 2]}),
    # Python-equal scalars of different type inside the trimmed equal prefix / suffix of a list that differs elsewhere
    ([1, 2, 3], [1.0, 2, 4, 5]), ([0, 'a', True], [False, 'b', 1]), ([5, 'x', 2.0], ['y', 'z', 2]),
    ([[1, 2], 7, 1], [[1.0, 2], 8, 9, True]), ({'k': [1, 2, 3]}, {'k': [1.0, 2, 4, 5]}),
]


def gen_cross_type_pair(rng):
    """two lists that share a prefix and/or suffix of Python-equal scalars of DIFFERENT type (1 / 1.0 / true, 0 / 0.0 / false)
    and differ in the middle, optionally nested"""
    twins = [(1, 1.0), (1, True), (1.0, True), (0, False), (0, 0.0), (2, 2.0), (10, 10.0), (0.0, False)]

    def side(n):
        ps = [rng.choice(twins) for _ in range(n)]
        return [p[rng.randint(0, 1)] for p in ps], [p[rng.randint(0, 1)] for p in ps], ps
    pa, pb, ps = side(rng.randint(0, 2))
    pa, pb = [p[0] for p in ps], [p[1] for p in ps]
    qs = [rng.choice(twins) for _ in range(rng.randint(0, 2))]
    qa, qb = [p[1] for p in qs], [p[0] for p in qs]
    ma = [gen_scalar(rng) for _ in range(rng.randint(1, 3))]
    mb = [gen_scalar(rng) for _ in range(rng.randint(0, 3))]
    a, b = pa + ma + qa, pb + mb + qb
    r = rng.random()
    if r < 0.25:
        return {'k': a, 'x': 1}, {'k': b, 'x': 1}
    if r < 0.4:
        return [a, 5], [b, 5, 6]
    return a, b

