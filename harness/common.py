"""Shared machinery for the /verif checks: translator + Coq build, implementation workers,
Coq evaluation of case files, evidence, known findings, verdict lines.

No property logic lives here (nor in the per-property modules): verdicts are computed by
Gallina functions evaluated with vm_compute; Python only generates, drives, serialises and counts.
"""
import fcntl
import glob
import hashlib
import json
import os
import re
import shutil
import subprocess
import sys
import threading
import time

VERIF = os.path.dirname(os.path.dirname(os.path.abspath(__file__)))
REPO = os.environ.get('VERIF_REPO', '/repo')
COQ = os.path.join(VERIF, 'coq')
PY = '/venv/bin/python'
NPROC = min(16, os.cpu_count() or 4)
QFLAGS = ['-Q', os.path.join(COQ, 'theories'), 'GT', '-Q', os.path.join(COQ, 'gen'), 'GTgen',
          '-Q', os.path.join(COQ, 'props'), 'GTprops']

FORBIDDEN = re.compile(r'\b(Admitted|admit|Axiom|Axioms|Parameter|Parameters|Conjecture|Conjectures|'
                       r'Admit Obligations|Unset Guard Checking|bypass_check|Unset Positivity Checking|'
                       r'Unset Universe Checking|type-in-type|impredicative-set)\b')


def log(*a):
    print(*a, file=sys.stderr, flush=True)


def impl_env(hashseed='0'):
    env = dict(os.environ)
    env['PYTHONPATH'] = REPO + os.pathsep + VERIF
    env['PYTHONHASHSEED'] = str(hashseed)
    env['GRAPHTAGE_VERIF'] = '1'
    env['PYTHONDONTWRITEBYTECODE'] = '1'
    env.pop('PYTHONSTARTUP', None)
    return env


class Workdir:
    def __init__(self, prop):
        self.path = os.path.join(VERIF, '.work', f'{prop}-{os.getpid()}')
        shutil.rmtree(self.path, ignore_errors=True)
        os.makedirs(self.path)

    def file(self, name):
        return os.path.join(self.path, name)

    def cleanup(self):
        shutil.rmtree(self.path, ignore_errors=True)


# ---------------------------------------------------------------- Coq build

class Lock:
    def __enter__(self):
        os.makedirs(COQ, exist_ok=True)
        self.f = open(os.path.join(COQ, '.lock'), 'w')
        fcntl.flock(self.f, fcntl.LOCK_EX)
        return self

    def __exit__(self, *a):
        fcntl.flock(self.f, fcntl.LOCK_UN)
        self.f.close()


def write_if_changed(path, text):
    try:
        with open(path) as f:
            if f.read() == text:
                return False
    except FileNotFoundError:
        pass
    with open(path, 'w') as f:
        f.write(text)
    return True


def regen():
    """Re-run the translator over /repo's working tree. Returns {gen module: error string or None}."""
    sys.path.insert(0, os.path.join(VERIF, 'translator'))
    import py2coq
    res = {}
    gen_dir = os.path.join(COQ, 'gen')
    os.makedirs(gen_dir, exist_ok=True)
    for name, fn in py2coq.MODULES.items():
        path = os.path.join(gen_dir, name + '.v')
        try:
            text = fn(REPO)
            write_if_changed(path, text)
            res[name] = None
        except Exception as e:  # fail closed: no file, dependants do not build
            res[name] = f'{type(e).__name__}: {e}'
            write_if_changed(path, '(* translator failed: %s *)\nDefinition translator_failed : True := 0.\n'
                             % str(e).replace('*)', '* )'))
    return res


def coq_project():
    files = []
    for d in ('gen', 'theories', 'props'):
        files += sorted(os.path.relpath(p, COQ) for p in glob.glob(os.path.join(COQ, d, '*.v')))
    text = '-Q theories GT\n-Q gen GTgen\n-Q props GTprops\n' + '\n'.join(files) + '\n'
    changed = write_if_changed(os.path.join(COQ, '_CoqProject'), text)
    if changed or not os.path.exists(os.path.join(COQ, 'Makefile')):
        subprocess.run(['coq_makefile', '-f', '_CoqProject', '-o', 'Makefile'], cwd=COQ, check=True,
                       stdout=subprocess.DEVNULL, stderr=subprocess.DEVNULL)


def coq_make(targets, timeout=1500):
    """make the given .vo targets (paths relative to coq/). Returns (ok, log)."""
    cmd = ['timeout', str(timeout), 'make', '-j', str(NPROC), '-k'] + list(targets)
    p = subprocess.run(cmd, cwd=COQ, stdout=subprocess.PIPE, stderr=subprocess.STDOUT, text=True)
    return p.returncode == 0, p.stdout


def first_coq_error(logtext):
    """Extract (file, line, message) of the first Coq error in a make log."""
    m = re.search(r'File "([^"]+)", line (\d+), characters [\d-]+:\s*\nError:\s*(.*?)(?:\n\n|\nmake|\Z)', logtext, re.S)
    if m:
        return m.group(1), int(m.group(2)), ' '.join(m.group(3).split())[:600]
    m = re.search(r'Error:\s*(.*)', logtext)
    return (None, 0, m.group(1)[:600] if m else logtext[-600:])


def enclosing_statement(vfile, line):
    """Name of the Theorem/Lemma/... enclosing a line of a .v file."""
    try:
        src = open(vfile if os.path.isabs(vfile) else os.path.join(COQ, vfile)).read().split('\n')
    except OSError:
        return None
    for i in range(min(line, len(src)) - 1, -1, -1):
        m = re.match(r'\s*(?:Local\s+|Global\s+)?(Theorem|Lemma|Corollary|Example|Fact|Proposition|Definition|Fixpoint|Function)\s+([A-Za-z0-9_\']+)', src[i])
        if m:
            return m.group(2)
    return None


def build(model_targets, proof_targets):
    """Steps 1-2 of the protocol. Returns a dict describing the state of the tie."""
    t0 = time.time()
    with Lock():
        tr = regen()
        coq_project()
        ok_m, log_m = coq_make(model_targets)
        ok_p, log_p = (False, '') if not ok_m else coq_make(proof_targets)
    st = {'translator': tr, 'models_ok': ok_m, 'proofs_ok': ok_p, 'build_s': round(time.time() - t0, 1),
          'broken': None}
    bad_tr = {k: v for k, v in tr.items() if v}
    if not ok_m or not ok_p:
        f, ln, msg = first_coq_error(log_m if not ok_m else log_p)
        st['broken'] = {'stage': 'model' if not ok_m else 'proof', 'file': f, 'line': ln,
                        'statement': enclosing_statement(f, ln) if f else None, 'error': msg,
                        'translator_errors': bad_tr}
    return st


def coqc_file(vfile, timeout=900):
    p = subprocess.run(['timeout', str(timeout), 'coqc'] + QFLAGS + [vfile], stdout=subprocess.PIPE,
                       stderr=subprocess.PIPE, text=True, cwd=os.path.dirname(vfile))
    return p.returncode, p.stdout, p.stderr


def eval_blocks(out):
    """Split coqc stdout into the '= value : type' blocks printed by Eval, whitespace-normalised."""
    blocks = []
    cur = None
    for line in out.split('\n'):
        if line.startswith('     = '):
            if cur is not None:
                blocks.append(cur)
            cur = line[7:]
        elif cur is not None:
            cur += ' ' + line.strip()
    if cur is not None:
        blocks.append(cur)
    res = []
    for b in blocks:
        b = ' '.join(b.split())
        i = b.rfind(' : ')
        res.append(b[:i] if i >= 0 else b)
    return res


def parse_nat_list(s):
    s = s.strip()
    s = re.sub(r'%\w+', '', s)
    if s in ('[]', 'nil'):
        return []
    assert s.startswith('[') and s.endswith(']'), s[:200]
    return [int(x) for x in s[1:-1].split(';') if x.strip()]


def coq_eval_cases(wd, name, header, case_terms, evals, chunk=400, timeout=900):
    """Write chunked case files and evaluate. `case_terms` is a list of Gallina terms (strings);
    `evals` a list of Gallina function names of type list (nat * case) -> list nat.
    Returns (per-eval list of failing indices, error-or-None)."""
    files = []
    offsets = {}
    for ci in range(0, len(case_terms), chunk):
        body = [header, 'Definition cases := [']
        # indices are relative to the chunk (small unary nats inside Coq); the offset is added when parsing
        body.append(';\n'.join(f'({j}%nat, {t})' for j, t in enumerate(case_terms[ci:ci + chunk])))
        body.append('].')
        for e in evals:
            body.append(f'Eval vm_compute in ({e} cases).')
        path = wd.file(f'{name}_{ci // chunk}.v')
        with open(path, 'w') as f:
            f.write('\n'.join(body) + '\n')
        files.append(path)
        offsets[path] = ci
    results = [[] for _ in evals]
    errors = []
    lock = threading.Lock()

    def run(path):
        rc, out, err = coqc_file(path, timeout)
        with lock:
            if rc != 0:
                errors.append(f'{os.path.basename(path)}: rc={rc} {err[-800:]}')
                return
            blocks = eval_blocks(out)
            if len(blocks) != len(evals):
                errors.append(f'{os.path.basename(path)}: expected {len(evals)} blocks, got {len(blocks)}: {out[-400:]}')
                return
            off = offsets[path]
            for k, b in enumerate(blocks):
                results[k] += [off + x for x in parse_nat_list(b)]
    threads = []
    sem = threading.Semaphore(NPROC)

    def guarded(p):
        with sem:
            run(p)
    for p in files:
        t = threading.Thread(target=guarded, args=(p,))
        t.start()
        threads.append(t)
    for t in threads:
        t.join()
    return [sorted(r) for r in results], (errors[0] if errors else None)


def coq_eval_terms(wd, name, header, terms, timeout=600):
    """Evaluate arbitrary terms, returning their printed normal forms (strings)."""
    path = wd.file(f'{name}.v')
    with open(path, 'w') as f:
        f.write(header + '\n' + '\n'.join(f'Eval vm_compute in ({t}).' for t in terms) + '\n')
    rc, out, err = coqc_file(path, timeout)
    if rc != 0:
        return None, err[-1500:]
    return eval_blocks(out), None


def print_assumptions(wd, prop, theorems):
    """Re-query Print Assumptions for the property theorems on this run."""
    path = wd.file('assumptions.v')
    with open(path, 'w') as f:
        f.write(f'Require Import GTprops.Prop{prop}.\n')
        for t in theorems:
            f.write(f'Print Assumptions {t}.\n')
    rc, out, err = coqc_file(path, 600)
    if rc != 0:
        return [f'Print Assumptions failed: {err[-300:]}']
    outs = [' '.join(x.split()) for x in re.split(r'\n(?=Closed under|Axioms:)', out.strip()) if x.strip()]
    return [f'{t}: {o}' for t, o in zip(theorems, outs)] if len(outs) == len(theorems) else [' '.join(out.split())]


def cone(prop):
    """Files in the dependency cone of props/Prop<prop>.v (by Require lines among our own files)."""
    seen, todo = [], [os.path.join(COQ, 'props', f'Prop{prop}.v')]
    while todo:
        f = todo.pop()
        if f in seen or not os.path.exists(f):
            continue
        seen.append(f)
        src = open(f).read()
        for m in re.finditer(r'(?:From\s+(\w+)\s+)?Require\s+(?:Import\s+|Export\s+)?(.*?)\.(?:\s|$)', src, re.S):
            root, names = m.group(1), m.group(2)
            for nm in names.split():
                parts = nm.split('.')
                if root:
                    parts = [root] + parts
                if parts[0] in ('GT', 'GTgen', 'GTprops') and len(parts) == 2:
                    d = {'GT': 'theories', 'GTgen': 'gen', 'GTprops': 'props'}[parts[0]]
                    todo.append(os.path.join(COQ, d, parts[1] + '.v'))
    return seen


STMT = re.compile(r'^\s*(?:Local\s+|Global\s+|#\[[^\]]*\]\s*)?(Theorem|Lemma|Corollary|Example|Fact|Proposition)\s+([A-Za-z0-9_\']+)', re.M)


def audit(prop):
    """Count statements in the cone and grep for forbidden vocabulary. Returns (n_statements, [offences])."""
    n, bad = 0, []
    for f in cone(prop):
        src = open(f).read()
        nocom = re.sub(r'\(\*.*?\*\)', '', src, flags=re.S)
        n += len(STMT.findall(nocom))
        for m in FORBIDDEN.finditer(nocom):
            bad.append(f'{os.path.relpath(f, COQ)}: {m.group(0)}')
    return n, bad


# ---------------------------------------------------------------- implementation workers

def run_impl(module, func, items, hashseed='0', nproc=None, timeout_item=120, extra_env=None):
    """Run harness.<module>.<func>(item) on /repo's code for every item, in worker processes that are
    restarted after any exception (graphtage's global printer state is corrupt after one).
    Returns a list of {'ok': result} / {'exc': class, 'msg': str} / {'timeout': True}."""
    nproc = nproc or NPROC
    results = [None] * len(items)
    shards = [list(range(i, len(items), nproc)) for i in range(nproc)]
    env = impl_env(hashseed)
    # per-item wall-clock guard inside the worker (an item that spins is reported as {'exc': 'ItemGuardTimeout'}
    # and the worker is restarted, instead of stalling its whole shard)
    env['VERIF_ITEM_GUARD'] = str(timeout_item)
    if extra_env:
        env.update(extra_env)

    def drive(idx):
        pos = 0
        while pos < len(idx):
            p = subprocess.Popen([PY, '-u', os.path.join(VERIF, 'harness', 'worker.py'), module, func],
                                 stdin=subprocess.PIPE, stdout=subprocess.PIPE, stderr=subprocess.DEVNULL,
                                 env=env, text=True, cwd=VERIF)
            try:
                batch = idx[pos:]
                payload = '\n'.join(json.dumps(items[i]) for i in batch) + '\n'
                timer = threading.Timer(timeout_item * max(1, len(batch)) / 4 + timeout_item, p.kill)
                timer.start()
                try:
                    out, _ = p.communicate(payload)
                finally:
                    timer.cancel()
                lines = [l for l in out.split('\n') if l.startswith('@@R ')]
                for l in lines:
                    results[idx[pos]] = json.loads(l[4:])
                    pos += 1
                if p.returncode not in (0, 3) and pos < len(idx):
                    if not lines or p.returncode != 3:
                        # the worker died on item idx[pos] without reporting
                        results[idx[pos]] = {'exc': 'WorkerDied', 'msg': f'rc={p.returncode}'}
                        pos += 1
            finally:
                if p.poll() is None:
                    p.kill()
    threads = [threading.Thread(target=drive, args=(s,)) for s in shards if s]
    for t in threads:
        t.start()
    for t in threads:
        t.join()
    return results


# ---------------------------------------------------------------- known findings, evidence, verdict

def known_findings(prop):
    path = os.path.join(VERIF, 'known_findings.json')
    if not os.path.exists(path):
        return []
    return [f for f in json.load(open(path))['findings'] if f['property'] == prop]


def write_replay(prop, seed, obj):
    d = os.path.join(VERIF, 'replays')
    os.makedirs(d, exist_ok=True)
    h = hashlib.sha1(json.dumps(obj, sort_keys=True, default=str).encode()).hexdigest()[:10]
    path = os.path.join(d, f'{prop}-{seed}-{h}.json')
    with open(path, 'w') as f:
        json.dump(obj, f, indent=1, default=str)
    return path


class Run:
    """Book-keeping of one check run: evidence, verdict lines, exit code."""

    def __init__(self, prop, tier, seed, level='proof'):
        self.prop, self.tier, self.seed, self.level = prop, tier, seed, level
        self.t0 = time.time()
        self.cov = {'evaluations': 0, 'distinct_nontrivial': 0, 'rule': '', 'samples': [],
                    'traces_validated_against_impl': 0, 'obligations': 0, 'discharged': 0,
                    'checker_cmd': '', 'trusted_base': []}
        self.assumptions = []
        self.violations = []       # (replay_path, suffix)
        self.known_lines = []
        self.distinct = set()

    def count(self, case_key, nontrivial):
        self.cov['evaluations'] += 1
        if nontrivial:
            self.distinct.add(hashlib.sha1(json.dumps(case_key, sort_keys=True, default=str).encode()).digest())

    def violation(self, replay_obj, no_input=False):
        path = write_replay(self.prop, self.seed, replay_obj)
        self.violations.append((path, ' no-failing-input-found' if no_input else ''))

    def known(self, what):
        self.known_lines.append(what)

    def finish(self):
        self.cov['distinct_nontrivial'] = len(self.distinct)
        # EVIDENCE.schema.json: `exhaustive` is a boolean about the WHOLE run; a description of an exhaustively enumerated
        # sub-stream goes to `exhaustive_scope`
        if not isinstance(self.cov.get('exhaustive', False), bool):
            self.cov['exhaustive_scope'] = self.cov['exhaustive']
            self.cov['exhaustive'] = False
        ev = {'property_id': self.prop, 'tier': self.tier, 'seed': self.seed, 'level': self.level,
              'coverage': self.cov, 'assumptions': self.assumptions,
              'wall_s': round(time.time() - self.t0, 1), 'violations': len(self.violations)}
        os.makedirs(os.path.join(VERIF, 'evidence'), exist_ok=True)
        with open(os.path.join(VERIF, 'evidence', f'{self.prop}.json'), 'w') as f:
            json.dump(ev, f, indent=1, default=str)
        for w in self.known_lines:
            print(f'KNOWN-FINDING: property={self.prop} {w}')
        seen = set()
        for path, suffix in self.violations:
            if path in seen:
                continue
            seen.add(path)
            if len(seen) <= 8:      # the first few replays are enough; the count is in the evidence file
                print(f'VIOLATION property={self.prop} replay={path}{suffix}')
        sys.stdout.flush()
        return 1 if self.violations else 0


def proof_evidence(run, wd, prop, st, theorems):
    """Fill the proof-level evidence keys from the state of the build."""
    n, bad = audit(prop)
    run.cov['obligations'] = n
    run.cov['discharged'] = n if (st['proofs_ok'] and not bad) else 0
    run.cov['checker_cmd'] = (f'cd /verif/coq && coq_makefile -f _CoqProject -o Makefile && make props/Prop{prop}.vo '
                              f'(coqc 8.16.1 full .vo build; Print Assumptions re-queried on every run)')
    tb = ['Coq 8.16.1 kernel incl. its VM (vm_compute); no native_compute',
          'translator /verif/translator/py2coq.py (fail-closed ast subset)',
          'correspondence harness /verif/harness (serialiser, outside instrumentation, generators)']
    if st['proofs_ok']:
        tb += print_assumptions(wd, prop, theorems)
    if bad:
        tb.append('AUDIT FAILED: ' + '; '.join(bad))
    run.cov['trusted_base'] = tb
    run.cov['translator'] = {k: (v or 'ok') for k, v in st['translator'].items()}
    run.cov['build_s'] = st['build_s']
    return not bad
