"""C18 - Python objects are converted faithfully and cycles never hang.

Object graphs (trees, DAGs with shared children, self-loops, mutual cycles, instances of plain classes and
of a dataclass, exotic dictionary keys, bytes) are generated as node lists, turned into REAL Python objects
inside worker processes and given to the three builder entry points of /repo
(graphtage.json.build_tree, graphtage.builder.BasicBuilder().build_tree, graphtage.pydiff.build_tree)
under every key strategy and cycle flag combination, each call under a wall-clock guard.  The worker
re-derives the description of the graph from the objects it really built (identity map, set iteration
order, dir() order) and records, per entry point, the tree / the exception / the timeout, the tree's
to_obj(), its copy() and `copy == tree`.

No verdict is computed here: `holds_C18`, `fails_C18`, `unexplained`, `explained_by` (BuilderSpec.v) and
`corr_C18` (BuilderModel.v) are Gallina functions evaluated with vm_compute.  Python only generates,
drives the real code, serialises and counts.
"""
import json
import os
import random
import sys
import time

from harness import common

PROP = 'C18'
THEOREMS = ['C18_machine_refines', 'C18_terminates', 'C18_acyclic_partial', 'C18_acyclic_model_partial',
            'C18_acyclic_outside_findings', 'C18_domain_boundary', 'C18_domain_contains', 'C18_shared_partial',
            'C18_cyclic_partial', 'C18_model_holds_acyclic_partial', 'C18_model_holds_cyclic_partial',
            'C18_acyclic_no_cycle', 'C18_builders_agree', 'C18_entry_points', 'C18_entry_points_model',
            'C18_unfold_depth_complete', 'C18_same_value_refl', 'C18_obj_cycle_example', 'C18_fset_key_example',
            'C18_refuted_tuple_key', 'C18_refuted_container_keys']
MODEL_TARGETS = ['theories/BuilderModel.vo']
PROOF_TARGETS = ['props/PropC18.vo']
HEADER = ('From Coq Require Import String List Bool ZArith.\nRequire Import GT.PyBase GT.BuilderSpec.\n'
          'Import ListNotations.\nOpen Scope string_scope.\nOpen Scope list_scope.\n')
MODEL_HEADER = 'Require Import GT.BuilderModel.\n'
# classes of the OPEN findings that have a Gallina predicate (BuilderSpec.kf_class).  Findings that were
# repaired in /repo (D29 kf_pyobj_no_eq, D30 kf_placeholder_copy) have none any more: their entries in
# known_findings.json are `fixed: ...` and are ignored here; their replays stay in corpus/C18.jsonl, so a
# return of the defect is an unexplained violated clause (VIOLATION).
KF_CTOR = {'kf_unhashable_key': 'KfUnhashableKey', 'kf_container_key_sort': 'KfContainerKeySort',
           'kf_json_bytes': 'KfJsonBytes', 'kf_json_cycle': 'KfJsonCycle'}
STRATEGY = {'auto': (True, True), 'match': (True, False), 'none': (False, False)}   # allow_key_edits, auto_match_keys
ENTRY = {'json': 'EJson', 'basic': 'EBasic', 'pydiff': 'EPyObj'}
NO_PROOFS = os.environ.get('C18_NO_PROOFS') == '1'
WALL_GUARD_S = 10.0
MAX_VIOLATIONS = 5


# ====================================================================== implementation side (worker)

class P:
    def __init__(self):
        pass


class Q:
    def __init__(self):
        pass


class _Timeout(BaseException):
    pass


_DC_CACHE = {}
_STATE = {}


def _dc_class(names):
    """A plain @dataclass named DC with the given fields (all defaulting to None)."""
    import dataclasses
    key = tuple(names)
    if key not in _DC_CACHE:
        _DC_CACHE[key] = dataclasses.make_dataclass(
            'DC', [(n, object, dataclasses.field(default=None)) for n in key])
    return _DC_CACHE[key]


def _is_obj(o):
    t = type(o)
    return t is P or t is Q or t in _DC_CACHE.values()


def _setup():
    if _STATE:
        return _STATE
    import resource
    import signal
    import graphtage
    import graphtage.printer
    import graphtage.tree
    import graphtage.levenshtein
    import graphtage.json
    import graphtage.builder
    import graphtage.pydiff
    import graphtage.ast
    from graphtage.object_set import IdentityHash
    from graphtage.utils import HashableCounter
    for m in (graphtage.printer, graphtage.tree, graphtage.levenshtein, graphtage.json):
        m.DEFAULT_PRINTER.quiet = True
    lim = 4 << 30      # a broken cycle check grows the work stack without bound
    soft, hard = resource.getrlimit(resource.RLIMIT_AS)
    if hard != resource.RLIM_INFINITY and hard < lim:
        lim = hard
    resource.setrlimit(resource.RLIMIT_AS, (lim, hard))

    def on_alarm(signum, frame):
        raise _Timeout()
    signal.signal(signal.SIGALRM, on_alarm)
    _STATE.update(gt=graphtage, json=graphtage.json, builder=graphtage.builder, pydiff=graphtage.pydiff,
                  IdentityHash=IdentityHash, HashableCounter=HashableCounter, signal=signal,
                  KeywordArgument=graphtage.ast.KeywordArgument)
    return _STATE


def _guarded(f):
    """Run f() under the wall-clock guard.  Returns ('ok', value) | ('exc', exception) | ('timeout', None)."""
    sig = _STATE['signal']
    try:
        sig.setitimer(sig.ITIMER_REAL, WALL_GUARD_S)
        try:
            v = f()
        finally:
            sig.setitimer(sig.ITIMER_REAL, 0)
        return 'ok', v
    except _Timeout:
        return 'timeout', None
    except Exception as e:  # noqa  (the implementation's exceptions are observations)
        return 'exc', e


def _construct(nodes, root):
    """The real Python objects of a description.  Returns (root object, {node id: object}, identity map)."""
    by = {}
    for n in nodes:
        if n[0] in by:
            raise ValueError(f'duplicate node id {n[0]}')
        by[n[0]] = n
    objs = {}
    for nid, kind, pay in nodes:            # shells of the mutable objects
        if kind == 'list':
            objs[nid] = []
        elif kind == 'dict':
            objs[nid] = {}
        elif kind == 'set':
            objs[nid] = set()
        elif kind == 'obj':
            cname, attrs = pay
            for a, _ in attrs:
                if not (a.isidentifier() and a.islower() and not a.startswith('_')):
                    raise ValueError(f'bad attribute name {a!r}')
            if cname == 'P':
                objs[nid] = P()
            elif cname == 'Q':
                objs[nid] = Q()
            elif cname == 'DC':
                objs[nid] = _dc_class([a for a, _ in attrs])()
            else:
                raise ValueError(f'unknown class {cname!r}')
    building = set()

    def get(nid):                           # immutables on demand; the recursion stops at shells
        if nid in objs:
            return objs[nid]
        if nid in building:
            raise ValueError('a cycle through immutable objects only')
        building.add(nid)
        _, kind, pay = by[nid]
        if kind == 'none':
            v = None
        elif kind == 'bool':
            v = bool(pay)
        elif kind == 'int':
            v = int(pay)
        elif kind == 'float':
            v = float(pay)
            if v != v:
                raise ValueError('NaN is outside the domain')
        elif kind == 'str':
            v = str(pay)
        elif kind == 'bytes':
            v = pay.encode('ascii')
        elif kind == 'tuple':
            v = tuple(get(c) for c in pay)
        elif kind == 'frozenset':
            v = frozenset([get(c) for c in pay])
        else:
            raise ValueError(f'unknown kind {kind!r}')
        building.discard(nid)
        objs[nid] = v
        return v
    for nid, kind, pay in nodes:            # fill the shells
        if kind == 'list':
            for c in pay:
                objs[nid].append(get(c))
        elif kind == 'dict':
            for k, v in pay:
                objs[nid][get(k)] = get(v)
        elif kind == 'set':
            for c in pay:
                objs[nid].add(get(c))
        elif kind == 'obj':
            for a, c in pay[1]:
                setattr(objs[nid], a, get(c))
    rootobj = get(root)
    idmap = {}
    for nid, _, _ in nodes:                 # first node id wins (small ints, interned strings, () ...)
        if nid in objs:
            idmap.setdefault(id(objs[nid]), nid)
    return rootobj, objs, idmap


def _nid(idmap, o):
    try:
        return idmap[id(o)]
    except KeyError:
        raise RuntimeError(f'an object of type {type(o).__name__} is not in the identity map')


def _describe(rootobj, idmap):
    """The description of the graph the real objects form (reachable part only)."""
    out, seen, stack = [], set(), [rootobj]
    while stack:
        o = stack.pop()
        n = _nid(idmap, o)
        if n in seen:
            continue
        seen.add(n)
        t = type(o)
        if o is None:
            out.append([n, 'none', None])
        elif t is bool:
            out.append([n, 'bool', o])
        elif t is int:
            out.append([n, 'int', o])
        elif t is float:
            out.append([n, 'float', repr(o)])
        elif t is str:
            out.append([n, 'str', o])
        elif t is bytes:
            out.append([n, 'bytes', o.decode('ascii')])
        elif t in (list, tuple, set, frozenset):
            kids = list(o)                                  # sets: iteration order
            out.append([n, t.__name__, [_nid(idmap, c) for c in kids]])
            stack.extend(reversed(kids))
        elif t is dict:
            items = list(o.items())
            out.append([n, 'dict', [[_nid(idmap, k), _nid(idmap, v)] for k, v in items]])
            for k, v in reversed(items):
                stack.append(v)
                stack.append(k)
        elif _is_obj(o):
            attrs = [(a, getattr(o, a)) for a in dir(o) if not a.startswith('__')]   # PyObjBuilder.default_expander
            out.append([n, 'obj', [t.__name__, [[a, _nid(idmap, v)] for a, v in attrs]]])
            stack.extend(v for _, v in reversed(attrs))
        else:
            raise RuntimeError(f'unexpected object of type {t.__name__} in the graph')
    return out


def _scalar(x):
    t = type(x)
    if x is None:
        return ['none']
    if t is bool:
        return ['bool', x]
    if t is int:
        return ['int', str(x)]
    if t is float:
        if x != x:
            raise RuntimeError('NaN')
        return ['float', repr(x), str(int(x)) if x.is_integer() else None]
    if t is str:
        return ['str', x]
    if t is bytes:
        return ['bytes', x.decode('ascii')]
    raise RuntimeError(f'not a scalar: {t.__name__}')


def _unwrap(ih, idmap):
    """IdentityHash^(depth+1)(object) -> (depth, node id)."""
    IH = _STATE['IdentityHash']
    if type(ih) is not IH:
        raise RuntimeError(f'placeholder payload is a {type(ih).__name__}')
    depth = 0
    while type(ih.obj) is IH:
        ih = ih.obj
        depth += 1
    return depth, _nid(idmap, ih.obj)


def _pairs(kvps, pair_cls):
    kvps = list(kvps)
    for kvp in kvps:
        if type(kvp) is not pair_cls:
            raise RuntimeError(f'pair of class {type(kvp).__name__}, expected {pair_cls.__name__}')
    return kvps


def _tree(n, idmap):
    """Serialise a graphtage tree by exact node class."""
    S = _STATE
    gt, t = S['gt'], type(n)
    leaf = {gt.NullNode: 'KNull', gt.BoolNode: 'KBool', gt.IntegerNode: 'KInt', gt.FloatNode: 'KFloat',
            gt.StringNode: 'KStr'}
    if t in leaf:
        return ['leaf', leaf[t], _scalar(n.object)]
    if t is S['builder'].CyclicReference:
        d, i = _unwrap(n.object, idmap)
        return ['cyc', d, i]
    if t is gt.ListNode:
        return ['list', [_tree(c, idmap) for c in n._children]]
    if t is gt.MultiSetNode:
        return ['mset', [_tree(c, idmap) for c in list(n)]]
    if t is gt.DictNode:
        return ['dict', False, [[_tree(p.key, idmap), _tree(p.value, idmap)] for p in _pairs(n, gt.KeyValuePairNode)]]
    if t is S['pydiff'].PyObjAttributes:
        return ['dict', True, [[_tree(p.key, idmap), _tree(p.value, idmap)] for p in _pairs(n, S['KeywordArgument'])]]
    if t is gt.FixedKeyDictNode:
        return ['fdict', False, [[_tree(p.key, idmap), _tree(p.value, idmap)]
                                 for p in _pairs(n._children.values(), gt.KeyValuePairNode)]]
    if t is S['pydiff'].PyObjFixedAttributes:
        return ['fdict', True, [[_tree(p.key, idmap), _tree(p.value, idmap)]
                                for p in _pairs(n._children.values(), S['KeywordArgument'])]]
    if t is S['pydiff'].PyObj:
        return ['obj', _tree(n.class_name, idmap), _tree(n.attrs, idmap)]
    raise RuntimeError(f'unexpected tree node class {t.__name__}')


def _value(v, idmap):
    """Serialise what to_obj() returned, by exact type."""
    S = _STATE
    t = type(v)
    if v is None or t in (bool, int, float, str, bytes):
        return ['scalar', _scalar(v)]
    if isinstance(v, S['gt'].LeafNode):
        return ['leafnode', _scalar(v.object)]
    if t is S['IdentityHash']:
        d, i = _unwrap(v, idmap)
        return ['idhash', d, i]
    if t is list:
        return ['list', [_value(x, idmap) for x in v]]
    if t is S['HashableCounter']:
        return ['mset', [_value(x, idmap) for x in list(v.elements())]]
    if t is dict:
        return ['dict', [[_value(k, idmap), _value(x, idmap)] for k, x in v.items()]]
    raise RuntimeError(f'unexpected value of type {t.__name__} in to_obj()')


def _run_entry(ep, obj, item, idmap):
    S = _STATE
    ake, amk = STRATEGY[item['strategy']]

    def opts():      # BuildOptions' own parameter is misspelt check_for_cyces; **kwargs sets the attribute
        return S['gt'].BuildOptions(allow_key_edits=ake, auto_match_keys=amk,
                                    check_for_cycles=bool(item['check']), ignore_cycles=bool(item['ignore']))
    if ep == 'json':
        # json.build_tree recurses (and has no cycle check: RecursionError on cyclic input).  Run it under
        # CPython's default recursion limit instead of harness/worker.py's 10000: generated graphs are at most
        # a dozen levels deep, and the RecursionError of a cyclic input then arrives well inside the guard
        # (with 10000 a cyclic dict with nested sub-dicts needed > 10 s on a loaded machine).
        lim = sys.getrecursionlimit()
        sys.setrecursionlimit(1000)
        try:
            st, t = _guarded(lambda: S['json'].build_tree(obj, options=opts()))
        finally:
            sys.setrecursionlimit(lim)
    elif ep == 'basic':
        st, t = _guarded(lambda: S['builder'].BasicBuilder(opts()).build_tree(obj))
    else:
        st, t = _guarded(lambda: S['pydiff'].build_tree(obj, options=opts()))
    if st == 'timeout':
        return {'timeout': True}
    if st == 'exc':
        return {'exc': type(t).__name__, 'cycle_msg': str(t).startswith('Detected a cycle')}
    res = {'tree': _tree(t, idmap)}
    st, v = _guarded(t.to_obj)
    if st == 'timeout':
        return {'timeout': True, 'during': 'to_obj'}
    res['to_obj'] = {'ok': _value(v, idmap)} if st == 'ok' else {'err': type(v).__name__}
    st, c = _guarded(t.copy)
    if st == 'timeout':
        return {'timeout': True, 'during': 'copy'}
    if st == 'exc':
        res['copy'], res['copy_eq'] = {'err': type(c).__name__}, False
        return res
    res['copy'] = {'ok': _tree(c, idmap)}
    st, e = _guarded(lambda: bool(c == t))
    if st == 'timeout':
        return {'timeout': True, 'during': 'copy =='}
    if st == 'exc':
        res['copy_eq'], res['copy_eq_exc'] = False, type(e).__name__
    else:
        res['copy_eq'] = e
    return res


def impl_case(item):
    """Build the objects of a case, run every entry point on them, report what happened."""
    _setup()
    try:
        rootobj, objs, idmap = _construct(item['nodes'], item['root'])
    except Exception as e:  # noqa  (a generator slip: unhashable key, ...)
        return {'invalid': f'{type(e).__name__}: {e}'}
    desc = {'nodes': _describe(rootobj, idmap), 'root': _nid(idmap, rootobj)}
    outs = []
    for ep in ('json', 'basic', 'pydiff'):
        if ep == 'json' and not item.get('run_json', True):
            continue
        outs.append([ep, _run_entry(ep, rootobj, item, idmap)])
    del objs
    return {'desc': desc, 'outs': outs}


# ====================================================================== generators (parent)

SCALARS = {
    'none': [None],
    'bool': [True, False],
    'int': [0, 1, -1, 2, 3, 7, 10, 255, -5, 10 ** 30, -10 ** 20, 2 ** 64],
    'float': ['2.5', '-0.0', '1e300', 'inf', '1.0', '0.0', '-inf', '-1.5', '3.0', '1e-05'],
    'str': ['', 'a', 'b', '1', 'ab', 'key', 'A b', 'x_y-z', 'True', 'None', '0', 'abc', 'Z'],
    'bytes': ['', 'a', 'ab', 'x y', '1'],
}
ATTRS = ['a', 'b', 'c', 'x', 'y', 'val', 'items', 'nxt', 'me', 'left', 'right', 'data']
TAGS = [('tree-json', 10), ('tree-all', 12), ('dag-json', 10), ('dag-all', 12), ('selfloop', 12), ('cycle', 14),
        ('cycle-shared', 4), ('obj', 10), ('obj-shared', 6), ('keys', 5), ('bytes', 5)]
SCALAR_KINDS = ('none', 'bool', 'int', 'float', 'str', 'bytes')


def py_scalar(kind, pay):
    return {'none': lambda: None, 'bool': lambda: bool(pay), 'int': lambda: int(pay), 'float': lambda: float(pay),
            'str': lambda: str(pay), 'bytes': lambda: pay.encode('ascii')}[kind]()


class GraphGen:
    """One object graph.  Nodes are created children-first (a child's id is smaller than its parent's), so
    re-using ANY existing node as a child keeps the graph acyclic; cycles are added afterwards as back edges."""

    def __init__(self, rng, dom, share, max_nodes, max_depth, max_width, exotic=False, with_bytes=False):
        self.rng, self.dom, self.share = rng, dom, share
        self.max_depth, self.max_width = max_depth, max_width
        self.left = max_nodes
        self.exotic, self.with_bytes = exotic, with_bytes
        self.nodes, self.hashable = [], {}

    # -- bookkeeping
    def add(self, kind, pay, hashable):
        nid = len(self.nodes)
        self.nodes.append([nid, kind, pay])
        self.hashable[nid] = hashable
        self.left -= 1
        return nid

    def kind(self, nid):
        return self.nodes[nid][1]

    def is_scalar(self, nid):
        return self.kind(nid) in SCALAR_KINDS

    def pyval(self, nid):
        return py_scalar(self.nodes[nid][1], self.nodes[nid][2])

    # -- scalars
    def scalar(self, key=False):
        r = self.rng
        kinds = ['int', 'int', 'str', 'str', 'str', 'float', 'bool', 'none']
        if self.with_bytes:
            kinds += ['bytes', 'bytes', 'bytes']
        if key and self.dom == 'json':
            kinds = [k for k in kinds if k != 'none']       # json.build_tree: keys are int/float/bool/str/bytes
        if key:
            kinds += ['str', 'str', 'str']
        k = r.choice(kinds)
        return self.add(k, r.choice(SCALARS[k]), True)

    def distinct(self, n, make):
        """Up to n hashable nodes, the scalars among them pairwise unequal for Python (1 == True == 1.0)."""
        out, seen = [], set()
        for _ in range(n):
            for _try in range(4):
                nid = make()
                if not self.is_scalar(nid):
                    out.append(nid)
                    break
                v = self.pyval(nid)
                if v not in seen:
                    seen.add(v)
                    out.append(nid)
                    break
        return out

    # -- values
    def width(self):
        if self.left <= 0:
            return 0
        return self.rng.choice([w for w in [0, 1, 1, 2, 2, 2, 3, 3, 4, 5] if w <= self.max_width])

    def containers(self):
        ks = ['list', 'list', 'list', 'dict', 'dict', 'dict', 'tuple']
        if self.dom in ('all', 'obj'):
            ks += ['set', 'frozenset', 'tuple']
        if self.dom == 'obj':
            ks += ['obj', 'obj', 'obj', 'obj']
        return ks

    def value(self, depth):
        r = self.rng
        if self.share and self.nodes and r.random() < self.share:
            conts = [n[0] for n in self.nodes if n[1] not in SCALAR_KINDS]
            return r.choice(conts) if conts and r.random() < 0.75 else r.randrange(len(self.nodes))
        if depth >= self.max_depth or self.left <= 1 or r.random() < 0.25 + 0.12 * depth:
            return self.scalar()
        return self.container(r.choice(self.containers()), depth)

    def hashable_value(self, depth, pos):
        """A dictionary key (pos='key') or a set element (pos='elem')."""
        r = self.rng
        if self.exotic and r.random() < 0.5:          # D18/D28 territory: tuples, frozensets, objects
            cands = [n[0] for n in self.nodes if n[1] not in SCALAR_KINDS and self.hashable[n[0]]]
            if cands and r.random() < 0.25:
                return r.choice(cands)
            k = r.choice(['tuple', 'tuple', 'frozenset', 'obj'])
            if k == 'tuple':
                kids = [self.hashable_value(depth + 1, 'key') if r.random() < 0.2 and depth < self.max_depth
                        else self.scalar() for _ in range(r.randint(0, 3))]
                return self.add('tuple', kids, True)
            if k == 'frozenset':
                return self.add('frozenset', self.distinct(r.randint(0, 3), self.scalar), True)
            return self.container('obj', depth, classes=('P', 'Q'))
        if pos == 'elem' and depth < self.max_depth and r.random() < 0.12:
            return self.add('frozenset', self.distinct(r.randint(0, 2), self.scalar), True)
        if self.share and r.random() < self.share:
            sc = [n[0] for n in self.nodes if n[1] in SCALAR_KINDS
                  and not (pos == 'key' and self.dom == 'json' and n[1] == 'none')]
            if sc:
                return r.choice(sc)
        return self.scalar(key=(pos == 'key'))

    def container(self, kind, depth, include=None, classes=('P', 'Q', 'DC')):
        """A container at the given depth; `include` is a child that must appear (list/tuple element,
        dictionary value, attribute value)."""
        r = self.rng
        n = self.width()
        if kind in ('list', 'tuple'):
            kids = []
            for _ in range(n):
                kids.append(kids[-1] if kids and self.share and r.random() < 0.15 else self.value(depth + 1))
            if include is not None:
                kids.insert(r.randint(0, len(kids)), include)
                if self.share and r.random() < 0.2:
                    kids.insert(r.randint(0, len(kids)), include)
            return self.add(kind, kids, kind == 'tuple' and all(self.hashable[k] for k in kids))
        if kind in ('set', 'frozenset'):
            elems = self.distinct(n, lambda: self.hashable_value(depth + 1, 'elem'))
            return self.add(kind, elems, kind == 'frozenset')
        if kind == 'dict':
            keys = self.distinct(n + (1 if include is not None else 0), lambda: self.hashable_value(depth + 1, 'key'))
            vals = [self.value(depth + 1) for _ in keys]
            if include is not None:
                if not keys:
                    keys, vals = [self.add('str', 'k', True)], [None]
                vals[r.randrange(len(vals))] = include
            return self.add('dict', [[k, v] for k, v in zip(keys, vals)], False)
        if kind == 'obj':
            cls = r.choice(classes)
            names = r.sample(ATTRS, min(len(ATTRS), n + (1 if include is not None else 0)))
            vals = [self.value(depth + 1) for _ in names]
            if include is not None:
                vals[r.randrange(len(vals))] = include
            return self.add('obj', [cls, [[a, v] for a, v in zip(names, vals)]], cls != 'DC')
        raise ValueError(kind)

    # -- cycles
    def carriers(self, mutable_only):
        ks = ['list', 'list', 'dict']
        if self.dom == 'obj':
            ks += ['obj', 'obj']
        if not mutable_only:
            ks += ['tuple']
        return ks

    def spine(self, d):
        """root = s[0] -> s[1] -> ... -> s[d], s[d] mutable; every s[i] may have other children."""
        cur = self.container(self.rng.choice(self.carriers(True)), d)
        s = [cur]
        for level in range(d - 1, -1, -1):
            cur = self.container(self.rng.choice(self.carriers(False)), level, include=cur)
            s.insert(0, cur)
        return s

    def back_edge(self, m, a):
        """Make node a a child of the mutable node m."""
        r = self.rng
        _, kind, pay = self.nodes[m]
        if kind == 'list':
            pay.insert(r.randint(0, len(pay)), a)
        elif kind == 'dict':
            used = {self.pyval(k) for k, _ in pay if self.is_scalar(k)}
            key = next(s for s in ['self', 'up', 'loop', 'back', 'z'] + [f'k{i}' for i in range(99)] if s not in used)
            pay.insert(r.randint(0, len(pay)), [self.add('str', key, True), a])
        elif kind == 'obj':
            used = {x for x, _ in pay[1]}
            pay[1].append([next(x for x in ['me', 'nxt', 'up', 'loop'] + ATTRS if x not in used), a])
        else:
            raise ValueError(kind)


def gen_graph(rng, tier):
    """One random graph: (tag, nodes, root)."""
    big = tier != 'quick'
    max_nodes, max_depth, max_width = (20, 5, 5) if big else (14, 4, 4)
    tag = rng.choices([t for t, _ in TAGS], weights=[w for _, w in TAGS])[0]
    if tag in ('selfloop', 'cycle', 'cycle-shared'):
        dom = rng.choice(['json', 'json', 'all', 'obj'])
        share = 0.25 if tag == 'cycle-shared' else rng.choice([0, 0, 0.1])
        g = GraphGen(rng, dom, share, max_nodes - 4, max_depth, max_width - 1)
        k = 1 if tag == 'selfloop' else rng.choice([2, 2, 3])           # length of the cycle
        d = rng.randint(k - 1, max_depth if tag == 'selfloop' else max(k - 1, max_depth))
        s = g.spine(d)
        g.back_edge(s[d], s[d - (k - 1)])
        if tag == 'cycle-shared' and d >= 1 and g.kind(s[0]) == 'list' and rng.random() < 0.5:
            g.nodes[s[0]][2].append(s[rng.randint(1, d)])                # a node of the cycle shared once more
        return tag, g.nodes, s[0]
    dom = {'tree-json': 'json', 'dag-json': 'json', 'tree-all': 'all', 'dag-all': 'all', 'obj': 'obj',
           'obj-shared': 'obj', 'keys': rng.choice(['all', 'obj']), 'bytes': rng.choice(['json', 'all'])}[tag]
    share = {'dag-json': 0.3, 'dag-all': 0.3, 'obj-shared': 0.3, 'keys': 0.1}.get(tag, 0)
    g = GraphGen(rng, dom, share, max_nodes, max_depth, max_width, exotic=(tag == 'keys'), with_bytes=(tag == 'bytes'))
    kinds = g.containers()
    if tag == 'keys':
        kinds = ['dict', 'dict', 'dict', 'set', 'frozenset', 'list']
    root = g.container(rng.choice(kinds), 0) if rng.random() < 0.93 else g.scalar()
    return tag, g.nodes, root


def succ_ids(node):
    _, kind, pay = node
    if kind in ('list', 'tuple', 'set', 'frozenset'):
        return list(pay)
    if kind == 'dict':
        return [k for k, _ in pay] + [v for _, v in pay]
    if kind == 'obj':
        return [c for _, c in pay[1]]
    return []


def graph_shape(nodes, root):
    """(number of reachable nodes, has a reachable cycle) of a description - generator discipline only
    (cyclic graphs are never run with check_for_cycles off: documented divergence)."""
    by = {n[0]: n for n in nodes}
    state, cyclic = {}, False
    stack = [(root, iter(succ_ids(by[root])))]
    state[root] = 1
    while stack:
        nid, it = stack[-1]
        for c in it:
            if c not in state:
                state[c] = 1
                stack.append((c, iter(succ_ids(by[c]))))
                break
            if state[c] == 1:
                cyclic = True
        else:
            state[nid] = 2
            stack.pop()
    return len(state), cyclic


def cases_of_graph(rng, tag, nodes, root):
    _, cyclic = graph_shape(nodes, root)
    flags = [(True, False), (True, True)] if cyclic else [(True, False), (True, True), (False, False), (False, True)]
    out = []
    for strat in ('auto', 'match', 'none'):
        for chk, ign in flags:
            # json.build_tree has no cycle check (RecursionError, known finding): few cyclic cases go there
            rj = (rng.random() < 0.10) if cyclic else True
            out.append({'nodes': nodes, 'root': root, 'strategy': strat, 'check': chk, 'ignore': ign,
                        'run_json': rj, 'tag': tag})
    return out, cyclic


def gen_cases(rng, tier, n_graphs, stats):
    cases = []
    for _ in range(n_graphs):
        tag, nodes, root = gen_graph(rng, tier)
        cs, cyclic = cases_of_graph(rng, tag, nodes, root)
        stats['graphs_by_tag'][tag] = stats['graphs_by_tag'].get(tag, 0) + 1
        stats['graphs_cyclic' if cyclic else 'graphs_acyclic'] += 1
        cases += cs
    return cases


def desc_from_python(obj):
    """Node list of a Python value (identity-preserving for containers and instances of P / Q; used for the
    corpus and for legacy replay records)."""
    nodes, ids = [], {}

    def go(o):
        t = type(o)
        scal = t in (bool, int, float, str, bytes) or o is None
        if not scal and id(o) in ids:
            return ids[id(o)]
        nid = len(nodes)
        nodes.append(None)
        if not scal:
            ids[id(o)] = nid
        if o is None:
            nodes[nid] = [nid, 'none', None]
        elif t is bool:
            nodes[nid] = [nid, 'bool', o]
        elif t is int:
            nodes[nid] = [nid, 'int', o]
        elif t is float:
            nodes[nid] = [nid, 'float', repr(o)]
        elif t is str:
            nodes[nid] = [nid, 'str', o]
        elif t is bytes:
            nodes[nid] = [nid, 'bytes', o.decode('ascii')]
        elif t in (list, tuple, set, frozenset):
            nodes[nid] = [nid, t.__name__, [go(c) for c in o]]
        elif t is dict:
            nodes[nid] = [nid, 'dict', [[go(k), go(v)] for k, v in o.items()]]
        elif t in (P, Q):
            nodes[nid] = [nid, 'obj', [t.__name__, [[a, go(v)] for a, v in vars(o).items()]]]
        else:
            raise ValueError(f'cannot describe a {t.__name__}')
        return nid
    root = go(obj)
    return nodes, root


# ====================================================================== serialisation to Gallina

def cstr(s):
    assert all(32 <= ord(ch) <= 126 for ch in s), s
    return '"' + s.replace('"', '""') + '"'


def zlit(n):
    return f'({int(n)})%Z'


def cbool(b):
    return 'true' if b else 'false'


def clist(xs):
    return '[' + '; '.join(xs) + ']'


def scalar_term(s):
    k = s[0]
    if k == 'none':
        return 'SNone'
    if k == 'bool':
        return f'(SBool {cbool(s[1])})'
    if k == 'int':
        return f'(SInt {zlit(s[1])})'
    if k == 'float':
        return f'(SFloat {cstr(s[1])} {"None" if s[2] is None else "(Some " + zlit(s[2]) + ")"})'
    if k == 'str':
        return f'(SStr {cstr(s[1])})'
    if k == 'bytes':
        return f'(SBytes {cstr(s[1])})'
    raise ValueError(k)


def node_scalar(kind, pay):
    """The scalar record of a scalar node of a description (same shape as the worker's _scalar)."""
    if kind == 'none':
        return ['none']
    if kind == 'int':
        return ['int', str(int(pay))]
    if kind == 'float':
        x = float(pay)
        return ['float', repr(x), str(int(x)) if x.is_integer() else None]
    return [kind, pay]


def node_term(kind, pay):
    if kind in SCALAR_KINDS:
        return f'(PScalar {scalar_term(node_scalar(kind, pay))})'
    if kind == 'list':
        return f'(PList {clist(zlit(c) for c in pay)})'
    if kind == 'tuple':
        return f'(PTuple {clist(zlit(c) for c in pay)})'
    if kind in ('set', 'frozenset'):
        return f'(PSet {clist(zlit(c) for c in pay)})'
    if kind == 'dict':
        return f'(PDict {clist(f"({zlit(k)}, {zlit(v)})" for k, v in pay)})'
    if kind == 'obj':
        return f'(PObj {cstr(pay[0])} {clist(f"({cstr(a)}, {zlit(c)})" for a, c in pay[1])})'
    raise ValueError(kind)


def graph_term(nodes):
    return clist(f'({zlit(nid)}, {node_term(kind, pay)})' for nid, kind, pay in nodes)


def tree_term(t):
    k = t[0]
    if k == 'leaf':
        return f'(TLeaf {t[1]} {scalar_term(t[2])})'
    if k == 'cyc':
        return f'(TCyc {int(t[1])}%nat {zlit(t[2])})'
    if k == 'list':
        return f'(TList {clist(tree_term(c) for c in t[1])})'
    if k == 'mset':
        return f'(TMSet {clist(tree_term(c) for c in t[1])})'
    if k in ('dict', 'fdict'):
        ctor = 'TDict' if k == 'dict' else 'TFDict'
        return f'({ctor} {cbool(t[1])} {clist(f"({tree_term(a)}, {tree_term(b)})" for a, b in t[2])})'
    if k == 'obj':
        return f'(TObj {tree_term(t[1])} {tree_term(t[2])})'
    raise ValueError(k)


def val_term(v):
    k = v[0]
    if k == 'scalar':
        return f'(VScalar {scalar_term(v[1])})'
    if k == 'leafnode':
        return f'(VLeafNode {scalar_term(v[1])})'
    if k == 'idhash':
        return f'(VIdHash {int(v[1])}%nat {zlit(v[2])})'
    if k == 'list':
        return f'(VList {clist(val_term(x) for x in v[1])})'
    if k == 'mset':
        return f'(VMSet {clist(val_term(x) for x in v[1])})'
    if k == 'dict':
        return f'(VDict {clist(f"({val_term(a)}, {val_term(b)})" for a, b in v[1])})'
    raise ValueError(k)


def res_term(r, f):
    return f'(ROk {f(r["ok"])})' if 'ok' in r else f'(RErr {cstr(r["err"])})'


def obs_term(o):
    if o.get('timeout'):
        return 'OTimeout'
    if 'exc' in o:
        return f'(ORaised {cstr(o["exc"])} {cbool(o["cycle_msg"])})'
    return (f'(OBuilt {tree_term(o["tree"])} {res_term(o["to_obj"], val_term)} {res_term(o["copy"], tree_term)} '
            f'{cbool(o["copy_eq"])})')


def opts_term(c):
    ake, amk = STRATEGY[c['strategy']]
    return f'(Build_opts {cbool(ake)} {cbool(amk)} {cbool(c["check"])} {cbool(c["ignore"])})'


def case_term(c, rec):
    outs = clist(f'({ENTRY[ep]}, {obs_term(o)})' for ep, o in rec['outs'])
    return f'(Build_c18_case {opts_term(c)} {graph_term(rec["desc"]["nodes"])} {zlit(rec["desc"]["root"])} {outs})'


# ====================================================================== check

def open_findings():
    kfs = [f for f in common.known_findings(PROP) if f.get('status') == 'open']
    if os.environ.get('C18_DEV_KNOWN') == '1':
        p = os.path.join(common.VERIF, 'corpus', 'C18.known.json')
        if os.path.exists(p):
            kfs += [f for f in json.load(open(p))['findings'] if f['property'] == PROP and f.get('status') == 'open']
    out, seen = [], set()
    for f in kfs:
        if f.get('class') in KF_CTOR and f['class'] not in seen:
            seen.add(f['class'])
            out.append(f)
    return out


def open_term(kfs):
    return clist(KF_CTOR[f['class']] for f in kfs) if kfs else '(@nil kf_class)'


def observed_case(c, rec):
    """The case as the implementation saw it (graph re-derived from the real objects) - replayable."""
    return {'nodes': rec['desc']['nodes'], 'root': rec['desc']['root'], 'strategy': c['strategy'],
            'check': c['check'], 'ignore': c['ignore'], 'run_json': c.get('run_json', True), 'tag': c.get('tag', '')}


def result_kind(o):
    if o.get('timeout'):
        return 'timeout'
    if 'exc' in o:
        return 'exc:' + o['exc'] + ('(cycle)' if o['cycle_msg'] else '')
    return 'tree'


class Batch:
    pass


def run_batch(run, wd, st, cases, kfs, tag, acc):
    """Drive the implementation on the cases, evaluate the Gallina verdicts."""
    b = Batch()
    t0 = time.time()
    res = common.run_impl('pC18', 'impl_case', cases, timeout_item=60)
    acc['impl_s'] += time.time() - t0
    b.keep, terms = [], []
    for c, r in zip(cases, res):
        if r is None or 'ok' not in r:
            acc['internal_errors'] += 1
            if acc['internal_errors'] <= MAX_VIOLATIONS:
                run.violation({'kind': 'internal-error', 'case': c, 'result': r})
            continue
        rec = r['ok']
        if 'invalid' in rec:
            acc['invalid'] += 1
            acc['invalid_reasons'][rec['invalid'][:60]] = acc['invalid_reasons'].get(rec['invalid'][:60], 0) + 1
            continue
        n = len(rec['desc']['nodes'])
        oc = observed_case(c, rec)
        b.keep.append({'case': c, 'rec': rec, 'n': n, 'observed': oc})
        terms.append(case_term(c, rec))
        run.count([oc['nodes'], oc['root'], oc['strategy'], oc['check'], oc['ignore']], nontrivial=(n >= 3))
        # coverage counters
        g = acc['gen']
        _, cyc = graph_shape(oc['nodes'], oc['root'])
        for key in ('tag:' + c.get('tag', '?'), 'cyclic' if cyc else 'acyclic', 'strategy:' + c['strategy'],
                    f'check={int(c["check"])},ignore={int(c["ignore"])}'):
            g[key] = g.get(key, 0) + 1
        for ep, o in rec['outs']:
            d = acc['observed'].setdefault(ep, {})
            k = result_kind(o)
            d[k] = d.get(k, 0) + 1
    b.terms = terms
    OPEN = open_term(kfs)
    evals = ['bad_cases holds_C18', f'bad_cases (fun c => is_nil (unexplained {OPEN} c))']
    evals += [f'bad_cases (fun c => negb (explained_by {KF_CTOR[f["class"]]} c))' for f in kfs]
    header = HEADER
    if st['models_ok']:
        evals.append('bad_cases corr_C18')
        header += MODEL_HEADER
    b.header = header
    t0 = time.time()
    chunk = max(40, min(400, -(-len(terms) // common.NPROC)))
    bad, err = common.coq_eval_cases(wd, tag, header, terms, evals, chunk=chunk) if terms else ([[] for _ in evals], None)
    acc['coq_s'] += time.time() - t0
    b.err = err
    if err:
        run.violation({'kind': 'case-evaluation-failed', 'error': err}, no_input=True)
        b.fail, b.unexplained, b.explained, b.corr_bad = [], [], {}, []
        return b
    b.fail, b.unexplained = bad[0], bad[1]
    b.explained = {f['class']: bad[2 + i] for i, f in enumerate(kfs)}     # negb(explained_by) false = explained
    b.corr_bad = bad[2 + len(kfs)] if st['models_ok'] else []
    acc['failing_cases'] += len(b.fail)
    acc['corr_evaluated'] += len(terms) if st['models_ok'] else 0
    for f in kfs:
        acc['kf_counts'][f['class']] = acc['kf_counts'].get(f['class'], 0) + len(b.explained[f['class']])
    return b


def by_size(b, idx):
    return sorted(idx, key=lambda i: (b.keep[i]['n'], i))


def report_violations(run, wd, b, kfs, acc):
    """Cases with a violated clause that no open finding explains: the smallest graph of every distinct
    set of unexplained clauses (Coq's text, compared verbatim), at most MAX_VIOLATIONS in all."""
    if not b.unexplained or acc['violations'] >= MAX_VIOLATIONS:
        return
    OPEN = open_term(kfs)
    cand = by_size(b, b.unexplained)[:60]
    terms = []
    for i in cand:
        terms += [f'fails_C18 {b.terms[i]}', f'unexplained {OPEN} {b.terms[i]}']
    t0 = time.time()
    vals, err = common.coq_eval_terms(wd, 'violated', HEADER, terms)
    acc['coq_s'] += time.time() - t0
    seen = set()
    for j, i in enumerate(cand):
        fails, unex = (vals[2 * j], vals[2 * j + 1]) if vals else (f'evaluation failed: {err}', f'evaluation failed: {err}')
        if unex in seen and vals:
            continue
        seen.add(unex)
        k = b.keep[i]
        run.violation({'kind': 'property-violated', 'case': k['observed'], 'generated_case': k['case'],
                       'outputs': k['rec']['outs'], 'violated_clauses': fails, 'unexplained_clauses': unex,
                       'open_findings': [f['class'] for f in kfs], 'cases_with_unexplained_clauses': len(b.unexplained),
                       'replay': './check C18 --replay <this file>'})
        acc['violations'] += 1
        if acc['violations'] >= MAX_VIOLATIONS or not vals:
            break


def report_corr(run, wd, b, acc):
    if not b.corr_bad:
        return
    i = by_size(b, b.corr_bad)[0]
    k = b.keep[i]
    c, rec = k['case'], k['rec']
    term = (f'map (fun ep => (ep, observe (model_run ep {opts_term(c)} {graph_term(rec["desc"]["nodes"])} '
            f'{zlit(rec["desc"]["root"])}))) [EJson; EBasic; EPyObj]')
    t0 = time.time()
    vals, err = common.coq_eval_terms(wd, 'predicted', HEADER + MODEL_HEADER, [term])
    acc['coq_s'] += time.time() - t0
    run.violation({'kind': 'correspondence-broken', 'what': 'corr_C18: an entry point did something else than the model predicts',
                   'disagreeing_cases': len(b.corr_bad), 'case': k['observed'], 'outputs': rec['outs'],
                   'model_predicts': vals[0] if vals else f'evaluation failed: {err}',
                   'replay': './check C18 --replay <this file>'}, no_input=True)


def load_corpus():
    p = os.path.join(common.VERIF, 'corpus', 'C18.jsonl')
    return [json.loads(l) for l in open(p) if l.strip()] if os.path.exists(p) else []


def check(tier, seed):
    run = common.Run(PROP, tier, seed)
    wd = common.Workdir(PROP)
    rng = random.Random(seed)
    try:
        # C18_NO_PROOFS: development switch (the proofs are written in parallel). The model target is given a
        # second time instead of an empty list: `make` without a target would build every file of the project.
        st = common.build(MODEL_TARGETS, list(MODEL_TARGETS) if NO_PROOFS else PROOF_TARGETS)
        common.proof_evidence(run, wd, PROP, st, THEOREMS)
        kfs = open_findings()
        n_graphs = int(os.environ.get('C18_GRAPHS', '220' if tier == 'quick' else '2200'))
        acc = {'impl_s': 0.0, 'coq_s': 0.0, 'invalid': 0, 'invalid_reasons': {}, 'internal_errors': 0, 'gen': {},
               'observed': {}, 'failing_cases': 0, 'corr_evaluated': 0, 'kf_counts': {}, 'violations': 0}
        stats = {'graphs_by_tag': {}, 'graphs_cyclic': 0, 'graphs_acyclic': 0}
        corpus = load_corpus()
        cases = corpus + gen_cases(rng, tier, n_graphs, stats)
        b = run_batch(run, wd, st, cases, kfs, 'cases', acc)
        report_violations(run, wd, b, kfs, acc)
        if not run.violations:
            report_corr(run, wd, b, acc)
        if st['broken'] and not NO_PROOFS and not run.violations:
            # the tie is broken: search harder for an input on which the code violates the property
            more = gen_cases(random.Random(seed + 1), 'thorough', 10 * int(os.environ.get('C18_GRAPHS', '220')), stats)
            b2 = run_batch(run, wd, st, more, kfs, 'search', acc)
            report_violations(run, wd, b2, kfs, acc)
            if not run.violations:
                report_corr(run, wd, b2, acc)
            if not run.violations:
                run.violation({'kind': 'tie-broken', 'what': st['broken']}, no_input=True)
        for f in kfs:
            n = acc['kf_counts'].get(f['class'], 0)
            if n > 0:
                run.known(f'id={f["id"]} class={f["class"]} cases={n} {f["what"]}')
        run.cov['rule'] = (
            'object graphs as node lists (quick: <= ~14 nodes, depth <= 4, width <= 4; thorough a bit bigger), from one seeded PRNG: '
            '(a) trees over all kinds: None/bool/int (incl. 10**30, negatives)/float (-0.0, 1e300, inf, integral)/str/bytes scalars, '
            'empty containers, nested list/tuple/set/frozenset/dict, dictionary keys of every scalar type; (b) DAGs: children re-used '
            '(same child twice in one list, a container under several parents, diamonds); (c) self-loops through a list, a dict value '
            'or an attribute at depth 0..4; (d) mutual cycles of length 2-3 through lists, dict values, attributes and tuples, also with '
            'sharing; (e) instances of plain classes P, Q and of a dataclass DC, nested and shared; (f) ~5%: tuples/frozensets/instances '
            'as dictionary keys or set elements; (g) ~5%: bytes; corpus: rings of instances with scalar attributes only (seed C18-a), '
            'frozenset keys inside the proved domain (first key / unsorted strategy / nested / shared). Each graph under the 3 key strategies x (check_for_cycles, '
            'ignore_cycles) in {TF,TT,FF,FT} (cyclic graphs: TF,TT only), on json.build_tree (acyclic: always; cyclic: ~10%), '
            'BasicBuilder().build_tree and pydiff.build_tree, each under a 10 s wall-clock guard; the graph given to Coq is re-derived '
            'from the real objects; corpus cases first; distinct by (observed graph, strategy, flags)')
        run.cov['generator'] = dict(stats, corpus_cases=len(corpus), generated_cases=len(cases) - len(corpus), counts=acc['gen'])
        run.cov['invalid_generated'] = acc['invalid']
        run.cov['invalid_reasons'] = acc['invalid_reasons']
        run.cov['observed'] = acc['observed']
        run.cov['failing_cases'] = acc['failing_cases']
        run.cov['explained_by_open_finding'] = acc['kf_counts']
        run.cov['open_findings'] = [f['id'] for f in kfs]
        run.cov['traces_validated_against_impl'] = acc['corr_evaluated']
        run.cov['timing'] = {'implementation_s': round(acc['impl_s'], 1), 'coq_s': round(acc['coq_s'], 1),
                             'build_s': st['build_s']}
        small = [k for k in sorted(b.keep, key=lambda k: k['n']) if k['n'] >= 3][:3]
        run.cov['samples'] = [k['observed'] for k in small]
        run.assumptions = ['set iteration order and dir() order are read from the real objects (oracle)',
                           'strings are ASCII; NaN excluded',
                           'hash values assumed consistent with ==']
        common.log(f'C18: cases={len(cases)} invalid={acc["invalid"]} impl={acc["impl_s"]:.1f}s coq={acc["coq_s"]:.1f}s '
                   f'failing={acc["failing_cases"]} corr_bad={len(b.corr_bad)}')
        return run.finish()
    finally:
        wd.cleanup()


# ====================================================================== replay

def case_of_replay(obj):
    """A case object, {'case': case}, or an entry of known_findings.json (its 'replay' a case or the legacy
    form {'obj': plain JSON value, 'opts': [strategy]})."""
    if isinstance(obj, dict) and 'nodes' in obj and 'root' in obj:
        return obj
    if isinstance(obj, dict) and isinstance(obj.get('case'), dict):
        return case_of_replay(obj['case'])
    if isinstance(obj, dict) and isinstance(obj.get('replay'), dict):
        return case_of_replay(obj['replay'])
    if isinstance(obj, dict) and 'obj' in obj and 'opts' in obj:
        nodes, root = desc_from_python(obj['obj'])
        return {'nodes': nodes, 'root': root, 'strategy': obj['opts'][0], 'check': True, 'ignore': False,
                'run_json': True, 'tag': 'legacy-replay'}
    return None


def replay(path):
    c = case_of_replay(json.load(open(path)))
    if c is None:
        print('replay file holds no input; re-running the quick check')
        return check('quick', 1)
    c = dict({'strategy': 'auto', 'check': True, 'ignore': False, 'run_json': True, 'tag': 'replay'}, **c)
    wd = common.Workdir(PROP + 'r')
    try:
        common.build(MODEL_TARGETS, list(MODEL_TARGETS))
        r = common.run_impl('pC18', 'impl_case', [c], nproc=1, timeout_item=60)[0]
        print(json.dumps(r, indent=1)[:6000])
        bad = True
        if r is not None and 'ok' in r and 'invalid' not in r['ok']:
            term = case_term(c, r['ok'])
            vals, err = common.coq_eval_terms(wd, 'replay', HEADER, [f'holds_C18 {term}', f'fails_C18 {term}',
                                                                     f'unexplained (@nil kf_class) {term}'])
            if vals:
                print('holds_C18 =', vals[0])
                print('violated clauses =', vals[1])
                print('unexplained (no open finding) =', vals[2])
                bad = vals[0].strip() != 'true'
            else:
                print('evaluation failed:', err)
        if bad:
            print(f'VIOLATION property={PROP} replay={path}')
            return 1
        print('replay: property holds on this input')
        return 0
    finally:
        wd.cleanup()
