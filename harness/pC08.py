"""C08 - mappings are unordered, lists are ordered.

Implementation side: for a pair of documents (a, b) and K arrangements of the keys of their mappings (at every depth, both
documents; arrangement 0 is the pair as given) every arrangement is built under one of the 9 option sets through EACH of the
three entry points that turn plain data into a tree - graphtage.json.build_tree (all file loaders),
graphtage.builder.BasicBuilder(options).build_tree and graphtage.pydiff.build_tree (PyObjBuilder, pydiff.diff) - and diffed
(one Gallina case per entry point, the same statement and the same model `build` for all three): recorded are the built trees, the complete nested edit script with own final costs, ==
between the tree of the document as given and the tree of its permuted copy, and the final cost of diffing those two.
For lists: two positions are exchanged and the final cost of the edit is recorded.
Verdicts: Gallina `holds_C08` / `holds_C08_partial` / `in_domain` (BuildSpec.v: equal costs, equal multisets of
paired/removed/inserted items named by key paths, copy == and cost 0, swap of data-unequal elements costs > 0) and
`corr_C08` (BuildCorr.v: built trees = model `build`, costs = script model, first arrangement's script = model's) under
vm_compute.  Python only generates, permutes, drives, serialises, counts.
"""
import itertools
import json
import os
import random

from harness import common, scriptlib as sl
from harness.pC09 import doc_term, opts_term

PROP = 'C08'
THEOREMS = ['C08_build_canonical_', 'C08_dict_script_', 'C08_tree_perm', 'C08_tperm_cost', 'C08_fixed_cost_', 'C08_cost_',
            'C08_pairing', 'C08_equal_', 'C08_node_equal_', 'C08_copy_zero_', 'C08_swap_partial_', 'C08_swap_refuted_D4',
            'C08_swap_refuted_D16']
SPEC_TARGETS = ['theories/BuildSpec.vo']
MODEL_TARGETS = ['theories/BuildSpec.vo', 'theories/BuildCorr.vo']
HEADER_SPEC = ('From Coq Require Import ZArith List Bool.\nRequire Import GT.PyBase GT.Data GT.ScriptSpec GT.BuildModel GT.BuildSpec.\n'
               'Import ListNotations.\nOpen Scope Z_scope.\n')
HEADER_MODEL = HEADER_SPEC + 'Require Import GT.ScriptModel GT.BuildCorr.\n'
CORPUS = os.path.join(common.VERIF, 'corpus', 'C08.jsonl')
KNOWN_FALLBACK = os.path.join(common.VERIF, 'corpus', 'C08.known.json')
KF_CLASSES = ['kf_C08_swap_cross_type', 'kf_C08_swap_zero_size', 'kf_C08_mixed_key_order', 'kf_C08_mixed_key_pairing']


# ------------------------------------------------------------------ transport of documents
# JSON objects keep their order through json.dumps / json.loads, so documents with string keys travel as they are;
# mappings with other key types (the YAML stream) travel as {"__pairs__": [[key, value], ...]}.

def enc(v):
    if isinstance(v, dict):
        if all(isinstance(k, str) for k in v) and '__pairs__' not in v:
            return {k: enc(x) for k, x in v.items()}
        return {'__pairs__': [[k, enc(x)] for k, x in v.items()]}
    if isinstance(v, list):
        return [enc(x) for x in v]
    return v


def dec(v):
    if isinstance(v, dict):
        if list(v) == ['__pairs__']:
            return {k: dec(x) for k, x in v['__pairs__']}
        return {k: dec(x) for k, x in v.items()}
    if isinstance(v, list):
        return [dec(x) for x in v]
    return v


# ------------------------------------------------------------------ implementation side (worker)

def _top_cost(s):
    return s[2] if s[0] == 'comp' else s[1]


def _script(a, b):
    e = a.edits(b)
    while e.valid and not e.is_complete() and e.tighten_bounds():
        pass
    return sl.ser_edit(e)


def _final_cost(a, b):
    e = a.edits(b)
    while e.valid and not e.is_complete() and e.tighten_bounds():
        pass
    sl._tighten(e)
    return sl.cost_of(e)


def impl_case(item):
    """item: {'kind': 'perm', 'opts': [ds, lm], 'vars': [[a, b], ...]}  (vars[0] is the pair as given)
          | {'kind': 'swap', 'opts': [ds, lm], 'l': [...], 'i': int, 'j': int}"""
    import graphtage
    from graphtage import json as gjson
    sl._quiet()
    mk = lambda: graphtage.BuildOptions(**sl.options_kwargs(*item['opts']))     # noqa: E731
    bt = lambda v: gjson.build_tree(v, mk())                                    # noqa: E731
    if item['kind'] == 'swap':
        l = dec(item['l'])
        i, j = item['i'], item['j']
        m = list(l)
        m[i], m[j] = m[j], m[i]
        rec = sl.run_script(lambda: (bt(l), bt(m)))
        return {'ta': rec['a'], 'tb': rec['b'], 'cost': _top_cost(rec['script']), 'matchings': rec['matchings'],
                'orders': rec['orders']}
    vs = [(dec(a), dec(b)) for a, b in item['vars']]
    builders = entry_points(mk, item.get('dir'))
    try:
        return {'eps': {ep: _perm_through(builders[ep], vs, item.get('no_oracle')) for ep in item.get('eps', ENTRY_POINTS)}}
    finally:
        if item.get('dir'):
            import shutil
            shutil.rmtree(os.path.join(item['dir'], f'c{os.getpid()}'), ignore_errors=True)


ENTRY_POINTS = ['json', 'basic', 'pyobj']


def entry_points(mk, dirname=None):
    """The ways plain data becomes a tree: graphtage.json.build_tree (all file loaders),
    graphtage.builder.BasicBuilder(options).build_tree, graphtage.pydiff.build_tree (PyObjBuilder; pydiff.diff), and - for
    mappings whose keys are not all strings - a YAML file read by the yaml Filetype."""
    from graphtage import json as gjson
    from graphtage import builder as gbuilder
    from graphtage import pydiff as gpydiff

    def through_yaml(v):
        import graphtage
        import yaml
        d = os.path.join(dirname, f'c{os.getpid()}')
        os.makedirs(d, exist_ok=True)
        path = os.path.join(d, 'doc.yaml')
        text = yaml.dump(v, sort_keys=False, default_flow_style=False, allow_unicode=True)
        back = yaml.safe_load(text)
        if repr(back) != repr(v):                      # the harness's own writer must be faithful (order and types of keys)
            raise RuntimeError(f'yaml.dump does not round-trip {v!r}: {back!r}')
        with open(path, 'w') as f:
            f.write(text)
        return graphtage.FILETYPES_BY_TYPENAME['yaml'].build_tree(path, mk())

    return {'json': lambda v: gjson.build_tree(v, mk()),
            'basic': lambda v: gbuilder.BasicBuilder(mk()).build_tree(v),
            'pyobj': lambda v: gpydiff.build_tree(v, mk()),
            'yaml': through_yaml}


def _perm_through(bt, vs, no_oracle):
    a0, b0 = vs[0]
    out = []
    oracle = None
    for k, (a, b) in enumerate(vs):
        if k == 0 and not no_oracle:
            rec = sl.run_script(lambda: (bt(a), bt(b)))
            ta, tb, script = rec['a'], rec['b'], rec['script']
            oracle = {'matchings': rec['matchings'], 'orders': rec['orders']}
        else:
            x, y = bt(a), bt(b)
            ta, tb = sl.ser_tree(x), sl.ser_tree(y)
            script = _script(x, y)
        out.append({'ta': ta, 'tb': tb, 'script': script,
                    'eq_a': bool(bt(a0) == bt(a)), 'cost_a': _final_cost(bt(a0), bt(a)),
                    'eq_b': bool(bt(b0) == bt(b)), 'cost_b': _final_cost(bt(b0), bt(b))})
    return {'vars': out, 'oracle': oracle or {'matchings': [], 'orders': []}}


# ------------------------------------------------------------------ Gallina terms

def oracle_term(o):
    ms = ';'.join(f'({sl.nats(p)}, {sl.nats(q)}, [{";".join(f"({x}%nat,{y}%nat)" for x, y in pairs)}])'
                  for p, q, pairs in o['matchings'])
    od = ';'.join(f'({sl.nats(p)}, {sl.nats(q)}, {sl.nats(x)})' for p, q, x in o['orders'])
    return f'(Build_oracle [{ms}] [{od}])'


def case_term(item, r):
    o = opts_term(*item['opts'])
    if item['kind'] == 'swap':
        l = dec(item['l'])
        return (f'(CSwap (Build_swap_case {o} [{";".join(doc_term(x) for x in l)}] {item["i"]}%nat {item["j"]}%nat '
                f'{sl.tree_term(r["ta"])} {sl.tree_term(r["tb"])} {sl.z(r["cost"])}))')
    vs = []
    for (a, b), v in zip(item['vars'], r['vars']):
        vs.append(f'(Build_variant {doc_term(dec(a))} {doc_term(dec(b))} {sl.tree_term(v["ta"])} {sl.tree_term(v["tb"])} '
                  f'{sl.edit_term(v["script"])} {sl.b(v["eq_a"])} {sl.z(v["cost_a"])} {sl.b(v["eq_b"])} {sl.z(v["cost_b"])})')
    a0, b0 = item['vars'][0]
    return f'(CPerm (Build_perm_case {o} {doc_term(dec(a0))} {doc_term(dec(b0))} [{";".join(vs)}]))'


def corr_term(item, r):
    o = r['oracle'] if item['kind'] == 'perm' else r
    return f'(Build_corr_case08 {case_term(item, r)} {oracle_term(o)})'


# ------------------------------------------------------------------ generators

STRS = ['a', 'b', 'ab', 'abc', 'x', '', '1', '10', 'true', 'null', 'hello', 'hallo', 'k', 'é', 'aXb', 'None', '~']
KEYS = ['a', 'b', 'c', 'key', 'kez', 'k1', 'k2', 'aaaaaaaX', 'aaaaaaaY', '', 'z', 'B']
# keys a YAML reader would treat specially, and keys whose order under < differs from their order as numbers / folded case
TRICKY_KEYS = ['on', 'off', 'yes', 'no', 'null', '~', 'true', '1', '10', '9', '1.0', '-1', 'a b', ' a', 'a:', '- a', '#k', 'é', 'e',
               'E', 'ä', 'z', 'Z', '日本', "it's", '"q"', 'a\nb', '\t', '0x1', '1e3', '.inf', '<<', '', 'None', 'True']


# families of DIFFERENT strings that some normalisation would identify (Unicode NFC/NFD/NFKC, case folding, stripping,
# numeric or boolean reading, zero-width characters): as mapping keys they are distinct members whose values differ
NEAR_KEY_FAMILIES = [
    ['\u00e9', 'e\u0301'], ['\u00c5', 'A\u030a', '\u212b'], ['\u1e9b\u0323', '\u017f\u0323\u0307', '\u017f\u0307\u0323'],
    ['\u00f1o', 'n\u0303o'], ['Key', 'key', 'KEY'], ['a', 'a ', ' a', 'a\t'], ['1', '01', '1.0', '1e0', '+1'],
    ['True', 'true', 'TRUE'], ['', '\u200b', '\ufeff'], ['12', '\uff11\uff12'], ['fi', '\ufb01'], ['ss', '\u00df'],
    ['null', 'Null', 'None'], ['k\u0327', '\u0137'], ['x\u00a0y', 'x y'],
]


NEAR_FLAT = {k for fam in NEAR_KEY_FAMILIES for k in fam}


def near_keys(rng):
    """two or three members of one family, in random order"""
    fam = rng.choice(NEAR_KEY_FAMILIES)
    return rng.sample(fam, rng.randint(2, min(3, len(fam))))


def with_near_keys(rng, m):
    """the mapping m with a few near-equal keys added, all with different values, at random positions"""
    items = list(m.items())
    for j, k in enumerate(near_keys(rng)):
        if k not in m:
            items.insert(rng.randint(0, len(items)), (k, rng.choice([j + 1, f'v{j}', [j], {'n': j}])))
    return dict(items)


def reverse_keys(v):
    """the same document with the members of every mapping in reverse order"""
    if isinstance(v, dict):
        return {k: reverse_keys(x) for k, x in reversed(list(v.items()))}
    if isinstance(v, list):
        return [reverse_keys(x) for x in v]
    return v


def g_scalar(rng):
    r = rng.random()
    if r < 0.3:
        return rng.choice([0, 1, 2, 5, 10, 11, 100, -1, 12345])
    if r < 0.6:
        return rng.choice(STRS)
    if r < 0.7:
        return rng.choice([True, False])
    if r < 0.78:
        return None
    if r < 0.88:
        return rng.choice([0.5, 1.0, 1.5, 2.25, -0.0, 1e16, 10.0])
    return ''.join(rng.choice('abc') for _ in range(rng.randint(0, 5)))


def g_doc(rng, depth, width, keys, top=False):
    r = rng.random()
    if not top and (depth <= 0 or r < 0.3):
        return g_scalar(rng)
    if r < 0.5:
        return [g_doc(rng, depth - 1, width, keys) for _ in range(rng.randint(0, width))]
    ks = rng.sample(keys, rng.randint(1 if top else 0, min(width, len(keys))))
    m = {k: g_doc(rng, depth - 1, width, keys) for k in ks}
    return with_near_keys(rng, m) if rng.random() < 0.3 else m


def permute(rng, v):
    """the same document with the members of every mapping in a random order"""
    if isinstance(v, dict):
        items = [(k, permute(rng, x)) for k, x in v.items()]
        rng.shuffle(items)
        return dict(items)
    if isinstance(v, list):
        return [permute(rng, x) for x in v]
    return v


def reorder_lists(rng, v):
    """the same document with the elements of every list in a random order (and mappings left as they are)"""
    if isinstance(v, list):
        out = [reorder_lists(rng, x) for x in v]
        rng.shuffle(out)
        return out
    if isinstance(v, dict):
        return {k: reorder_lists(rng, x) for k, x in v.items()}
    return v


def all_perms(v, depth):
    """every arrangement of the keys of the mappings in the top `depth` levels of v (lazily)"""
    if depth <= 0 or not isinstance(v, (dict, list)):
        yield v
        return
    if isinstance(v, list):
        for combo in itertools.product(*[list(all_perms(x, depth - 1)) for x in v]):
            yield list(combo)
        return
    keys = list(v)
    subs = [list(all_perms(v[k], depth - 1)) for k in keys]
    for order in itertools.permutations(range(len(keys))):
        for combo in itertools.product(*[subs[i] for i in order]):
            yield {keys[i]: x for i, x in zip(order, combo)}


def n_mappings(v):
    if isinstance(v, dict):
        return (1 if len(v) > 1 else 0) + sum(n_mappings(x) for x in v.values())
    if isinstance(v, list):
        return sum(n_mappings(x) for x in v)
    return 0


def g_small(rng):
    """documents whose mappings have at most 4 keys, nested at most 2 deep (exhaustive stream)"""
    def inner(d):
        r = rng.random()
        if d <= 0 or r < 0.35:
            return g_scalar(rng)
        if r < 0.5:
            return [inner(d - 1) for _ in range(rng.randint(0, 2))]
        ks = rng.sample(KEYS[:6], rng.randint(1, 3))
        return {k: inner(d - 1) for k in ks}
    if rng.random() < 0.4:
        nk = near_keys(rng)
        ks = nk + rng.sample(KEYS[:6], rng.randint(0, 4 - len(nk)))
        rng.shuffle(ks)
    else:
        ks = rng.sample(KEYS[:6], rng.randint(2, 4))
    return {k: (j if k in NEAR_FLAT else inner(1)) for j, k in enumerate(ks)}


def gen_items(tier, rng):
    items = []
    if os.path.exists(CORPUS):
        items += [json.loads(l) for l in open(CORPUS) if l.strip()]
    quick = tier == 'quick'
    # (1) random nested documents, mutation partner, K random arrangements of both
    n, K = (230, 5) if quick else (1000, 8)
    for k in range(n):
        keys = KEYS if k % 3 else TRICKY_KEYS
        depth, width = (3, 4) if k % 4 else (4, 5)
        a = g_doc(rng, depth, width, keys, top=True)
        if rng.random() < 0.75:
            b = sl.mutate(rng, a)
            if rng.random() < 0.4:
                b = sl.mutate(rng, b)
        else:
            b = g_doc(rng, depth, width, keys, top=True)
        if not ok_doc(a) or not ok_doc(b):
            continue
        vs = [[a, b], [reverse_keys(a), reverse_keys(b)]] + [[permute(rng, a), permute(rng, b)] for _ in range(K - 2)]
        items.append({'kind': 'perm', 'opts': list(sl.OPTION_SETS[k % 9]), 'vars': [[enc(x), enc(y)] for x, y in vs], 'stream': 'random'})
    # (2) exhaustive: every arrangement of mappings of <= 4 keys at <= 2 depths (quick: a seeded sample of them)
    n, cap = (44, 18) if quick else (60, 120)
    for k in range(n):
        a = g_small(rng)
        b = sl.mutate(rng, a) if rng.random() < 0.7 else g_small(rng)
        if not ok_doc(a) or not ok_doc(b):
            continue
        pa = list(itertools.islice(all_perms(a, 2), 5000))
        total = len(pa)
        if len(pa) > cap:
            pa = [pa[0]] + rng.sample(pa[1:], cap - 1)
        pb = list(itertools.islice(all_perms(b, 2), 5000))
        vs = [[a, b]] + [[x, rng.choice(pb)] for x in pa[1:]] + [[a, y] for y in rng.sample(pb, min(len(pb), 4))]
        items.append({'kind': 'perm', 'opts': list(sl.OPTION_SETS[(3 * k + 6) % 9 if k % 2 else k % 9]),
                      'vars': [[enc(x), enc(y)] for x, y in vs], 'stream': 'exhaustive', 'arrangements_of_a': total,
                      'all_covered': total == len(pa)})
    # (3) lists with two positions exchanged
    n = 500 if quick else 3000
    for k in range(n):
        r = rng.random()
        if r < 0.25:
            l = [g_scalar(rng) for _ in range(rng.randint(2, 5))]
        elif r < 0.4:
            l = [rng.choice([1, 1.0, True, 0, 0.0, False, -0.0, '', None, '1', 2]) for _ in range(rng.randint(2, 4))]
        else:
            l = [g_doc(rng, 2, 3, KEYS) for _ in range(rng.randint(2, 5))]
        i, j = sorted(rng.sample(range(len(l)), 2))
        if 0.4 <= r < 0.6:
            # the two exchanged elements hold the same items in a different LIST order (lists are ordered at every depth)
            x = [g_scalar(rng) for _ in range(rng.randint(2, 4))] if r < 0.5 else g_doc(rng, 2, 3, KEYS, top=True)
            l[i], l[j] = x, reorder_lists(rng, x)
        if not ok_doc(l):
            continue
        items.append({'kind': 'swap', 'opts': list(sl.OPTION_SETS[k % 9]), 'l': enc(l), 'i': i, 'j': j, 'stream': 'swap'})
    return items


def ok_doc(v):
    """inside the domain of the theorems and of the serialiser: string keys, finite floats"""
    if isinstance(v, dict):
        return all(isinstance(k, str) and ok_doc(x) for k, x in v.items())
    if isinstance(v, list):
        return all(ok_doc(x) for x in v)
    if isinstance(v, float):
        return v == v and abs(v) != float('inf')
    return True


MIXED_KEYS = [1, 2, 9, 10, 11, -1, '1', '9', '10', 'a', 'b', '', 0.5, 9.5, 2.0, True, False, 'True', '0.5', 100, '1e2', '15', '16']
# three keys that LeafNode.__lt__ orders in a cycle: x < y by value, str(y) < z and z < str(x) as strings
KEY_CYCLES = [(2, 10, '15'), (False, 100, '1e2'), (9, 10, '11'), (3, 20, '25'), (2.5, 10, '12'), (5, 40.0, '45')]
MIXED_EPS = ['yaml', 'basic', 'pyobj']


def gen_mixed(tier, rng, workdir):
    """Mappings with keys of mixed type (YAML files, Python objects): LeafNode.__lt__ falls back to comparing str(), the
    order is not total (cycles, incomparable keys) and sorted() in DictNode.from_dict is not canonical.  The theorems
    assume string keys; the property does not, so cost invariance and copy-equality are judged here too."""
    items = []
    n, K = (72, 6) if tier == 'quick' else (600, 10)
    for k in range(n):
        def keys(lo, hi):
            ks = list(rng.choice(KEY_CYCLES)) if rng.random() < 0.6 else []
            for key in rng.sample(MIXED_KEYS, rng.randint(lo, hi)):
                if not any(key == x for x in ks):          # 1 == True == 1.0 are one Python key
                    ks.append(key)
            rng.shuffle(ks)
            return ks

        def mk(d):
            return {key: (mk(d - 1) if d > 0 and rng.random() < 0.25 else g_scalar(rng)) for key in keys(0, 3) or keys(2, 3)}
        a = mk(1)
        b = dict(a)
        for _ in range(rng.randint(1, 3)):                 # a near copy: change values, drop keys, add keys
            ks = list(b)
            r = rng.random()
            if r < 0.25 and ks:
                b[rng.choice(ks)] = g_scalar(rng)
            elif r < 0.45 and ks:
                # a value moves to a new key while its old key gets another value (a tempting cross-key match)
                k0, nk = rng.choice(ks), rng.choice(MIXED_KEYS)
                if not any(nk == x for x in b) and not isinstance(b[k0], dict):
                    b[nk], b[k0] = b[k0], g_scalar(rng)
            elif r < 0.6 and ks:
                del b[rng.choice(ks)]
            else:
                key = rng.choice(MIXED_KEYS)
                if not any(key == x for x in b):
                    b[key] = rng.choice([g_scalar(rng)] + [v for v in a.values() if not isinstance(v, dict)])
        if rng.random() < 0.15:
            b = mk(1)
        if not (yaml_ok(a) and yaml_ok(b)):
            continue
        vs = [[a, b]] + [[permute(rng, a), permute(rng, b)] for _ in range(K - 1)]
        items.append({'kind': 'perm', 'opts': list(sl.OPTION_SETS[k % 9] if k % 4 else sl.OPTION_SETS[3 * (k % 2)]),
                      'vars': [[enc(x), enc(y)] for x, y in vs],
                      'stream': 'mixed-keys', 'no_oracle': True, 'eps': MIXED_EPS, 'dir': workdir})
    return items


def yaml_ok(v):
    if isinstance(v, dict):
        return all(yaml_ok(x) for x in v.values())
    if isinstance(v, list):
        return all(yaml_ok(x) for x in v)
    if isinstance(v, float):
        return v == v and abs(v) != float('inf')
    return True


def nontrivial(it):
    if it['kind'] == 'swap':
        l = dec(it['l'])
        return l[it['i']] != l[it['j']] or type(l[it['i']]) is not type(l[it['j']])
    a, b = dec(it['vars'][0][0]), dec(it['vars'][0][1])
    first = json.dumps(it['vars'][0])
    return n_mappings(a) + n_mappings(b) > 0 and any(json.dumps(v) != first for v in it['vars'][1:])


def pub(it):
    return {k: it[k] for k in ('kind', 'opts', 'vars', 'l', 'i', 'j', 'no_oracle', 'ep', 'eps', 'stream') if k in it}


# ------------------------------------------------------------------ check / replay

def open_findings():
    listed = common.known_findings(PROP)
    fs = [f for f in listed if f.get('status') == 'open']
    have = {f['id'] for f in listed}
    if os.path.exists(KNOWN_FALLBACK):          # proposals not merged into known_findings.json yet
        fs += [f for f in json.load(open(KNOWN_FALLBACK))['findings']
               if f['property'] == PROP and f.get('status') == 'open' and f['id'] not in have]
    return fs


def evaluate(run, wd, st, items, tag='cases', with_corr=True, count=True, domain_fn='in_domain'):
    res = common.run_impl('pC08', 'impl_case', items, timeout_item=300)
    ok = []
    for it, r in zip(items, res):
        if count:
            run.count(pub(it), nontrivial(it))
        if 'ok' in r:
            if it['kind'] == 'perm':
                # one case per entry point: the same Gallina statement about the trees each of them built
                for ep, ru in r['ok']['eps'].items():
                    ok.append((dict(it, ep=ep, eps=[ep]), ru))
            else:
                ok.append((it, r['ok']))
        else:
            run.violation({'kind': 'internal-error', 'input': pub(it), 'result': r,
                           'note': 'building or diffing a key-permuted copy / a list with two elements exchanged raised'})
    use_model = st['models_ok'] and with_corr
    if use_model:
        header = HEADER_MODEL
        terms = [corr_term(it, r) for it, r in ok]
        wrap = lambda f: f'bad_cases (fun k => {f} (k_case k))'      # noqa: E731
    else:
        header = HEADER_SPEC
        terms = [case_term(it, r) for it, r in ok]
        wrap = lambda f: f'bad_cases {f}'                             # noqa: E731
    evals = [wrap(domain_fn), wrap('holds_C08'), wrap('holds_C08_partial')]
    evals += [wrap(f'(fun c => negb ({kf} c))') for kf in KF_CLASSES]            # indices IN the class
    if use_model:
        evals.append('bad_cases corr_C08')
    bad, err = common.coq_eval_cases(wd, tag, header, terms, evals, chunk=40)
    if err:
        run.violation({'kind': 'case-evaluation-failed', 'error': err}, no_input=True)
        return ok, None
    return ok, {'domain': bad[0], 'holds': bad[1], 'partial': bad[2], 'classes': dict(zip(KF_CLASSES, bad[3:3 + len(KF_CLASSES)])),
                'corr': bad[3 + len(KF_CLASSES)] if use_model else []}


def report(run, ok, bad, known):
    """holds false => violation unless inside the class of an open listed finding"""
    cls_of = {f.get('class'): f for f in known}
    hits = {}
    n_viol = 0
    for i in bad['holds']:
        f = next((cls_of[c] for c in KF_CLASSES if i in bad['classes'][c] and c in cls_of), None)
        if f is not None:
            hits.setdefault(f['id'], []).append(i)
            continue
        if n_viol < 3:
            it, r = ok[i]
            run.violation({'kind': 'holds_C08-false', 'input': pub(it), 'entry_point': it.get('ep', 'json'), 'observed': summary(it, r),
                           'note': 'cost / pairing changes with the order of keys, or a key-permuted copy is not equal at cost 0, '
                                   'or swapping two unequal list elements costs 0 outside the open classes D4 / D16 / D40'})
        n_viol += 1
    for i in bad['domain']:
        if n_viol < 3:
            run.violation({'kind': 'generator-outside-domain', 'input': pub(ok[i][0])}, no_input=True)
        n_viol += 1
    for f in known:
        idx = hits.get(f['id'], [])
        if idx:
            it = ok[idx[0]][0]
            eg = (f"l={json.dumps(it['l'])[:100]} i={it['i']} j={it['j']}" if it['kind'] == 'swap' else
                  f"a={json.dumps(it['vars'][0][0])[:90]} b={json.dumps(it['vars'][0][1])[:90]} through {it.get('ep')}")
            run.known(f"{f['id']} {f['what']} [{len(idx)} case(s) in class {f.get('class')}, e.g. {eg} opts={it['opts']}]")
    return hits


def summary(it, r):
    if it['kind'] == 'swap':
        return {'cost': r['cost']}
    costs = [_top_cost(v['script']) for v in r['vars']]
    other = next((k for k, c in enumerate(costs) if c != costs[0]), None)
    out = {'costs': costs, 'eq': [[v['eq_a'], v['eq_b']] for v in r['vars']],
           'copy_costs': [[v['cost_a'], v['cost_b']] for v in r['vars']]}
    if other is not None:          # for the reader of the replay: the two key orders whose costs differ
        out['key_orders_with_different_cost'] = {'arrangement_0': it['vars'][0], 'cost_0': costs[0],
                                                 f'arrangement_{other}': it['vars'][other], f'cost_{other}': costs[other]}
    return out


def check(tier, seed):
    run = common.Run(PROP, tier, seed)
    wd = common.Workdir(PROP)
    rng = random.Random(seed)
    try:
        st = common.build(MODEL_TARGETS, ['props/PropC08.vo'])
        if not st['models_ok']:
            with common.Lock():
                common.coq_make(SPEC_TARGETS)
        common.proof_evidence(run, wd, PROP, st, THEOREMS)
        known = open_findings()
        items = gen_items(tier, rng)
        ok, bad = evaluate(run, wd, st, [it for it in items if it.get('stream') != 'mixed-keys'])
        hits = report(run, ok, bad, known) if bad else {}
        bad_corr = bad['corr'] if bad else []
        run.cov['traces_validated_against_impl'] = len(ok) if st['models_ok'] else 0
        run.cov['corr_disagreements'] = len(bad_corr)
        run.cov['holds_failures_total'] = len(bad['holds']) if bad else None
        run.cov['known_finding_cases'] = {k: len(v) for k, v in hits.items()}
        streams = {}
        for it, r in ok:
            s = streams.setdefault(it.get('stream', 'corpus') + ('/' + it['ep'] if 'ep' in it else ''), {'cases': 0, 'arrangements': 0})
            s['cases'] += 1
            s['arrangements'] += len(it['vars']) if it['kind'] == 'perm' else 1
        run.cov['streams'] = streams
        ex = [it for it, _ in ok if it.get('stream') == 'exhaustive' and it.get('ep') == 'json']
        run.cov['exhaustive_cases_fully_enumerated'] = sum(1 for it in ex if it.get('all_covered'))
        # mappings with keys of mixed type (YAML files, Python objects): outside the theorems (string keys), inside the
        # property: judged by the same holds_C08; no correspondence (the model's sort is defined for string keys only)
        impl_dir = wd.file('impl')
        os.makedirs(impl_dir, exist_ok=True)
        mixed = [dict(it, dir=impl_dir, no_oracle=True, eps=it.get('eps', MIXED_EPS)) for it in items if it.get('stream') == 'mixed-keys']
        mixed += gen_mixed(tier, rng, impl_dir)
        okm, badm = evaluate(run, wd, st, mixed, tag='mixed', with_corr=False, domain_fn='in_domain_any_keys')
        if badm is not None:
            hits_m = report(run, okm, badm, known)
            for k, v in hits_m.items():
                run.cov['known_finding_cases'][k] = run.cov['known_finding_cases'].get(k, 0) + len(v)
            differ = sum(1 for it, r in okm if it['opts'][0] != 'none' and any(v['ta'] != r['vars'][0]['ta'] or v['tb'] != r['vars'][0]['tb'] for v in r['vars']))
            run.cov['mixed_key_stream'] = {
                'cases': len(okm), 'entry_points': MIXED_EPS, 'cases_auto_match': sum(1 for it, _ in okm if it['opts'][0] != 'none'),
                'built_trees_depend_on_key_order_auto_match': differ, 'holds_C08_false': len(badm['holds']),
                'in_class_kf_C08_mixed_key_order': len(badm['classes']['kf_C08_mixed_key_order']),
                'note': 'keys of mixed type (int/float/bool/str): LeafNode.__lt__ falls back to str() on TypeError, sorted() is then '
                        'not canonical; judged by holds_C08 (cost invariance, copy == at cost 0; cost / pairing among the freely matched pairs: open finding D40); '
                        'no model correspondence for this stream'}
        if (st['broken'] or bad_corr) and not run.violations:
            more = gen_items('thorough', random.Random(seed * 7919 + 1))[:700]
            ok2, bad2 = evaluate(run, wd, st, more, tag='search')
            if bad2:
                report(run, ok2, bad2, known)
            if not run.violations:
                what = st['broken'] or {'stage': 'correspondence', 'statement': 'corr_C08',
                                        'first_disagreeing_input': pub(ok[bad_corr[0]][0]) if bad_corr else None}
                run.violation({'kind': 'tie-broken', 'what': what}, no_input=True)
        run.cov['rule'] = ('(1) seeded nested JSON documents (string keys incl. "", YAML-sensitive and order-sensitive spellings, and in ~30% of the '
                           'mappings two or three DIFFERENT keys that a normalisation would identify - NFC/NFD, case, blanks, 1/01/1.0, '
                           'True/true, zero-width, full-width - with different values; arrangement 1 reverses every mapping; all five '
                           'scalar types) with a partner (mutation or fresh) x K random arrangements of the keys of every mapping of BOTH '
                           'documents x 9 option sets; (2) documents with mappings of <= 4 keys at <= 2 depths: all arrangements of the '
                           'first document (quick: a seeded sample of 18) against arrangements of the partner; (3) lists of scalars / '
                           'nested values with two positions exchanged. Per arrangement: built trees, complete nested script, == and '
                           'cost against the unpermuted document. non-trivial = some mapping has >= 2 keys and an arrangement differs '
                           'from the given one (perm) / the exchanged elements differ (swap); distinct by the whole input')
        run.cov['samples'] = [pub(ok[i][0]) for i in range(0, len(ok), max(1, len(ok) // 3))][:3]
        run.cov['exhaustive'] = False
        run.assumptions = ['leaf text is Python str(object), numeric value float.as_integer_ratio (harness-supplied)',
                           'scipy matching is an oracle input of the script model (strategies auto/match); none is used for strategy none',
                           'documents reach json.build_tree as Python dicts in file order (what json / json5 / yaml / plistlib return)']
        return run.finish()
    finally:
        wd.cleanup()


def replay(path):
    obj = json.load(open(path))
    it = obj.get('input') or obj.get('replay')
    if not it or 'kind' not in it:
        print('replay file names no input:', json.dumps(obj)[:400])
        print(f'VIOLATION property={PROP} replay={path} no-failing-input-found')
        return 1
    wd = common.Workdir(PROP + 'r')
    try:
        with common.Lock():
            common.regen()
            common.coq_project()
            common.coq_make(SPEC_TARGETS)
        if it['kind'] == 'perm':
            it = dict(it, dir=wd.file('impl'))
            os.makedirs(it['dir'], exist_ok=True)
        r = common.run_impl('pC08', 'impl_case', [it], nproc=1, timeout_item=600)[0]
        print(json.dumps(r)[:3000])
        if 'ok' not in r:
            print(f'VIOLATION property={PROP} replay={path}')
            return 1
        known = {f.get('class') for f in open_findings()}
        fn = 'holds_C08'
        if known:
            fn = '(fun c => holds_C08 c || ' + ' || '.join(f'{c} c' for c in KF_CLASSES if c in known) + ')'
        units = list(r['ok']['eps'].values()) if it['kind'] == 'perm' else [r['ok']]
        bad, err = common.coq_eval_cases(wd, 'replay', HEADER_SPEC, [case_term(it, u) for u in units], [f'bad_cases {fn}'])
        if err or bad[0]:
            print(f'VIOLATION property={PROP} replay={path}')
            return 1
        print('replay: holds_C08 (outside the open classes) is true on this input')
        return 0
    finally:
        wd.cleanup()
