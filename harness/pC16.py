"""C16 - the priority queue always yields a minimum.

Implementation side: symbolic histories (items are referred to by their rank among the live items) are
resolved and executed on the REAL FibonacciHeap / MaxFibonacciHeap in worker processes; after every
operation the full pointer structure (root ring, child rings, marks, deleted flags, degree fields, parent
pointers, _min, _n) is read by reflection together with the return value / exception class and len().
Verdicts: Gallina `holds_C16` (reference multiset on the observed outputs alone) and `corr_C16` (lock-step
replay of the structure-exact model) under vm_compute.  The helpers utils.smallest / utils.largest are run on
item lists and judged by `holds_C16s` / `corr_C16s`.  No property logic here.
"""
import itertools
import json
import os
import random

from harness import common

PROP = 'C16'
THEOREMS = ['C16_orders', 'C16', 'C16_operation', 'C16_op_spec_meaning', 'C16_min', 'C16_max', 'C16_push', 'C16_peek',
            'C16_pop', 'C16_decrease_key', 'C16_remove', 'C16_Inv_meaning', 'C16_holds', 'C16_corr_holds',
            'C16_smallest', 'C16_largest', 'C16_small_spec_meaning', 'C16_small_sound', 'C16_small_corr']
HEADER = ('From Coq Require Import List Bool ZArith.\nRequire Import GT.PyBase GT.FibHeapSpec.\n'
          'Import ListNotations.\nOpen Scope Z_scope.\n')
MODEL_IMPORT = 'Require Import GT.FibHeapModel.\n'
CORPUS = os.path.join(common.VERIF, 'corpus', 'C16.jsonl')


# ------------------------------------------------------------------ implementation side (worker)

def _ring(start, limit=100000):
    """Nodes of a sibling ring starting at `start`, following .right."""
    if start is None:
        return []
    out, node = [start], start.right
    while node is not start:
        out.append(node)
        node = node.right
        if len(out) > limit:
            raise RuntimeError('ring does not close')
    return out


def _dump(heap, rawkey):
    aux = []

    def node(t, parent):
        aux.append([t.item[0], t.degree, None if t.parent is None else t.parent.item[0]])
        return [t.item[0], rawkey(t), bool(t.mark), bool(t.deleted), [node(c, t) for c in _ring(t.child)]]
    roots = [node(r, None) for r in _ring(heap._root)]
    return {'roots': roots, 'min': None if heap._min is None else heap._min.item[0], 'n': heap._n, 'aux': aux}


def impl_history(item):
    """item = {'max': bool, 'ops': symbolic ops}. Symbolic ops: ['push', k] ['pop'] ['peek']
    ['dec', rank, 'abs'|'rel', v] ['remove', rank] (concrete forms ['dec', id, k, 'id'] ['remove', id, 'id']);
    rank indexes the live items in id order (mod their number).
    Returns the concrete ops and the observations."""
    from graphtage.fibonacci import FibonacciHeap, MaxFibonacciHeap, ReversedComparator
    mx = item['max']
    heap = (MaxFibonacciHeap if mx else FibonacciHeap)(key=lambda it: it[1])

    def rawkey(t):
        return t.key.key if mx else t.key
    nodes, live, steps = [], [], []
    for o in item['ops']:
        kind = o[0]
        if kind in ('dec', 'remove'):
            if o[-1] == 'id':                  # concrete form (replays): the item id itself
                if o[1] not in live:
                    continue                   # not a member: undefined behaviour by the docstring, skipped
                ident = o[1]
            elif not live:
                continue                       # nothing to refer to: the symbolic op has no instance
            else:
                ident = live[o[1] % len(live)]
        try:
            if kind == 'push':
                conc = ['push', o[1]]
                n = heap.push((len(nodes), o[1]))
                nodes.append(n)
                live.append(n.item[0])
                ret = ['item', n.item[0], rawkey(n)]
            elif kind == 'pop':
                conc = ['pop']
                it = heap.pop()
                live.remove(it[0])
                ret = ['item', it[0], rawkey(nodes[it[0]])]
            elif kind == 'peek':
                conc = ['peek']
                it = heap.peek()
                ret = ['item', it[0], rawkey(nodes[it[0]])]
            elif kind == 'dec':
                cur = rawkey(nodes[ident])
                k = o[2] if o[-1] == 'id' else o[3] if o[2] == 'abs' else (cur + o[3] if mx else cur - o[3])
                conc = ['dec', ident, k]
                heap.decrease_key(nodes[ident], ReversedComparator(k) if mx else k)
                ret = ['none']
            elif kind == 'remove':
                conc = ['remove', ident]
                heap.remove(nodes[ident])
                live.remove(ident)
                ret = ['none']
            else:
                raise RuntimeError('unknown op')
        except (ValueError, AttributeError) as e:
            ret = ['exc', type(e).__name__]
        steps.append({'op': conc, 'ret': ret, 'len': len(heap), 'dump': _dump(heap, rawkey)})
    return {'max': mx, 'steps': steps}


def impl_small(item):
    """item = {'max': bool, 'keys': [...], 'n': int}: utils.largest / utils.smallest over the items
    (position, key) with key=lambda it: it[1].  Returns the yielded items as [key, position]."""
    from graphtage import utils
    items = [(i, k) for i, k in enumerate(item['keys'])]
    fn = utils.largest if item['max'] else utils.smallest
    out = list(fn(items, n=item['n'], key=lambda it: it[1]))
    return {'max': item['max'], 'keys': item['keys'], 'n': item['n'], 'out': [[it[1], it[0]] for it in out]}


# ------------------------------------------------------------------ generators

def gen_small_cases(tier, rng):
    """smallest / largest: every key list over {0,1,2} up to a length bound with every n in -1..len+1, plus
    long random lists with duplicates."""
    cases = []
    bound = 4 if tier == 'quick' else 6
    for ln in range(bound + 1):
        for keys in itertools.product([0, 1, 2], repeat=ln):
            for n in range(-1, ln + 2):
                for mx in (False, True):
                    cases.append({'small': True, 'max': mx, 'keys': list(keys), 'n': n, 'src': 'small-exh'})
    for _ in range(300 if tier == 'quick' else 3000):
        ln = rng.choice([1, 2, 3, 5, 8, 13, 21, 34, 60, 120])
        dom = rng.choice([2, 3, 5, 10, 1000])
        keys = [rng.randrange(-dom, dom) for _ in range(ln)]
        n = rng.choice([0, 1, 1, 2, 3, ln - 1, ln, ln + 1, rng.randrange(ln + 1)])
        cases.append({'small': True, 'max': rng.random() < 0.5, 'keys': keys, 'n': n, 'src': 'small-random'})
    return cases


def gen_random_history(rng, max_len):
    """One symbolic history: key domain 2..40 (duplicates likely), mixed operation profile."""
    dom = rng.choice([2, 2, 3, 3, 4, 5, 8, 12, 20, 40])
    length = rng.randint(1, max_len)
    profile = rng.choice(['grow', 'mixed', 'mixed', 'churn', 'decrease'])
    w = {'grow': (6, 2, 1, 2, 1), 'mixed': (4, 3, 1, 3, 2), 'churn': (3, 4, 1, 1, 3), 'decrease': (3, 2, 1, 6, 1)}[profile]
    ops = []
    # a burst of pushes first so that consolidation builds deep trees
    for _ in range(rng.randint(0, min(length, 24))):
        ops.append(['push', rng.randrange(dom)])
    while len(ops) < length:
        kind = rng.choices(['push', 'pop', 'peek', 'dec', 'remove'], weights=w)[0]
        if kind == 'push':
            ops.append(['push', rng.randrange(dom)])
        elif kind == 'dec':
            if rng.random() < 0.75:
                ops.append(['dec', rng.randrange(1000), 'rel', rng.choice([0, 0, 1, 1, 2, 3, 5, dom])])
            else:
                ops.append(['dec', rng.randrange(1000), 'abs', rng.randrange(dom)])   # may be an increase
        elif kind == 'remove':
            ops.append(['remove', rng.randrange(1000)])
        else:
            ops.append([kind])
    return ops


def alphabet(keys, ranks):
    a = [['push', k] for k in keys] + [['pop'], ['peek']]
    a += [['dec', j, 'abs', k] for j in ranks for k in keys] + [['remove', j] for j in ranks]
    return a


def exhaustive(keys, ranks, max_len):
    """All symbolic histories up to max_len whose rank references are in range (the number of live items is
    known without running anything)."""
    alpha = alphabet(keys, ranks)

    def rec(prefix, count, left):
        if left == 0:
            yield list(prefix)       # shorter histories are prefixes of these (every step is checked)
            return
        for o in alpha:
            k = o[0]
            if k in ('dec', 'remove') and o[1] >= count:
                continue
            c2 = count + 1 if k == 'push' else count - 1 if (k in ('pop', 'remove') and count > 0) else count
            prefix.append(o)
            yield from rec(prefix, c2, left - 1)
            prefix.pop()
    yield from rec([], 0, max_len)


# ------------------------------------------------------------------ serialisation

def z(v):
    return str(v) if v >= 0 else f'({v})'


def cb(b):
    return 'true' if b else 'false'


def oz(v):
    return 'None' if v is None else f'(Some {z(v)})'


def node_term(t):
    return f'HNode {z(t[0])} {z(t[1])} {cb(t[2])} {cb(t[3])} [{"; ".join(node_term(c) for c in t[4])}]'


def op_term(o):
    k = o[0]
    if k == 'push':
        return f'Push {z(o[1])}'
    if k == 'pop':
        return 'Pop'
    if k == 'peek':
        return 'Peek'
    if k == 'dec':
        return f'DecreaseKey {z(o[1])} {z(o[2])}'
    return f'Remove {z(o[1])}'


def ret_term(r):
    if r[0] == 'item':
        return f'RItem {z(r[1])} {z(r[2])}'
    if r[0] == 'none':
        return 'RNone'
    return 'RExc ' + (r[1] if r[1] in ('ValueError', 'AttributeError') else 'OtherExc')


def case_term(res):
    steps = []
    for s in res['steps']:
        d = s['dump']
        heap = f'(Build_heap [{"; ".join(node_term(t) for t in d["roots"])}] {oz(d["min"])} {z(d["n"])})'
        aux = '; '.join(f'({z(a[0])}, {z(a[1])}, {oz(a[2])})' for a in d['aux'])
        steps.append(f'({op_term(s["op"])}, Build_obs ({ret_term(s["ret"])}) {z(s["len"])} {heap} [{aux}])')
    return f'(Build_case {cb(res["max"])} [{"; ".join(steps)}])'


def scase_term(o):
    keys = '; '.join(z(k) for k in o['keys'])
    out = '; '.join(f'({z(a[0])}, {z(a[1])})' for a in o['out'])
    return f'(Build_scase {cb(o["max"])} [{keys}] {z(o["n"])} [{out}])'


def concrete(res):
    return {'max': res['max'], 'ops': [s['op'] for s in res['steps']],
            'returns': [s['ret'] for s in res['steps']], 'lens': [s['len'] for s in res['steps']]}


def replayable(res):
    """The concrete history in the form the worker accepts again."""
    ops = []
    for s in res['steps']:
        o = s['op']
        ops.append(o + ['id'] if o[0] in ('dec', 'remove') else o)
    return {'max': res['max'], 'ops': ops}


# ------------------------------------------------------------------ check

def gen_cases(tier, rng):
    cases = []
    if tier == 'quick':
        allh = list(exhaustive([0, 1, 2], [0, 1], 5))
        for ops in rng.sample(allh, 700):
            cases.append({'max': rng.random() < 0.5, 'ops': ops, 'src': 'exh5'})
        n_rand, long_every = 1300, 13
    else:
        for ops in exhaustive([0, 1, 2], [0, 1], 5):
            cases.append({'max': False, 'ops': ops, 'src': 'exh5'})
            cases.append({'max': True, 'ops': ops, 'src': 'exh5'})
        # all 1.5 million histories of length 7 do not fit the tier's budget: a seeded sample of them
        pick = rng.random
        for i, ops in enumerate(exhaustive([0, 1, 2], [0], 7)):
            if pick() < 0.013:
                cases.append({'max': i % 2 == 1, 'ops': ops, 'src': 'exh7'})
        n_rand, long_every = 6000, 6
    for i in range(n_rand):
        max_len = 200 if i % long_every == 0 else rng.choice([12, 25, 40, 60])
        cases.append({'max': rng.random() < 0.5, 'ops': gen_random_history(rng, max_len), 'src': 'random'})
    return cases


def run_small(run, wd, cases, st, tag):
    """smallest / largest cases. Returns (kept, indices failing holds_C16s, indices failing corr_C16s)."""
    if not cases:
        return [], [], []
    res = common.run_impl('pC16', 'impl_small', cases, timeout_item=8)
    terms, keep = [], []
    for c, r in zip(cases, res):
        if 'ok' not in r:
            run.violation({'kind': 'implementation-raised', 'small': True, 'max': c['max'], 'keys': c['keys'], 'n': c['n'],
                           'result': r, 'replay': './check C16 --replay <this file>'})
            continue
        terms.append(scase_term(r['ok']))
        keep.append((c, r['ok']))
        run.count(['small', c['max'], c['keys'], c['n']], nontrivial=len(c['keys']) >= 2 and 0 < c['n'] < len(c['keys']))
    evals = ['bad_cases holds_C16s']
    header = HEADER
    if st['models_ok']:
        evals.append('bad_cases corr_C16s')
        header += MODEL_IMPORT
    bad, err = common.coq_eval_cases(wd, tag, header, terms, evals, chunk=max(8, len(terms) // 16 + 1))
    if err:
        run.violation({'kind': 'case-evaluation-failed', 'error': err}, no_input=True)
        return keep, [], []
    return keep, bad[0], (bad[1] if len(bad) > 1 else [])


def run_cases(run, wd, cases, st, tag='cases'):
    small = [c for c in cases if c.get('small')]
    cases = [c for c in cases if not c.get('small')]
    skeep, sbad_holds, sbad_corr = run_small(run, wd, small, st, tag + '_small')
    for i in sbad_holds[:3]:
        c, o = skeep[i]
        run.violation({'kind': 'largest-wrong' if o['max'] else 'smallest-wrong', 'small': True, 'max': o['max'], 'keys': o['keys'],
                       'n': o['n'], 'observed': o['out'], 'replay': './check C16 --replay <this file>'})
    run.small_kept = getattr(run, 'small_kept', 0) + len(skeep)
    run.small_bad_corr = getattr(run, 'small_bad_corr', []) + [skeep[i][1] for i in sbad_corr]
    res = common.run_impl('pC16', 'impl_history', cases, timeout_item=8)
    terms, keep = [], []
    for c, r in zip(cases, res):
        if 'ok' not in r:
            # an exception other than the documented ValueError / AttributeError, or a broken ring
            run.violation({'kind': 'implementation-raised', 'max': c['max'], 'ops': c['ops'], 'result': r,
                           'replay': './check C16 --replay <this file>'})
            continue
        o = r['ok']
        if not o['steps']:
            continue
        terms.append(case_term(o))
        keep.append((c, o))
        run.count([o['max'], [s['op'] for s in o['steps']]], nontrivial=len(o['steps']) >= 3)
    evals = ['bad_cases holds_C16', 'bad_cases wf_C16']
    header = HEADER
    if st['models_ok']:
        evals.append('bad_cases corr_C16')
        header += MODEL_IMPORT
    bad, err = common.coq_eval_cases(wd, tag, header, terms, evals, chunk=max(8, len(terms) // 48 + 1))
    if err:
        run.violation({'kind': 'case-evaluation-failed', 'error': err}, no_input=True)
        return keep, [], []
    for i in bad[1][:3]:
        run.violation({'kind': 'harness-internal: history names a dead item', 'case': replayable(keep[i][1])}, no_input=True)
    return keep, bad[0], (bad[2] if len(bad) > 2 else [])


def first_disagreement(wd, o):
    """Model state after the first step on which corr fails (diagnostics for the replay file)."""
    t = f'first_bad (key_lt {cb(o["max"])}) init 0%nat (c_ops {case_term(o)})'
    out, err = common.coq_eval_terms(wd, 'diag', HEADER + MODEL_IMPORT, [t])
    return (out[0][:4000] if out else err)


def report_holds(run, keep, bad_holds):
    for i in bad_holds[:3]:
        c, o = keep[i]
        v = replayable(o)
        v.update({'kind': 'queue-output-not-a-minimum-or-wrong-length', 'observed': concrete(o),
                  'replay': './check C16 --replay <this file>'})
        run.violation(v)


def load_corpus():
    if not os.path.exists(CORPUS):
        return []
    out = []
    for l in open(CORPUS):
        if l.strip():
            c = json.loads(l)
            c['src'] = 'corpus'
            out.append(c)
    return out


def check(tier, seed):
    run = common.Run(PROP, tier, seed)
    wd = common.Workdir(PROP)
    rng = random.Random(seed)
    try:
        st = common.build(['theories/FibHeapModel.vo'], ['props/PropC16.vo'])
        common.proof_evidence(run, wd, PROP, st, THEOREMS)
        cases = load_corpus() + gen_cases(tier, rng) + gen_small_cases(tier, rng)
        keep, bad_holds, bad_corr = run_cases(run, wd, cases, st)
        report_holds(run, keep, bad_holds)
        run.cov['traces_validated_against_impl'] = (len(keep) + getattr(run, 'small_kept', 0)
                                                    if st['models_ok'] and not bad_corr and not getattr(run, 'small_bad_corr', [])
                                                    else 0)
        if st['broken'] and not run.violations:
            # tie broken and no failing input so far: search harder (thorough generator, more seeds)
            for s2 in range(3):
                r2 = random.Random(seed * 1000 + 17 + s2)
                more = gen_cases('quick', r2) + gen_small_cases('thorough' if s2 == 0 else 'quick', r2)
                for c in more:
                    if c['src'] == 'random':
                        c['ops'] = c['ops'] + gen_random_history(random.Random(len(c['ops']) + s2), 200)
                k2, bh, bc = run_cases(run, wd, more, st, tag=f'search{s2}')
                report_holds(run, k2, bh)
                if bc and not bad_corr:
                    keep, bad_corr = k2, bc
                if run.violations:
                    break
            if not run.violations:
                run.violation({'kind': 'tie-broken', 'what': st['broken']}, no_input=True)
        if getattr(run, 'small_bad_corr', []) and not run.violations:
            o = run.small_bad_corr[0]
            run.violation({'kind': 'correspondence-broken', 'small': True, 'max': o['max'], 'keys': o['keys'], 'n': o['n'],
                           'what': 'corr_C16s: the items yielded by utils.smallest / utils.largest differ from the model '
                                   '(push everything, pop n times) although they satisfy the statement',
                           'disagreeing_cases': len(run.small_bad_corr), 'observed': o['out']}, no_input=True)
        if bad_corr and not run.violations:
            c, o = keep[bad_corr[0]]
            v = replayable(o)
            v.update({'kind': 'correspondence-broken',
                      'what': 'corr_C16: the pointer structure / return values of the real heap differ from the model replay',
                      'disagreeing_cases': len(bad_corr), 'first_disagreement (step, model state, model return)':
                          first_disagreement(wd, o), 'observed': concrete(o)})
            run.violation(v, no_input=True)
        steps = sum(len(o['steps']) for _, o in keep)
        kinds = {}
        for _, o in keep:
            for s in o['steps']:
                key = s['op'][0] + ('!' + s['ret'][1] if s['ret'][0] == 'exc' else '')
                kinds[key] = kinds.get(key, 0) + 1
        run.cov['rule'] = ('symbolic histories over push/pop/peek/decrease_key/remove drawn from one seeded PRNG (key domains 2..40 with '
                           'duplicates, lengths up to 200, relative and absolute key changes incl. rejected increases) plus exhaustive '
                           'histories over keys {0,1,2} (quick: 700 sampled of length 5; thorough: all 35969 of length 5 with two item ranks on both '
                           'heaps, and a 1.3% sample of the 1.5 million of length 7 with one rank), each run on FibonacciHeap or MaxFibonacciHeap; every step is checked; non-trivial = at '
                           'least 3 executed operations; distinct by (heap kind, concrete history). utils.smallest / utils.largest: every key '
                           'list over {0,1,2} up to length 4 (thorough 6) with every n in -1..len+1, plus random lists up to length 120 '
                           'with duplicates and negative keys; non-trivial = at least 2 items and 0 < n < len')
        run.cov['samples'] = [replayable(o) for _, o in keep[:2]] + [replayable(o) for _, o in keep[-1:]]
        run.cov['histories'] = len(keep)
        run.cov['operations_checked'] = steps
        run.cov['operation_kinds'] = kinds
        run.cov['max_heap_histories'] = sum(1 for _, o in keep if o['max'])
        run.cov['largest_heap'] = max([s['len'] for _, o in keep for s in o['steps']] or [0])
        run.cov['by_source'] = {k: sum(1 for c, _ in keep if c['src'] == k) for k in ('corpus', 'exh5', 'exh7', 'random')}
        run.cov['smallest_largest_cases'] = getattr(run, 'small_kept', 0)
        run.cov['exhaustive'] = (tier == 'thorough')
        run.assumptions = ['decrease_key / remove are only applied to members of the heap (the code documents anything else as '
                           'undefined behaviour and does not check); the model treats a non-member as a no-op',
                           'keys are integers compared with < / > (ReversedComparator); the theorems hold for any strict total order on Z',
                           'the degree-table bound (IndexError if a degree reached _n) is not modelled: the table is unbounded in the model']
        return run.finish()
    finally:
        wd.cleanup()


def replay(path):
    obj = json.load(open(path))
    wd = common.Workdir(PROP + 'r')
    try:
        st = common.build(['theories/FibHeapModel.vo'], [])
        if obj.get('small'):
            r = common.run_impl('pC16', 'impl_small', [{'max': obj['max'], 'keys': obj['keys'], 'n': obj['n']}], nproc=1)[0]
            if 'ok' not in r:
                print(json.dumps(r, indent=1)[:3000])
                bad = True
            else:
                print(json.dumps(r['ok'])[:3000])
                evals = ['bad_cases holds_C16s'] + (['bad_cases corr_C16s'] if st['models_ok'] else [])
                b, err = common.coq_eval_cases(wd, 'replay', HEADER + (MODEL_IMPORT if st['models_ok'] else ''),
                                               [scase_term(r['ok'])], evals)
                bad = bool(err) or bool(b[0])
                if not bad and len(b) > 1 and b[1]:
                    print('replay: the property holds on this input but the yielded items differ from the model')
            if bad:
                print(f'VIOLATION property={PROP} replay={path}')
                return 1
            print('replay: property holds on this input')
            return 0
        r = common.run_impl('pC16', 'impl_history', [{'max': obj['max'], 'ops': obj['ops']}], nproc=1)[0]
        if 'ok' not in r:
            print(json.dumps(r, indent=1)[:3000])
            bad = True
        else:
            print(json.dumps(concrete(r['ok']))[:3000])
            evals = ['bad_cases holds_C16'] + (['bad_cases corr_C16'] if st['models_ok'] else [])
            b, err = common.coq_eval_cases(wd, 'replay', HEADER + (MODEL_IMPORT if st['models_ok'] else ''),
                                           [case_term(r['ok'])], evals)
            bad = bool(err) or bool(b[0])
            if not bad and len(b) > 1 and b[1]:
                print('replay: the property holds on this input but the model replay differs:')
                print(first_disagreement(wd, r['ok']))
        if bad:
            print(f'VIOLATION property={PROP} replay={path}')
            return 1
        print('replay: property holds on this input')
        return 0
    finally:
        wd.cleanup()
