import argparse
import importlib
import os
import sys

sys.path.insert(0, os.path.dirname(os.path.dirname(os.path.abspath(__file__))))
from harness import common  # noqa


def setup():
    """Build the cone of every claimed property (files of properties not yet claimed may be work in progress)."""
    import json
    claimed = [c['property_id'] for c in json.load(open(os.path.join(common.VERIF, 'MANIFEST.json')))['checks']]
    targets = [f'props/Prop{p}.vo' for p in claimed]
    for extra in ('theories/ScriptKnown.vo', 'theories/EdTie.vo'):
        if os.path.exists(os.path.join(common.COQ, extra[:-1])):
            targets.append(extra)
    with common.Lock():
        tr = common.regen()
        common.coq_project()
        ok, log = common.coq_make(targets, timeout=3400)
    for k, v in tr.items():
        if v:
            print(f'translator: {k}: {v}')
    if not ok:
        print(log[-3000:])
        return 1
    print('setup ok:', ' '.join(claimed))
    return 0


def main():
    ap = argparse.ArgumentParser()
    ap.add_argument('prop', nargs='?')
    ap.add_argument('--setup', action='store_true')
    ap.add_argument('--tier', default=os.environ.get('VERIF_TIER', 'quick'), choices=['quick', 'thorough'])
    ap.add_argument('--replay', default=None)
    ap.add_argument('--seed', type=int, default=int(os.environ.get('VERIF_SEED', '1')))
    a = ap.parse_args()
    if a.setup:
        sys.exit(setup())
    mod = importlib.import_module(f'harness.p{a.prop}')
    if a.replay:
        sys.exit(mod.replay(a.replay))
    sys.exit(mod.check(a.tier, a.seed))


main()
