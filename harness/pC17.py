"""C17 - bound-driven search, ordering and separation are correct.

Implementation side (worker): synthetic `Bounded` items driven by explicit *schedules* (the list of ranges
bounds() goes through; tighten_bounds() pops and returns True iff something was popped) are given to the REAL
graphtage.bounds.BoundedComparator / min_bounded / sort / make_distinct and
graphtage.search.IterativeTighteningSearch.  Instrumentation is applied from outside: every tighten_bounds()
call is logged by the item itself; BoundedComparator.__lt__ is wrapped to log (a, b, id(self) < id(other));
graphtage.bounds.IntervalTree is replaced by a subclass that logs remove(); graphtage.search.FibonacciHeap by a
subclass that logs heap._min after pop().  These logs are the adversary inputs of the Gallina model.

bounds.sort: the Fibonacci heap is modelled in full (SortModel.v: the C16 structure model over a comparison oracle
with state); the model logs every key comparison and pop, and `corr_sort` demands that the implementation's
sequence of comparisons/pops, its tighten_bounds() calls and its output all equal the model's (lock-step).

No verdict is computed here: `holds_C17` (SearchSpec.v) and `corr_C17_full` (SearchModel.v, SortModel.v) are
evaluated with vm_compute; Python generates, drives, serialises and counts.
"""
import itertools
import json
import os
import random
import sys
import time

from harness import common

PROP = 'C17'
THEOREMS = ['C17_lt', 'C17_le', 'C17_min', 'C17_sort', 'C17_heap_oracle', 'C17_sort_corr', 'C17_sort_trace',
            'C17_distinct', 'C17_search', 'C17_search_first_node']
MODELS = ['theories/SearchModel.vo', 'theories/SortModel.vo']
HEADER = ('From Coq Require Import List Bool ZArith.\nRequire Import GT.PyBase GT.BoundsSpec GT.SearchSpec.\n'
          'Import ListNotations.\nOpen Scope Z_scope.\n')
MODEL_HEADER = 'Require Import GT.SearchModel GT.SortModel.\n'
OPS = {'lt': 'OpLt', 'le': 'OpLe', 'min': 'OpMin', 'sort': 'OpSort', 'distinct': 'OpDistinct', 'search': 'OpSearch'}
GUARD_S = 3.0       # wall-clock guard per case (non-termination); a case normally takes well under 10 ms
MAX_GUARD_HITS = 4  # per worker process: afterwards the remaining cases of that worker are not run (reported as skipped)


# ------------------------------------------------------------------ implementation side (worker)

class _Timeout(BaseException):
    pass


def _rv_in(x):
    from graphtage.bounds import NEGATIVE_INFINITY, POSITIVE_INFINITY
    return NEGATIVE_INFINITY if x == '-inf' else POSITIVE_INFINITY if x == 'inf' else int(x)


def _rv_out(x):
    from graphtage.bounds import Infinity
    if isinstance(x, Infinity):
        return 'inf' if x.positive else '-inf'
    return int(x)


def _range_out(r):
    return [_rv_out(r.lower_bound), _rv_out(r.upper_bound)]


_INSTALLED = {}


def _install():
    """Wrap, once per worker process, the three observation points (outside instrumentation)."""
    if _INSTALLED:
        return _INSTALLED
    import graphtage.bounds as gb
    import graphtage.search as gs
    import graphtage.fibonacci as gf
    import intervaltree
    sink = {'ties': None, 'hops': None, 'hints': None}
    orig_lt = gb.BoundedComparator.__lt__

    def lt(self, other):
        t = id(self) < id(other)
        if sink['ties'] is not None:
            sink['ties'].append(t)
        if sink['hops'] is not None:
            sink['hops'].append(['cmp', self.bounded.idx, other.bounded.idx, t])
        return orig_lt(self, other)
    gb.BoundedComparator.__lt__ = lt

    class LoggedTree(intervaltree.IntervalTree):
        def remove(self, interval):
            if sink['hints'] is not None:
                sink['hints'].append(interval.data.idx)
            return super().remove(interval)
    gb.IntervalTree = LoggedTree

    class LoggedHeap(gf.FibonacciHeap):
        def pop(self):
            r = super().pop()
            if sink['hints'] is not None and self._n > 0:
                sink['hints'].append(self._min.item.idx)
            return r
    gs.FibonacciHeap = LoggedHeap
    _INSTALLED['sink'] = sink
    return _INSTALLED


def impl_run(item):
    """item = {'op': ..., 'items': [[[lo, hi], ...], ...]} -> observed events, adversary choices, result."""
    import signal
    import graphtage.bounds as gb
    import graphtage.search as gs
    inst = _install()
    sink = inst['sink']
    if inst.get('guard_hits', 0) >= MAX_GUARD_HITS:
        return {'events': [], 'ties': [], 'hops': [], 'hints': [], 'obs': ['skipped']}
    events = []

    class Item:
        def __init__(self, idx, sched):
            self.idx = idx
            self.sched = [gb.Range(_rv_in(a), _rv_in(b)) for a, b in sched]

        def bounds(self):
            return self.sched[0]

        def tighten_bounds(self):
            if len(self.sched) > 1:
                self.sched.pop(0)
                events.append([self.idx, True, _range_out(self.sched[0])])
                return True
            events.append([self.idx, False, _range_out(self.sched[0])])
            return False

        def __repr__(self):
            return f'Item({self.idx})'
    items = [Item(i, s) for i, s in enumerate(item['items'])]
    ties, hops, hints = [], [], []
    op = item['op']
    sink['ties'] = ties if op in ('lt', 'le', 'min') else None
    sink['hops'] = hops if op == 'sort' else None
    sink['hints'] = hints if op in ('distinct', 'search') else None

    def on_alarm(signum, frame):
        raise _Timeout()
    old = signal.signal(signal.SIGALRM, on_alarm)
    signal.setitimer(signal.ITIMER_REAL, float(item.get('guard', GUARD_S)))
    obs = None
    try:
        if op == 'lt':
            obs = ['bool', bool(gb.BoundedComparator(items[0]) < gb.BoundedComparator(items[1]))]
        elif op == 'le':
            obs = ['bool', bool(gb.BoundedComparator(items[0]) <= gb.BoundedComparator(items[1]))]
        elif op == 'min':
            r = gb.min_bounded(iter(items))
            obs = ['item', None if r is None else r.idx]
        elif op == 'sort':
            out = []
            for x in gb.sort(items):
                hops.append(['pop', x.idx])
                out.append(x.idx)
            obs = ['list', out]
        elif op == 'distinct':
            try:
                gb.make_distinct(*items)
                obs = ['ranges', [_range_out(x.bounds()) for x in items]]
            except ValueError as e:
                if 'to a finite bound' not in str(e):
                    raise
                obs = ['valueerror']
        elif op == 'search':
            s = gs.IterativeTighteningSearch(iter(items))
            rets = []
            inner = s.tighten_bounds

            def logged_tighten_bounds():
                r = inner()
                rets.append(bool(r))
                return r
            s.tighten_bounds = logged_tighten_bounds     # search() calls self.tighten_bounds()
            r = s.search()
            obs = ['search', None if r is None else r.idx, _range_out(s.bounds()), rets]
        else:
            raise ValueError(op)
    except _Timeout:
        obs = ['fail', 'no answer within the wall-clock guard']
        inst['guard_hits'] = inst.get('guard_hits', 0) + 1
    except Exception as e:  # noqa
        obs = ['fail', f'{type(e).__name__}: {e}'[:200]]
    finally:
        signal.setitimer(signal.ITIMER_REAL, 0)
        signal.signal(signal.SIGALRM, old)
        sink['ties'] = sink['hops'] = sink['hints'] = None
    if obs[0] == 'fail':
        for log_ in (events, ties, hops, hints):      # a spinning loop logs millions of entries
            del log_[200:]
    return {'events': events, 'ties': ties, 'hops': hops, 'hints': hints, 'obs': obs}


# ------------------------------------------------------------------ serialiser

def g_rv(x):
    return 'NegInf' if x == '-inf' else 'PosInf' if x == 'inf' else f'(Fin ({int(x)}))'


def g_range(r):
    return f'(mkR {g_rv(r[0])} {g_rv(r[1])})'


def g_list(xs, f=str):
    return '[' + '; '.join(f(x) for x in xs) + ']'


def g_bool(b):
    return 'true' if b else 'false'


def g_nat(n):
    return f'{int(n)}%nat'


def g_onat(o):
    return 'None' if o is None else f'(Some {g_nat(o)})'


def g_obs(o):
    k = o[0]
    if k == 'bool':
        return f'(OBool {g_bool(o[1])})'
    if k == 'item':
        return f'(OItem {g_onat(o[1])})'
    if k == 'list':
        return f'(OList {g_list(o[1], g_nat)})'
    if k == 'ranges':
        return f'(ORanges {g_list(o[1], g_range)})'
    if k == 'search':
        return f'(OSearch {g_onat(o[1])} {g_range(o[2])} {g_list(o[3], g_bool)})'
    if k == 'valueerror':
        return 'OValueError'
    return 'OFail'


def g_hop(h):
    if h[0] == 'cmp':
        return f'(HCmp {g_nat(h[1])} {g_nat(h[2])} {g_bool(h[3])})'
    return f'(HPop {g_nat(h[1])})'


def case_term(item, r):
    items = g_list(item['items'], lambda s: g_list(s, g_range))
    evs = g_list(r['events'], lambda e: f'({g_nat(e[0])}, {g_bool(e[1])}, {g_range(e[2])})')
    orc = f'(mkOracle {g_list(r["ties"], g_bool)} {g_list(r["hops"], g_hop)} {g_list(r["hints"], g_nat)})'
    return f'(mkCase {OPS[item["op"]]} {items} {evs} {orc} {g_obs(r["obs"])})'


# ------------------------------------------------------------------ generators

def small_ranges(lo, hi):
    return [(a, b) for a in range(lo, hi + 1) for b in range(a, hi + 1)]


def strict_chains(lo, hi):
    """All strictly shrinking schedules inside [lo, hi] that end definitive."""
    rs = small_ranges(lo, hi)
    memo = {}

    def chains(r):
        if r in memo:
            return memo[r]
        a, b = r
        out = [[list(r)]] if a == b else []
        for (c, d) in rs:
            if a <= c and d <= b and (c, d) != (a, b):
                out += [[list(r)] + t for t in chains((c, d))]
        memo[r] = out
        return out
    res = []
    for r in rs:
        res += chains(r)
    return res


def rand_schedule(rng, lo, hi, kind=None):
    """A random sound schedule inside [lo, hi]."""
    kind = kind or rng.choice(['any', 'any', 'any', 'slow_lo', 'slow_hi', 'definitive', 'long', 'stutter', 'jump'])
    v = rng.randint(lo, hi)
    if kind == 'definitive':
        return [[v, v]]
    a = rng.randint(lo, v)
    b = rng.randint(v, hi)
    if kind == 'long':
        a, b = lo, hi
    s = [[a, b]]
    while a != b:
        if kind == 'slow_lo':        # the upper end converges first, the lower one creeps
            if b > v and rng.random() < 0.7:
                b = rng.randint(v, b - 1)
            elif a < v:
                a += 1
            else:
                b -= 1
        elif kind == 'slow_hi':
            if a < v and rng.random() < 0.7:
                a = rng.randint(a + 1, v)
            elif b > v:
                b -= 1
            else:
                a += 1
        elif kind == 'long':         # one unit at a time
            if a < v and (b == v or rng.random() < 0.5):
                a += 1
            else:
                b -= 1
        elif kind == 'jump':
            a, b = v, v
        else:
            na = rng.randint(a, v)
            nb = rng.randint(v, b)
            if (na, nb) == (a, b):
                if kind == 'stutter' and rng.random() < 0.5:
                    s.append([a, b])   # tighten_bounds() returns True without moving either end
                continue
            a, b = na, nb
        s.append([a, b])
    if kind == 'stutter' and rng.random() < 0.3:
        s.append([a, b])
    return s


def rand_items(rng, n, lo, hi):
    mode = rng.choice(['mixed', 'mixed', 'ties', 'identical', 'narrow'])
    if mode == 'identical':          # identical initial intervals, possibly identical schedules
        base = rand_schedule(rng, lo, hi)
        out = []
        for _ in range(n):
            if rng.random() < 0.4:
                out.append([list(r) for r in base])
            else:
                a, b = base[0]
                s = rand_schedule(rng, a, b)
                out.append(([[a, b]] if s[0] != [a, b] else []) + s)
        return out
    if mode == 'ties':               # several items converge to the same value
        v = rng.randint(lo, hi)
        out = []
        for _ in range(n):
            if rng.random() < 0.6:
                a, b = rng.randint(lo, v), rng.randint(v, hi)
                s = [[a, b]]
                while (a, b) != (v, v):
                    a, b = rng.randint(a, v), rng.randint(v, b)
                    if [a, b] != s[-1]:
                        s.append([a, b])
                out.append(s)
            else:
                out.append(rand_schedule(rng, lo, hi))
        return out
    if mode == 'narrow':
        c = rng.randint(lo, hi)
        return [rand_schedule(rng, max(lo, c - 2), min(hi, c + 2)) for _ in range(n)]
    return [rand_schedule(rng, lo, hi) for _ in range(n)]


def with_infinite_start(rng, sched):
    k = rng.random()
    first = ['-inf', 'inf'] if k < 0.4 else ['-inf', sched[0][1]] if k < 0.7 else [sched[0][0], 'inf']
    return [first] + sched


def gen_cases(tier, rng):
    cases = []
    main_ops = ['min', 'sort', 'distinct', 'search']
    chains = strict_chains(0, 3)                       # 48 schedules
    singles = [[c] for c in chains]
    pairs = [[a, b] for a in chains for b in chains]
    quick = tier != 'thorough'
    for op in main_ops:
        cases.append({'op': op, 'items': [], 'src': 'exhaustive'})
        some_pairs = rng.sample(pairs, 600) if quick and op in ('min', 'sort') else pairs
        for its in singles + some_pairs:
            cases.append({'op': op, 'items': its, 'src': 'exhaustive'})
    for op in ('lt', 'le'):
        for its in (rng.sample(pairs, 600) if quick else pairs):
            cases.append({'op': op, 'items': its, 'src': 'exhaustive'})
    if not quick:
        for op in main_ops:
            if op in ('search', 'distinct'):      # the operations whose pruning / tie rules depend on the third item
                for a in chains:
                    for b in chains:
                        for c in chains:
                            cases.append({'op': op, 'items': [a, b, c], 'src': 'exhaustive'})
            else:
                for _ in range(20000):
                    cases.append({'op': op, 'items': [rng.choice(chains) for _ in range(3)], 'src': 'exhaustive-sample'})
    else:
        for op in main_ops:
            for _ in range(600):
                cases.append({'op': op, 'items': [rng.choice(chains) for _ in range(3)], 'src': 'exhaustive-sample'})
    n_rand = 500 if quick else 3000
    for op in main_ops:
        for k in range(n_rand):
            n = rng.choice([1, 2, 2, 3, 3, 4, 5, 6, 8]) if k % 10 else rng.randint(9, 14)
            lo, hi = rng.choice([(0, 3), (0, 6), (0, 12), (-5, 5), (0, 40), (0, 1000)])
            its = rand_items(rng, n, lo, hi)
            if op == 'distinct' and rng.random() < 0.15:
                j = rng.randrange(len(its))
                its[j] = with_infinite_start(rng, its[j])
                if rng.random() < 0.3:
                    its[j] = with_infinite_start(rng, its[j])     # still infinite after one call: ValueError
            elif op != 'distinct' and rng.random() < 0.1:
                j = rng.randrange(len(its))
                its[j] = with_infinite_start(rng, its[j])
            cases.append({'op': op, 'items': its, 'src': 'random'})
    for op in ('lt', 'le'):
        for k in range(n_rand // 2):
            lo, hi = rng.choice([(0, 3), (0, 6), (0, 40)])
            cases.append({'op': op, 'items': rand_items(rng, 2, lo, hi), 'src': 'random'})
    return cases


# ------------------------------------------------------------------ check

def open_findings():
    fs = [f for f in common.known_findings(PROP) if f.get('status') == 'open']
    p = os.path.join(common.VERIF, 'corpus', 'C17.known.json')
    if not common.known_findings(PROP) and os.path.exists(p):
        fs += [f for f in json.load(open(p))['findings'] if f['property'] == PROP and f.get('status') == 'open']
    return fs


def run_cases(run, wd, cases, st, tag):
    t0 = time.time()
    res = common.run_impl('pC17', 'impl_run', cases, timeout_item=60)
    t1 = time.time()
    keep, terms, internal, skipped = [], [], [], 0
    for c, r in zip(cases, res):
        if not r or 'ok' not in r:
            internal.append((c, r))
            continue
        if r['ok']['obs'][0] == 'skipped':      # not run: the worker had hit the wall-clock guard repeatedly
            skipped += 1
            continue
        keep.append((c, r['ok']))
        terms.append(case_term(c, r['ok']))
        run.count([c['op'], c['items']], nontrivial=len(c['items']) >= 2 and any(len(s) > 1 for s in c['items']))
    evals = ['bad_cases holds_C17', 'bad_cases in_domain']
    header = HEADER
    if st['models_ok']:
        evals.append('bad_cases corr_C17_full')
        header += MODEL_HEADER
    chunk = max(20, min(400, -(-len(terms) // (2 * common.NPROC))))
    bad, err = common.coq_eval_cases(wd, 'cases_' + tag, header, terms, evals, chunk=chunk)
    common.log(f'C17 {tag}: {len(cases)} cases, implementation {t1 - t0:.1f}s, Coq evaluation {time.time() - t1:.1f}s')
    out = {'keep': keep, 'internal': internal, 'err': err, 'bad_holds': [], 'out_domain': [], 'bad_corr': [],
           'skipped': skipped}
    if not err:
        out['bad_holds'], out['out_domain'] = bad[0], bad[1]
        out['bad_corr'] = bad[2] if st['models_ok'] else []
    return out


def model_answer(wd, c, r):
    t = case_term(c, r)
    terms = [f'match model_run {t} with Done (o, m) => Some (o, rev (evs m)) | _ => None end']
    if c['op'] == 'sort':
        terms.append(f'sort_answer {t}')       # full heap model: output, tighten calls, comparisons and pops
    vals, err = common.coq_eval_terms(wd, 'model_answer', HEADER + MODEL_HEADER, terms)
    return ' ;; '.join(vals) if vals else f'(evaluation failed: {err})'


def replay_obj(c, r, why):
    return {'kind': why, 'op': c['op'], 'items': c['items'], 'observed': r,
            'replay': './check C17 --replay <this file>'}


def corpus_cases():
    p = os.path.join(common.VERIF, 'corpus', 'C17.jsonl')
    out = []
    if os.path.exists(p):
        for l in open(p):
            if l.strip():
                c = json.loads(l)
                c['src'] = 'corpus'
                out.append(c)
    return out


def judge(run, wd, out, st, kf_keys):
    keep = out['keep']
    n = 0
    for c, r in out['internal'][:3]:
        run.violation({'kind': 'internal-error', 'op': c['op'], 'items': c['items'], 'result': r})
        n += 1
    if out['err']:
        run.violation({'kind': 'case-evaluation-failed', 'error': out['err']}, no_input=True)
        return 1
    for i in out['out_domain'][:3]:
        c, r = keep[i]
        run.violation({'kind': 'generator-produced-unsound-item', 'op': c['op'], 'items': c['items']}, no_input=True)
        n += 1
    for i in out['bad_holds']:
        c, r = keep[i]
        key = json.dumps([c['op'], c['items']])
        if key in kf_keys:
            kf_keys[key]['hits'] += 1
            continue
        if n < 3:
            run.violation(replay_obj(c, r, 'property-violated-by-implementation'))
        n += 1
    return n


def check(tier, seed):
    run = common.Run(PROP, tier, seed)
    wd = common.Workdir(PROP)
    rng = random.Random(seed)
    try:
        st = common.build(MODELS, ['props/PropC17.vo'])
        common.proof_evidence(run, wd, PROP, st, THEOREMS)
        findings = open_findings()
        kf_keys = {json.dumps([f['replay']['op'], f['replay']['items']]): dict(f, hits=0) for f in findings}
        cases = corpus_cases() + [dict(f['replay'], src='known') for f in findings] + gen_cases(tier, rng)
        out = run_cases(run, wd, cases, st, 'main')
        n_viol = judge(run, wd, out, st, kf_keys)
        bad_corr = list(out['bad_corr'])
        first_corr = out['keep'][bad_corr[0]] if bad_corr else None
        if (st['broken'] or bad_corr) and not run.violations:
            # tie broken, no failing input among the cases: widen the search (thorough generator, more seeds)
            for s2 in range(2):
                more = gen_cases('thorough' if s2 else 'quick', random.Random(seed * 1000 + 17 + s2))
                o2 = run_cases(run, wd, more, st, f'search{s2}')
                judge(run, wd, o2, st, kf_keys)
                if o2['bad_corr'] and first_corr is None:
                    first_corr = o2['keep'][o2['bad_corr'][0]]
                if run.violations:
                    break
            if not run.violations:
                if st['broken']:
                    run.violation({'kind': 'tie-broken', 'what': st['broken']}, no_input=True)
                else:
                    c, r = first_corr
                    run.violation(dict(replay_obj(c, r, 'correspondence-broken'),
                                       what='corr_C17_full: the implementation\'s events/result (sort: also its heap comparisons/pops) differ from the model\'s',
                                       model=model_answer(wd, c, r), n_cases=len(bad_corr)), no_input=True)
        for f in kf_keys.values():
            if f['hits']:
                run.known(f"{f['id']} {f['what']} [replay op={f['replay']['op']} items={json.dumps(f['replay']['items'])}]")
        by_op, by_src, n_events = {}, {}, 0
        for c, r in out['keep']:
            by_op[c['op']] = by_op.get(c['op'], 0) + 1
            by_src[c.get('src', '?')] = by_src.get(c.get('src', '?'), 0) + 1
            n_events += len(r['events'])
        run.cov['traces_validated_against_impl'] = len(out['keep']) - len(out['bad_corr'])
        run.cov['cases_not_run_after_repeated_guard_hits'] = out['skipped']
        run.cov['cases_by_operation'] = by_op
        run.cov['cases_by_source'] = by_src
        run.cov['tighten_calls_compared'] = n_events
        run.cov['max_items'] = max((len(c['items']) for c, _ in out['keep']), default=0)
        run.cov['max_schedule_length'] = max((len(s) for c, _ in out['keep'] for s in c['items']), default=0)
        run.cov['exhaustive'] = ('all sets of <=2 schedules over the 48 strictly shrinking schedules inside [0,3] for every operation; '
                                 'all 3-item sets for search and make_distinct, 20000 sampled 3-item sets for min_bounded and sort'
                                 if tier == 'thorough' else
                                 'search, make_distinct: all sets of <=2 schedules over the 48 strictly shrinking schedules '
                                 'inside [0,3]; other operations: all single schedules and 600 sampled pairs; 600 sampled '
                                 '3-item sets per operation')
        run.cov['rule'] = ('operations lt, le, min_bounded, sort, make_distinct, IterativeTighteningSearch.search()+bounds() on '
                           'synthetic schedule-driven items: exhaustive small scope over [0,3] plus random sets (1-14 items; ranges '
                           'up to [0,1000]; ties, identical intervals/schedules, already-definitive items, one-sided slow '
                           'convergence, unit-step long schedules, stutter steps, infinite first ranges); non-trivial = at least '
                           'two items and one of them not definitive; distinct by (operation, schedules)')
        run.cov['samples'] = [{'op': c['op'], 'items': c['items']} for c, _ in out['keep'][3000:3003]]
        run.assumptions = ['bounds.sort: no oracle except the id() order - the Fibonacci heap is modelled in full and proved '
                           '(C17_sort, C17_heap_oracle); its comparisons and pops are compared with the model in lock-step; '
                           'inside IterativeTighteningSearch the heap is the specification "heap._min has a minimal key", '
                           'the choice among minimal keys observed',
                           'id() order of BoundedComparator objects and iteration order of the interval tree are observed adversary inputs',
                           'initial_bounds is the default Range(-inf, +inf)']
        return run.finish()
    finally:
        wd.cleanup()


def replay(path):
    obj = json.load(open(path))
    wd = common.Workdir(PROP + 'r')
    try:
        st = common.build(MODELS, MODELS)      # (an empty target list would make everything)
        c = {'op': obj['op'], 'items': obj['items']}
        r = common.run_impl('pC17', 'impl_run', [c], nproc=1)[0]
        print(json.dumps(r, indent=1)[:4000])
        if not r or 'ok' not in r:
            print(f'VIOLATION property={PROP} replay={path}')
            return 1
        evals = ['bad_cases holds_C17'] + (['bad_cases corr_C17_full'] if st['models_ok'] else [])
        b, err = common.coq_eval_cases(wd, 'replay', HEADER + (MODEL_HEADER if st['models_ok'] else ''),
                                       [case_term(c, r['ok'])], evals)
        if st['models_ok'] and not err:
            print('model:', model_answer(wd, c, r['ok']))
            print('correspondence:', 'differs' if b[1] else 'equal')
        if err or b[0]:
            print(f'VIOLATION property={PROP} replay={path}')
            return 1
        print('replay: property holds on this input')
        return 0
    finally:
        wd.cleanup()
