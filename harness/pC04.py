"""C04 - cost bounds only tighten, stay sound, and converge.

Implementation side (worker): every class of /repo's graphtage that defines `bounds` or `tighten_bounds` is wrapped
from outside at import time.  For every Bounded object created while a pair of documents is compared the worker
records, in program order, the results of its outermost bounds() calls (EB) and outermost tighten_bounds() calls (ET).
Two observers:
  active  - the wrapper itself queries bounds() directly before and after every outermost tighten_bounds() call of
            every object (bounds() has side effects in EditDistance: it finalises a completed matrix; the models of
            MachineModel.v step their children under exactly this observer, so model and implementation are driven
            by the same call sequence); the root edit is driven by `while e.tighten_bounds(): pass`;
  passive - only the bounds() calls the library itself makes are seen; the pair is run through TreeNode.diff() and
            TreeNode.get_all_edits() (the library's own driving loops).
In both modes every monitored object is finally driven to completion and queried, which yields the object's OWN
final value.  Verdicts: Gallina `holds_C04` (clauses evaluated on the implementation's traces) and `corr_C04` (the
model machine started on the same pair reproduces the root edit's sequence of bounds and results) under vm_compute.
No property logic in Python.
"""
import json
import os
import random
import sys

from harness import common, scriptlib as sl

PROP = 'C04'
THEOREMS = ['C04_trace', 'C04_terminates', 'C04_const', 'C04_sum', 'C04_fixed_len', 'C04_edit_distance', 'C04_string',
            'C04_lists', 'C04_lists_trace', 'C04_collection', 'C04_bracket_lo', 'C04_bracket_hi', 'C04_bracket_matcher',
            'C04_matcher', 'C04_multiset', 'C04_docs', 'C04_docs_trace', 'C04_guard_bound_no_null', 'C04_guard_bound_default_lists',
            'C04_docs_none', 'C04_guard_bound_all', 'C04_docs_none_all', 'C04_guard_witness_repaired', 'C04_search',
            'C04_plist_root']
MODELS = ['theories/MachineSpec.vo', 'theories/MachineGuardSpec.vo', 'theories/MachineModel.vo', 'theories/MachinePlist.vo']
HEADER = ('From Coq Require Import ZArith List Bool.\nRequire Import GT.PyBase GT.Data GT.MachineSpec GT.MachineGuardSpec.\n'
          'Import ListNotations.\nOpen Scope Z_scope.\n')
MODEL_HEADER = 'Require Import GT.MachineModel GT.MachinePlist.\n'
MODELLED = ['ConstantCostEdit (Match/Replace/Remove/Insert)', 'KeyValuePairEdit (sum combinator; XMLElementEdit, DataClassEdit, '
            'PyObjEdit are the same combinator)', 'repeat_until_tightened', 'FixedLengthSequenceEdit', 'EditDistance',
            'StringEdit', 'EditCollection / FixedKeyDictNodeEdit (children\'s initial upper bounds within cost_upper_bound: proved for '
            'ALL documents without multisets on the current source, C04_docs_none_all - it rests on the capped leaf Match cost, the '
            'repair of D41; without the cap: target without null or default list options, C04_docs_none)',
            'WeightedBipartiteMatcher (make_distinct and the assignment solver as oracles, all answers)',
            'MultiSetEdit over multisets without repeated elements', 'Edge (pure delegation)',
            'the EditCollection of two Apple plist documents (PLISTNode.edits: [Match, root edit]; C04_plist_root)',
            'IterativeTighteningSearch (C04_search: contract of the search model of SearchModel.v over sound, strictly shrinking '
            'items; the model is tied to search.py by C17\'s trace correspondence)']
TRACE_ONLY = ['MultiSetEdit / WeightedBipartiteMatcher on directly built MultiSetNodes with repeated elements (ext stream; D36)',
              'PossibleEdits (bounds()/tighten_bounds() delegate to its IterativeTighteningSearch, C04_search; the pruning of '
              'invalid alternatives in its `valid` property is not modelled)']

CLS = {'KeyValuePairEdit': 'CSum', 'XMLElementEdit': 'CSum', 'DataClassEdit': 'CSum', 'PyObjEdit': 'CSum',
       'FixedLengthSequenceEdit': 'CFixedLen', 'EditDistance': 'CEditDist', 'StringEdit': 'CStr',
       'MultiSetEdit': 'CMultiSet', 'WeightedBipartiteMatcher': 'CMatcher', 'Edge': 'CEdge',
       'EditCollection': 'CCollection', 'FixedKeyDictNodeEdit': 'CCollection', 'EditSequence': 'CCollection',
       'IterativeTighteningSearch': 'CSearch', 'PossibleEdits': 'CPossible',
       'Match': 'CConst', 'Replace': 'CConst', 'Remove': 'CConst', 'Insert': 'CConst', 'ConstantBound': 'CConst'}


# ------------------------------------------------------------------ implementation side (worker)

class Monitor:
    """Outside instrumentation of the Bounded protocol.  Objects are kept alive (ids are never reused)."""

    def __init__(self):
        self.installed = False
        self.reset('active')

    def reset(self, mode):
        self.mode = mode
        self.objs = {}          # id -> [object, class name, events]
        self.order = []
        self.tdepth = {}
        self.bdepth = {}
        self.steps = 0
        self.calls = 0
        self.tcount = {}        # id -> number of outermost tighten_bounds() calls (oracle: make_distinct's calls per edge)
        self.matchers = []      # WeightedBipartiteMatcher objects whose make_distinct / assignment answers were recorded

    def entry(self, o):
        i = id(o)
        e = self.objs.get(i)
        if e is None:
            e = [o, type(o).__name__, []]
            self.objs[i] = e
            self.order.append(i)
        return e

    def install(self):
        if self.installed:
            return
        self.installed = True
        import inspect
        import graphtage
        import graphtage.bounds, graphtage.edits, graphtage.sequences, graphtage.levenshtein, graphtage.matching  # noqa
        import graphtage.multiset, graphtage.search, graphtage.tree, graphtage.xml, graphtage.dataclasses  # noqa
        import graphtage.pydiff, graphtage.plist  # noqa
        from graphtage.bounds import Infinity
        mon = self

        def val(v):
            if isinstance(v, Infinity):
                return 'inf' if v.positive else '-inf'
            return int(v)

        def wrap_bounds(orig):
            def bounds(self):
                mon.calls += 1
                if mon.calls > MAX_CALLS:
                    raise RuntimeError('call budget exceeded: the drive does not terminate')
                i = id(self)
                d = mon.bdepth.get(i, 0)
                mon.bdepth[i] = d + 1
                try:
                    r = orig(self)
                finally:
                    mon.bdepth[i] = d
                if d == 0 and mon.tdepth.get(i, 0) == 0:
                    mon.entry(self)[2].append(['B', val(r.lower_bound), val(r.upper_bound)])
                return r
            bounds.__wrapped_by_c04__ = True
            return bounds

        def wrap_tighten(orig):
            def tighten_bounds(self):
                mon.calls += 1
                if mon.calls > MAX_CALLS:
                    raise RuntimeError('call budget exceeded: the drive does not terminate')
                i = id(self)
                d = mon.tdepth.get(i, 0)
                outer = d == 0 and mon.bdepth.get(i, 0) == 0
                if outer:
                    mon.entry(self)
                    if mon.mode == 'active':
                        self.bounds()
                mon.tdepth[i] = d + 1
                try:
                    r = orig(self)
                finally:
                    mon.tdepth[i] = d
                if outer:
                    mon.steps += 1
                    mon.tcount[i] = mon.tcount.get(i, 0) + 1
                    mon.entry(self)[2].append(['T', bool(r)])
                    if mon.mode == 'active':
                        self.bounds()
                return r
            tighten_bounds.__wrapped_by_c04__ = True
            return tighten_bounds

        # oracle answers of every WeightedBipartiteMatcher: the number of tighten_bounds() calls make_distinct makes on
        # each edge (the order in which it visits its interval tree depends on object addresses) and the assignment
        # scipy returns; recorded on the matcher object, read by impl_trace
        from graphtage.matching import WeightedBipartiteMatcher as WBM
        orig_med = WBM._make_edges_distinct
        orig_matching = WBM.matching.fget

        def _make_edges_distinct(self):
            if self._edges_are_distinct:
                return orig_med(self)
            edges = self.edges
            before = [[mon.tcount.get(id(e), 0) for e in row] for row in edges]
            r = orig_med(self)
            self._c04_counts = [[mon.tcount.get(id(e), 0) - b for e, b in zip(row, brow)] for row, brow in zip(edges, before)]
            if self not in mon.matchers:
                mon.matchers.append(self)
            return r

        def matching(self):
            fresh = self._match is None
            r = orig_matching(self)
            if fresh and self.from_nodes and self.to_nodes:
                self._c04_asg = [[self.from_node_indexes[f], self.to_node_indexes[t]] for f, (t, _) in r.items()]
                if self not in mon.matchers:
                    mon.matchers.append(self)
            return r
        WBM._make_edges_distinct = _make_edges_distinct
        WBM.matching = property(matching)

        seen = set()
        for name, mod in list(sys.modules.items()):
            if not name.startswith('graphtage') or mod is None:
                continue
            for c in list(vars(mod).values()):
                if not inspect.isclass(c) or not c.__module__.startswith('graphtage') or c in seen:
                    continue
                seen.add(c)
                b = c.__dict__.get('bounds')
                if inspect.isfunction(b) and not getattr(b, '__wrapped_by_c04__', False):
                    setattr(c, 'bounds', wrap_bounds(b))
                t = c.__dict__.get('tighten_bounds')
                if inspect.isfunction(t) and not getattr(t, '__wrapped_by_c04__', False):
                    setattr(c, 'tighten_bounds', wrap_tighten(t))


MON = Monitor()
MAX_STEPS = 2000000
MAX_CALLS = 1500000      # bounds()/tighten_bounds() calls per item (the largest thorough-tier items need ~10^5)
DIRTY = [False]     # a monitored drive raised in this process: graphtage's global state may be unusable


def _drive(o):
    n = 0
    o.bounds()
    while o.tighten_bounds():
        o.bounds()
        n += 1
        if n > 200000:
            raise RuntimeError('tighten_bounds() keeps returning True')
    o.bounds()


def _finish_all():
    """Drive every monitored, non-constant object to completion and query it: its own final value."""
    from graphtage.edits import ConstantCostEdit
    from graphtage.bounds import ConstantBound
    done = 0
    while done < len(MON.order):
        o = MON.objs[MON.order[done]][0]
        done += 1
        if isinstance(o, (ConstantCostEdit, ConstantBound)):
            continue
        _drive(o)


def _build(item):
    import graphtage as g
    if item.get('ext'):
        # directly built MultiSetNodes ({"__mset__": [...]}, elements may repeat), alone or nested: trace-only stream
        opts = g.BuildOptions(**sl.options_kwargs(*item['opts']))
        return sl.build_ext(item['a'], opts), sl.build_ext(item['b'], opts)
    if item.get('plist'):
        # Apple plist documents: PLISTNode(root), whose edits() is an EditCollection over [Match(self, node, 0), root edit]
        # 'wrap': the JSON-path tree wrapped directly; 'file': written with plistlib and loaded by graphtage.plist.build_tree
        from graphtage import plist as gplist
        opts = g.BuildOptions(**sl.options_kwargs(*item['opts']))
        if item['plist'] == 'file':
            import plistlib
            import tempfile
            out = []
            for doc in (item['a'], item['b']):
                tmpd = os.path.join(common.VERIF, '.work', 'C04-plist-tmp')        # never /tmp
                os.makedirs(tmpd, exist_ok=True)
                with tempfile.NamedTemporaryFile(suffix='.plist', delete=False, dir=tmpd) as f:
                    f.write(plistlib.dumps(doc, sort_keys=False))
                try:
                    out.append(gplist.build_tree(f.name, opts))
                finally:
                    os.unlink(f.name)
            return out[0], out[1]
        from graphtage import json as gjson
        return gplist.PLISTNode(gjson.build_tree(item['a'], opts)), gplist.PLISTNode(gjson.build_tree(item['b'], opts))
    a, b, _ = sl.build_pair(item)
    if item.get('kvp'):
        ka, kb, ake = item['kvp']
        a = g.KeyValuePairNode(g.StringNode(ka), a, allow_key_edits=bool(ake))
        b = g.KeyValuePairNode(g.StringNode(kb), b, allow_key_edits=bool(ake))
    return a, b


def impl_trace(item):
    """item: {'a','b','opts', 'mode': 'active'|'passive'|'search', optional 'kvp': [key a, key b, allow_key_edits],
    optional 'bs': [more targets] (mode search)}"""
    if DIRTY[0]:
        os._exit(3)         # nothing reported for this item: the parent restarts a worker on it
    sl._quiet()
    MON.install()
    mode = item.get('mode', 'active')
    MON.reset('passive' if mode == 'passive' else 'active')
    crashed = None
    root_id = None
    ta = tb = None
    try:
        a, b = _build(item) if mode != 'sed' else (None, None)
        try:
            if item.get('plist'):
                ta, tb = sl.ser_tree(a.root), sl.ser_tree(b.root)        # the case carries the two ROOT trees
            else:
                ta, tb = (sl.ser_tree(a), sl.ser_tree(b)) if mode != 'sed' and not item.get('ext') else (None, None)
        except ValueError:
            ta = tb = None
        if mode == 'active':
            e = a.edits(b)
            root_id = id(e)
            MON.entry(e)
            while e.tighten_bounds():
                if MON.steps > MAX_STEPS:
                    raise RuntimeError('too many steps')
        elif mode == 'sed':
            # graphtage.string_edit_distance(s, t) used directly (an EditDistance that no StringNode.edits() shortcut guards)
            import graphtage as g
            e = g.string_edit_distance(item['a'], item['b'])
            root_id = id(e)
            MON.entry(e)
            while e.tighten_bounds():
                if MON.steps > MAX_STEPS:
                    raise RuntimeError('too many steps')
            ta = tb = None
        elif mode == 'passive':
            a.diff(b)
            a2, b2 = _build(item)
            for e in a2.get_all_edits(b2):
                e.bounds()
        else:
            from graphtage.search import IterativeTighteningSearch
            from graphtage.edits import PossibleEdits
            import graphtage as g
            opts = g.BuildOptions(**sl.options_kwargs(*item['opts']))
            from graphtage import json as gjson
            targets = [b] + [gjson.build_tree(x, opts) for x in item.get('bs', [])]
            s = IterativeTighteningSearch(possibilities=iter([a.edits(t) for t in targets]))
            root_id = id(s)
            MON.entry(s)
            while s.tighten_bounds():
                if MON.steps > MAX_STEPS:
                    raise RuntimeError('too many steps')
            a3, _ = _build(item)
            p = PossibleEdits(a3, targets[0], edits=iter([a3.edits(t) for t in targets]))
            MON.entry(p)
            while p.tighten_bounds():
                if MON.steps > MAX_STEPS:
                    raise RuntimeError('too many steps')
            if item.get('consts'):
                # explicit (and correct) initial bounds over constant candidates: nothing inside the library passes
                # initial_bounds / initial_cost, so this API path is exercised only here
                from graphtage.edits import Match
                from graphtage.bounds import Range
                lo, hi = item['init']
                a4, b4 = _build(item)
                s2 = IterativeTighteningSearch(possibilities=iter([Match(a4, b4, c) for c in item['consts']]),
                                               initial_bounds=Range(lo, hi))
                MON.entry(s2)
                while s2.tighten_bounds():
                    if MON.steps > MAX_STEPS:
                        raise RuntimeError('too many steps')
                if s2.best_match is None or s2.best_match.bounds().upper_bound != min(item['consts']):
                    raise RuntimeError('search with explicit initial bounds %r over constant candidates %r ended with best match %r'
                                       % (item['init'], item['consts'], s2.best_match))
                p2 = PossibleEdits(a4, b4, edits=iter([Match(a4, b4, c) for c in item['consts']]), initial_cost=Range(lo, hi))
                MON.entry(p2)
                while p2.tighten_bounds():
                    if MON.steps > MAX_STEPS:
                        raise RuntimeError('too many steps')
            ta = tb = None
        _finish_all()
    except BaseException as ex:  # noqa
        import traceback
        if type(ex).__name__ == 'ItemGuardTimeout':
            import signal
            signal.setitimer(signal.ITIMER_REAL, 0)      # worker.py re-arms its guard every second: the traces are still to be reported
        tbk = traceback.extract_tb(ex.__traceback__)
        crashed = {'exc': type(ex).__name__, 'msg': str(ex)[:200],
                   'where': [f'{os.path.basename(fr.filename)}:{fr.lineno}:{fr.name}' for fr in tbk[-3:]]}
    # D36 class: did a matcher collapse repeated nodes (fewer matched pairs than a complete matching has)?
    collapsed = False
    for i in MON.order:
        m = MON.objs[i][0]
        if type(m).__name__ == 'WeightedBipartiteMatcher' and getattr(m, '_match', None) is not None:
            try:
                if all(e is not None for row in (m._edges or []) for e in row) and \
                        len(m._match) < min(len(m.from_nodes), len(m.to_nodes)):
                    collapsed = True
            except Exception:  # noqa
                pass
    # the oracle table for the model: (from_nodes, to_nodes) -> (make_distinct counts, assignment); a key that received two
    # different answers (address-dependent choices inside make_distinct) makes the table ambiguous: no correspondence
    oracle, orc_ok = [], ta is not None
    if orc_ok:
        try:
            seen_keys = {}
            for m in MON.matchers:
                key = json.dumps([[sl.ser_tree(x) for x in m.from_nodes], [sl.ser_tree(x) for x in m.to_nodes]])
                ans = [getattr(m, '_c04_counts', []), getattr(m, '_c04_asg', [])]
                if key in seen_keys:
                    if seen_keys[key] != ans:
                        orc_ok = False
                    continue
                seen_keys[key] = ans
                oracle.append([json.loads(key), ans])
        except ValueError:
            orc_ok = False
    objs = []
    ids = list(MON.order)
    if root_id is not None and root_id in MON.objs:
        ids.remove(root_id)
        ids.insert(0, root_id)
    n_const = 0
    for i in ids:
        _, cname, evs = MON.objs[i]
        if i != root_id and not any(e[0] == 'T' for e in evs):
            n_const += 1
            continue
        # transport encoding: runs of identical consecutive bounds() observations are sent once (the Gallina side
        # compares the model's trace after the same compression, dedup_B); a run that raised is cut after 300 events
        # per object (holds_C04 is false for it anyway, the prefix is what the replay shows)
        out = []
        for e in evs:
            if e[0] == 'B' and out and out[-1] == e:
                continue
            out.append(e)
        if crashed and len(out) > 300:
            out = out[:300]
        objs.append([cname, out])
    res = {'a': ta, 'b': tb, 'root': root_id is not None and mode == 'active', 'crashed': crashed, 'collapsed': collapsed,
           'objs': objs, 'oracle': oracle if orc_ok else [], 'oracle_ok': orc_ok,
           'steps': MON.steps, 'calls': MON.calls, 'unstepped_objects': n_const}
    MON.reset('active')
    if crashed:
        DIRTY[0] = True
    return res


# ------------------------------------------------------------------ Gallina terms

def rv(v):
    if v == 'inf':
        return 'PosInf'
    if v == '-inf':
        return 'NegInf'
    return f'(Fin {sl.z(v)})'


def ev_term(e):
    if e[0] == 'B':
        return f'EB ({rv(e[1])}, {rv(e[2])})'
    return 'ET true' if e[1] else 'ET false'


DUMMY = ['leaf', 'KNull', 'None', 0, 0]


def case_term(r):
    a = r['a'] or DUMMY
    b = r['b'] or DUMMY
    objs = ';'.join(f'Build_otrace {CLS.get(c, "COther")} [{";".join(ev_term(e) for e in evs)}]' for c, evs in r['objs'])
    return f'(Build_case {sl.tree_term(a)} {sl.tree_term(b)} {sl.b(bool(r["crashed"]))} {sl.b(bool(r.get("collapsed")))} [{objs}])'


def _nodes(t):
    if t[0] == 'leaf':
        return 1
    if t[0] == 'kvp':
        return 1 + _nodes(t[2]) + _nodes(t[3])
    return 1 + sum(_nodes(c) for c in t[-1])


CORR_LIMIT = 10000       # |a| * |b| in nodes: the model builds the full matrix of child states at every level


def corr_wanted(r):
    return bool(r['root'] and r['a'] is not None and r.get('oracle_ok', True) and _nodes(r['a']) * _nodes(r['b']) <= CORR_LIMIT)


def nat_list(l):
    return '[' + ';'.join(f'{int(x)}%nat' for x in l) + ']'


def oracle_term(r):
    ents = []
    for (fs, ts), (cnt, asg) in r.get('oracle', []):
        k = f'([{";".join(sl.tree_term(x) for x in fs)}], [{";".join(sl.tree_term(x) for x in ts)}])'
        a = f'([{";".join(nat_list(row) for row in cnt)}], [{";".join(f"({int(i)}%nat, {int(j)}%nat)" for i, j in asg)}])'
        ents.append(f'({k}, {a})')
    return '[' + ';'.join(ents) + ']'


def ccase_term(r):
    return f'(Build_ccase {case_term(r)} {sl.b(corr_wanted(r))} {oracle_term(r) if corr_wanted(r) else "[]"})'


# ------------------------------------------------------------------ generators

LISTY = ['a', 'b', 'ab', 'abc', 'abd', 'xbc', '', 'hello', 'hallo', 'help', 'aXb', 1, 2, 10, 11, True, None, 1.5]


def gen_listy(rng, depth, width):
    """documents without mappings (the classes the model covers): scalars, strings, nested lists"""
    if depth <= 0 or rng.random() < 0.4:
        return rng.choice(LISTY)
    return [gen_listy(rng, depth - 1, width) for _ in range(rng.randint(0, width))]


def near_tie(rng, v):
    """a copy with small changes in several places, so that many cells of a matrix are close in cost"""
    if isinstance(v, list):
        out = [near_tie(rng, x) if rng.random() < 0.5 else x for x in v]
        r = rng.random()
        if out and r < 0.25:
            del out[rng.randrange(len(out))]
        elif r < 0.5:
            out.insert(rng.randint(0, len(out)), gen_listy(rng, 1, 3))
        elif len(out) > 1 and r < 0.65:
            i = rng.randrange(len(out) - 1)
            out[i], out[i + 1] = out[i + 1], out[i]
        return out
    if isinstance(v, str) and v:
        i = rng.randrange(len(v))
        return v[:i] + rng.choice('abxy') + v[i + rng.randint(0, 1):]
    return sl.mutate(rng, v)


def deep_pair(rng, depth):
    """deep nesting: a chain of lists with a small difference at the bottom and siblings on the way"""
    a = gen_listy(rng, 1, 3)
    b = near_tie(rng, a)
    for _ in range(depth):
        sib = [gen_listy(rng, 1, 2) for _ in range(rng.randint(0, 2))]
        sib2 = [near_tie(rng, x) for x in sib] if rng.random() < 0.5 else list(sib)
        k = rng.randint(0, len(sib))
        a = sib[:k] + [a] + sib[k:]
        b = sib2[:k] + [b] + sib2[k:]
        if rng.random() < 0.3:
            b = b + [gen_listy(rng, 1, 2)]
    return a, b


# unbalanced multisets with a repeated element on the larger side and elements of unequal size: before the matching
# is known MultiSetEdit.bounds() brackets the surplus by the cheapest / costliest removals counted WITH multiplicity
EXT_UNBALANCED = [
    ({'__mset__': [1, 1, 'abcdef']}, {'__mset__': ['abcdeg']}), ({'__mset__': [3, 3, 3]}, {'__mset__': []}),
    ({'__mset__': ['abcdeg']}, {'__mset__': [1, 1, 'abcdef']}), ({'__mset__': []}, {'__mset__': [3, 3, 3]}),
    ({'__mset__': [7, 7, 7, 'hello world']}, {'__mset__': ['hello wörld', 12345]}),
    ({'__mset__': ['x', 'x', 'x', [1, 2, 3, 4]]}, {'__mset__': [[1, 2, 4]]}),
    ([0, {'__mset__': [5, 5, 'abcdefgh', 'abcdefgh']}], [0, {'__mset__': ['abcdefgx']}]),
    ({'k': {'__mset__': [1, 1, 1, 'longer text']}}, {'k': {'__mset__': ['longer test', 2]}}),
    ({'__mset__': [{'__mset__': [1, 1, 'abc']}, 9, 9]}, {'__mset__': [{'__mset__': ['abd']}]}),
]


def gen_ext_unbalanced(rng):
    """a multiset that repeats small elements next to a big one, against a smaller multiset holding a near copy of the big one"""
    big = rng.choice(['abcdef', 'hello world', [1, 2, 3], 'aaaaaaaX', [['x'], 'yz'], 123456789])
    near = sl.mutate(rng, big)
    small = rng.choice([1, 'a', True, None, 'xy', 10])
    larger = [small] * rng.randint(2, 4) + [big] * rng.randint(1, 2) + ([sl.gen_scalar(rng)] if rng.random() < 0.4 else [])
    smaller = [near] + ([small] if rng.random() < 0.3 else []) + ([sl.gen_scalar(rng)] if rng.random() < 0.3 else [])
    rng.shuffle(larger)
    a, b = {'__mset__': larger}, {'__mset__': smaller}
    if rng.random() < 0.5:
        a, b = b, a
    r = rng.random()
    if r < 0.2:
        return [a, 1], [b, 1]
    if r < 0.35:
        return {'k': a}, {'k': b}
    if r < 0.45:
        return {'__mset__': [a, 4, 4]}, {'__mset__': [b, 4]}
    return a, b


def gen_mapping(rng, depth):
    if depth <= 0 or rng.random() < 0.3:
        return rng.choice(LISTY)
    if rng.random() < 0.3:
        return [gen_mapping(rng, depth - 1) for _ in range(rng.randint(0, 3))]
    return {k: gen_mapping(rng, depth - 1) for k in rng.sample(sl.KEYS, rng.randint(0, min(4, len(sl.KEYS))))}


def mutate_mapping(rng, v):
    if isinstance(v, dict):
        out = {}
        for k, x in v.items():
            r = rng.random()
            if r < 0.15:
                continue                                   # key dropped
            if r < 0.3:
                k = rng.choice(sl.KEYS)                    # key renamed (possibly onto an existing one)
            out[k] = mutate_mapping(rng, x) if rng.random() < 0.6 else x
        if rng.random() < 0.3:
            out[rng.choice(sl.KEYS)] = gen_mapping(rng, 1)
        return out
    if isinstance(v, list):
        return near_tie(rng, [mutate_mapping(rng, x) if isinstance(x, dict) else x for x in v])
    return near_tie(rng, v) if rng.random() < 0.5 else v


def gen_mapping_pair(rng, depth):
    a = gen_mapping(rng, depth)
    if not isinstance(a, dict):
        a = {rng.choice(sl.KEYS): a}
    return a, mutate_mapping(rng, a)


PL_ALPHA = 'abc'


def pl_str(rng, lo, hi):
    return ''.join(rng.choice(PL_ALPHA) for _ in range(rng.randint(lo, hi)))


def gen_plist_value(rng, depth):
    """plist values: no null; strings of several characters, numbers, booleans, nested dictionaries and arrays"""
    r = rng.random()
    if depth <= 0 or r < 0.45:
        return rng.choice([pl_str(rng, 0, 6), pl_str(rng, 3, 6), rng.choice([0, 1, 7, 98, 12345]), True, False, 1.5])
    if r < 0.75:
        return {pl_str(rng, 1, 5): gen_plist_value(rng, depth - 1) for _ in range(rng.randint(0, 3))}
    return [gen_plist_value(rng, depth - 1) for _ in range(rng.randint(0, 3))]


def gen_plist_pair(rng):
    """root dictionaries with different key sets: a renamed key (near copy of the key, changed value), the rest kept or
    slightly changed; the root edit under auto/match is a MultiSetEdit that has to pair the renamed entries"""
    a = {}
    while len(a) < rng.randint(2, 4):
        a[pl_str(rng, 2, 5)] = gen_plist_value(rng, 2)
    b = {}
    keys = list(a)
    renamed = set(rng.sample(keys, rng.randint(1, min(2, len(keys)))))
    for k in keys:
        v = a[k]
        if k in renamed:
            k2 = near_tie(rng, k) if rng.random() < 0.8 else pl_str(rng, 2, 5)
            v2 = near_tie(rng, v) if isinstance(v, (str, list)) and rng.random() < 0.8 else (gen_plist_value(rng, 1) if rng.random() < 0.3 else v)
            b[k2] = v2
        elif rng.random() < 0.15:
            continue
        else:
            b[k] = pl_clean(sl.mutate(rng, v)) if rng.random() < 0.25 else v
    if rng.random() < 0.2:
        b[pl_str(rng, 2, 5)] = gen_plist_value(rng, 1)
    return pl_clean(a), pl_clean(b)


def pl_clean(v):
    """plist has no null (and plistlib wants string keys)"""
    if v is None:
        return 0
    if isinstance(v, list):
        return [pl_clean(x) for x in v]
    if isinstance(v, dict):
        return {str(k): pl_clean(x) for k, x in v.items()}
    return v


def gen_items(tier, rng):
    items = []
    path = os.path.join(common.VERIF, 'corpus', 'C04.jsonl')
    if os.path.exists(path):
        items += [json.loads(l) for l in open(path) if l.strip()]
    for a, b in sl.FIXED_PAIRS:
        for o in (('auto', 'on'), ('none', 'off'), ('match', 'same')):
            items.append({'a': a, 'b': b, 'opts': list(o), 'mode': 'active'})
    q = tier == 'quick'
    n_list, n_doc, n_pass, n_kvp, n_search = (300, 180, 120, 50, 25) if q else (5000, 3000, 1500, 600, 300)
    for k in range(n_list):            # the modelled fragment: correspondence is decided on these
        r = rng.random()
        if r < 0.35:
            a, b = deep_pair(rng, rng.randint(1, 3 if q else 5))
        elif r < 0.8:
            a = gen_listy(rng, 3, 4)
            b = near_tie(rng, a)
            if rng.random() < 0.3:
                b = near_tie(rng, b)
        else:
            a, b = gen_listy(rng, 2, 4), gen_listy(rng, 2, 4)
        items.append({'a': a, 'b': b, 'opts': [rng.choice(['auto', 'none']), ['on', 'off', 'same'][k % 3]], 'mode': 'active'})
    for k in range(n_doc):             # arbitrary JSON documents under all option sets
        depth, width = (3, 4) if q or k % 3 else (4, 5)
        a, b = sl.gen_pair(rng, depth, width)
        items.append({'a': a, 'b': b, 'opts': list(sl.OPTION_SETS[k % 9]), 'mode': 'active'})
    for k in range(n_pass):            # the library's own driving loops, passive observer
        if k % 2:
            a, b = sl.gen_pair(rng, 3, 4)
        else:
            a, b = deep_pair(rng, 2)
        items.append({'a': a, 'b': b, 'opts': list(sl.OPTION_SETS[k % 9]), 'mode': 'passive'})
    for k in range(n_kvp):             # KeyValuePairEdit as the root
        a = gen_listy(rng, 2, 3)
        b = near_tie(rng, a)
        ka = rng.choice(sl.KEYS)
        kb = ka if k % 3 == 0 else rng.choice(sl.KEYS)
        items.append({'a': a, 'b': b, 'opts': ['auto', ['on', 'off', 'same'][k % 3]], 'mode': 'active',
                      'kvp': [ka, kb, True]})
    n_map = 150 if q else 2500
    for k in range(n_map):             # mapping-heavy documents: FixedKeyDictNodeEdit (none) / MultiSetEdit + matcher (auto, match)
        a, b = gen_mapping_pair(rng, 2 if k % 4 else 3)
        items.append({'a': a, 'b': b, 'opts': [['none', 'match', 'auto'][k % 3], ['on', 'off', 'same'][(k // 3) % 3]], 'mode': 'active'})
    for st_, tt_ in [('a', 'a'), ('', ''), ('abc', 'abc'), ('ab', ''), ('', 'ab'), ('abc', 'axc'), ('kitten', 'sitting')]:
        items.append({'a': st_, 'b': tt_, 'opts': ['auto', 'on'], 'mode': 'sed'})
    n_ext = 70 if q else 700
    ext_pairs = list(sl.EXT_FIXED_PAIRS) + EXT_UNBALANCED
    for k in range(n_ext):             # directly built multisets with repeated elements (trace-only, no model)
        ext_pairs.append(sl.gen_ext_pair(rng) if k % 3 else gen_ext_unbalanced(rng))
    for k, (a, b) in enumerate(ext_pairs):
        items.append({'a': a, 'b': b, 'opts': list(sl.OPTION_SETS[k % 9]), 'mode': 'passive' if k % 4 == 3 else 'active',
                      'ext': True})
    n_plist = 110 if q else 1500
    for k in range(n_plist):           # Apple plist documents: EditCollection over [Match, root edit] (PLISTNode.edits)
        a, b = gen_plist_pair(rng)
        if k % 9 == 8:
            a, b = pl_clean(gen_mapping(rng, 2)), None
            if not isinstance(a, dict):
                a = {'k': a}
            b = pl_clean(mutate_mapping(rng, a))
        items.append({'a': a, 'b': b, 'opts': [['auto', 'match', 'auto', 'none'][k % 4], ['on', 'off', 'same'][(k // 4) % 3]],
                      'mode': 'passive' if k % 6 == 5 else 'active', 'plist': 'file' if k % 5 == 4 else 'wrap'})
    n_budget = 45 if q else 600
    for k in range(n_budget):          # around the budget guard of FixedKeyDictNodeEdit: regression stream for the repair of D41 (C04_docs_none_all):
        # fixed-length alignments of short scalars with nulls below a mapping, dictionary strategy none
        n = rng.randint(1, 7)
        src = [rng.choice(['', 'a', 1, 'ab', None, True]) for _ in range(n)]
        dst = [None if rng.random() < 0.75 else rng.choice(['', 'b', 2]) for _ in range(n)]
        key = rng.choice(['', 'k', 'key'])
        a, b = {key: src}, {key: dst}
        if k % 5 == 4:
            a['z'], b['z'] = [src], [dst]
        items.append({'a': a, 'b': b, 'opts': ['none', ['off', 'same', 'on'][k % 3]], 'mode': 'passive' if k % 7 == 6 else 'active'})
    for k in range(n_search):          # IterativeTighteningSearch / PossibleEdits over alternative edits
        a = sl.gen_value(rng, 2, 3)
        bs = [sl.mutate(rng, a) for _ in range(rng.randint(1, 4))]
        it = {'a': a, 'b': bs[0], 'bs': bs[1:], 'opts': list(sl.OPTION_SETS[k % 9]), 'mode': 'search'}
        if k % 2 == 0:
            # constant candidates and explicit initial bounds lo < min <= hi (hi == min: the cheapest candidate sits exactly on
            # the initial upper bound)
            consts = [rng.randint(1, 12) for _ in range(rng.randint(1, 4))]
            m = min(consts)
            it['consts'] = consts
            it['init'] = [rng.randint(0, m - 1), m + rng.choice([0, 0, 1, 3])]
        items.append(it)
    return items


# ------------------------------------------------------------------ check

def open_findings():
    fs = [f for f in common.known_findings(PROP) if f.get('status') == 'open']
    p = os.path.join(common.VERIF, 'corpus', 'C04.known.json')
    if os.path.exists(p):
        have = {f['id'] for f in common.known_findings(PROP)}
        fs += [f for f in json.load(open(p))['findings']
               if f['property'] == PROP and f.get('status') == 'open' and f['id'] not in have]
    return fs


# (finding id, Gallina class predicate, stream it applies to: directly built multisets / documents built from JSON)
KF_CLASSES = [('D36', 'kf_multiset_duplicates_C04', 'ext')]
EXT_GUARD = 8          # wall-clock seconds per ext item (D36 can make repeat_until_tightened spin for ever)
TIMEOUT_EXCS = ('ItemGuardTimeout',)


def timed_out(o):
    """did the monitored drive of this run fail to terminate (wall-clock guard or call budget)?"""
    c = o.get('crashed')
    return bool(c) and (c.get('exc') in TIMEOUT_EXCS or 'call budget exceeded' in c.get('msg', ''))


def evaluate(run, wd, st, items, tag='cases'):
    res = [None] * len(items)
    plain = [i for i, it in enumerate(items) if not it.get('ext')]
    ext = [i for i, it in enumerate(items) if it.get('ext')]
    for idx, guard in ((plain, 180), (ext, EXT_GUARD)):
        if idx:
            for i, r in zip(idx, common.run_impl('pC04', 'impl_trace', [items[i] for i in idx], timeout_item=guard)):
                res[i] = r
    ok = []
    stats = {'steps': 0, 'objects': 0, 'events': 0, 'classes': {}, 'crashed': 0, 'root_classes': {}, 'max_calls': 0,
             'oversized_skipped': 0, 'ext_cases': 0, 'ext_timeouts': 0}
    for it, r in zip(items, res):
        nontriv = it['a'] != it['b'] and (isinstance(it['a'], (list, dict)) or isinstance(it['b'], (list, dict)))
        run.count([it['a'], it['b'], it['opts'], it.get('mode'), it.get('kvp'), it.get('bs')], nontriv)
        if 'ok' not in r and it.get('ext') and (r.get('exc') in TIMEOUT_EXCS or r.get('timeout')):
            # the guard fired outside the monitored drive (while the edit was being constructed): a run that hangs
            r = {'ok': {'a': None, 'b': None, 'root': False, 'crashed': {'exc': 'ItemGuardTimeout', 'msg': r.get('msg', '')},
                        'objs': [], 'steps': 0, 'calls': 0, 'unstepped_objects': 0}}
        if 'ok' not in r:
            run.violation({'kind': 'internal-error', 'input': it, 'result': r,
                           'note': 'the worker failed outside the monitored drive'})
            continue
        o = r['ok']
        stats['max_calls'] = max(stats['max_calls'], o.get('calls', 0))
        if sum(len(evs) for _, evs in o['objs']) > 60000 and not o['crashed']:
            stats['oversized_skipped'] += 1      # too large for one Gallina term (none in the quick tier)
            continue
        ok.append((it, o))
        if it.get('ext'):
            stats['ext_cases'] += 1
            stats['ext_timeouts'] += 1 if timed_out(o) else 0
        stats['steps'] += 0 if o['crashed'] else o['steps']       # a run cut by the guard spins: not counted
        stats['objects'] += len(o['objs'])
        stats['crashed'] += 1 if o['crashed'] else 0
        for c, evs in o['objs']:
            stats['events'] += len(evs)
            stats['classes'][c] = stats['classes'].get(c, 0) + 1
        if o['root'] and o['a'] is not None and not corr_wanted(o):
            stats['corr_skipped_large'] = stats.get('corr_skipped_large', 0) + 1
        if o['objs'] and o['root']:
            c = o['objs'][0][0]
            stats['root_classes'][c] = stats['root_classes'].get(c, 0) + 1
    header = HEADER
    if st['models_ok']:
        header += MODEL_HEADER
    else:
        # the models do not build: the cases are still judged by holds_C04 (same constructor arity as MachineModel.ccase)
        header += ('Record ccase := { cc_case : case; cc_root : bool;\n'
                   '  cc_orc : list ((list tree * list tree) * (list (list nat) * list (nat * nat))) }.\n')
    terms = [ccase_term(o) for _, o in ok]
    nk = len(KF_CLASSES)
    bad = [[] for _ in range(3 + nk)]
    # plist cases (the case carries the two root trees, the root object is the EditCollection of the two PLISTNodes) are
    # compared with the plist-root model, everything else with initO
    groups = [('', [j for j, (it, _) in enumerate(ok) if not it.get('plist')], 'corr_C04', 'modelled_C04'),
              ('_pl', [j for j, (it, _) in enumerate(ok) if it.get('plist')], 'corr_plist_C04', 'modelled_plist_C04')]
    for suffix, idx, corr_fn, mod_fn in groups:
        if not idx:
            continue
        evals = ['bad_cases (fun c => holds_C04 (cc_case c))']
        evals += [f'bad_cases (fun c => negb ({kf} (cc_case c)))' for _, kf, _ in KF_CLASSES]
        if st['models_ok']:
            evals += [f'bad_cases {corr_fn}', f'bad_cases (fun c => negb ({mod_fn} c))']
        b, err = eval_sized(wd, tag + suffix, header, [terms[j] for j in idx], evals)
        tries = 0
        while err and 'inconsistent assumptions' in err and tries < 2:
            # another check (or agent) regenerated gen/ and rebuilt part of the .vo files between this run's build and the
            # evaluation of its case files: rebuild the models and evaluate while holding the build lock
            tries += 1
            with common.Lock():
                common.regen()
                common.coq_make(MODELS)
                b, err = eval_sized(wd, f'{tag}{suffix}_r{tries}', header, [terms[j] for j in idx], evals)
        if err:
            run.violation({'kind': 'case-evaluation-failed', 'error': err}, no_input=True)
            return ok, [], [[] for _ in KF_CLASSES], [], [], stats
        for k, lst in enumerate(b):
            bad[k] += [idx[j] for j in lst]
    for lst in bad:
        lst.sort()
    bad_corr, modelled = (bad[1 + nk], bad[2 + nk]) if st['models_ok'] else ([], [])
    stats['plist_cases'] = len(groups[1][1])
    stats['plist_modelled'] = len([j for j in modelled if ok[j][0].get('plist')])
    return ok, bad[0], bad[1:1 + nk], bad_corr, modelled, stats


def eval_sized(wd, tag, header, terms, evals, limit=1200000):
    """common.coq_eval_cases over chunks of bounded text size (a single huge definition overflows coqc's stack)."""
    results = [[] for _ in evals]
    start, k = 0, 0
    while start < len(terms):
        end, size = start, 0
        while end < len(terms) and (end == start or size + len(terms[end]) <= limit) and end - start < 60:
            size += len(terms[end])
            end += 1
        bad, err = common.coq_eval_cases(wd, f'{tag}_{k}', header, terms[start:end], evals, chunk=100)
        if err:
            return None, err
        for j, b in enumerate(bad):
            results[j] += [start + i for i in b]
        start, k = end, k + 1
    return results, None


def describe(wd, it, o, tag):
    """Replay object of a failing case; the objects whose own trace fails (as decided by holds_events in Coq) first."""
    objs = o['objs']
    order = list(range(len(objs)))
    term = f'map (fun o => holds_events (ot_events o)) (c_objs {case_term(o)})'
    vals, err = common.coq_eval_terms(wd, 'describe_' + tag, HEADER, [term])
    if vals and not err:
        flags = [x.strip() for x in vals[0].strip().strip('[]').split(';') if x.strip()]
        if len(flags) == len(objs):
            order = [i for i, f in enumerate(flags) if f == 'false'] + [i for i, f in enumerate(flags) if f != 'false']
    return {'input': it, 'crashed': o['crashed'], 'failing_objects_first': True,
            'objects': [{'class': objs[i][0], 'events': objs[i][1]} for i in order[:25]]}


def classify(it, o, i, kfs, open_ids):
    """Open known findings a failing case belongs to.  D36 (duplicates collapse in WeightedBipartiteMatcher) is only
    reachable through directly built multisets (ext cases) and shows as (a) a drive that does not terminate or
    (b) a WeightedBipartiteMatcher object whose own trace violates a clause (Gallina kf_matcher_fails).
    D41 (a FixedKeyDictNodeEdit whose children cost more than its cost_upper_bound invalidated itself) is repaired in the
    code: there is no class for it, an EditCollection observed with the bounds (-inf, +inf) is a violation."""
    stream = 'ext' if it.get('ext') else 'plain'
    known = [k for (k, _, where), idx in zip(KF_CLASSES, kfs) if where == stream and i in idx and k in open_ids]
    if stream == 'ext' and not known and 'D36' in open_ids and timed_out(o):
        known = ['D36']
    return known


def check(tier, seed):
    run = common.Run(PROP, tier, seed)
    wd = common.Workdir(PROP)
    rng = random.Random(seed)
    try:
        st = common.build(MODELS, ['props/PropC04.vo'])
        common.proof_evidence(run, wd, PROP, st, THEOREMS)
        open_ids = {f['id']: f for f in open_findings()}
        items = gen_items(tier, rng)
        ok, bad_holds, kfs, bad_corr, modelled, stats = evaluate(run, wd, st, items)
        reported = {}
        n_viol = 0
        for i in bad_holds:
            known = classify(ok[i][0], ok[i][1], i, kfs, open_ids)
            if known:
                reported.setdefault(known[0], []).append(ok[i][0])
                continue
            if n_viol < 3:
                it, o = ok[i]
                run.violation({'kind': 'holds_C04-false', **describe(wd, it, o, f'v{i}')})
            n_viol += 1
        for k, its in reported.items():
            f = open_ids[k]
            run.known(f"{k}: {f.get('what', '')} [{len(its)} case(s), e.g. a={json.dumps(its[0]['a'])} "
                      f"b={json.dumps(its[0]['b'])} opts={its[0]['opts']}]")
        # open findings whose stored replay still fails are printed even if the generators did not hit them
        for k, f in open_ids.items():
            if k not in reported and f.get('replay'):
                rep = dict(f['replay'])
                rep.setdefault('mode', 'active')
                o2, bh2, kf2, _, _, _ = evaluate(run, wd, st, [rep], tag='kf' + k)
                if bh2:
                    run.known(f"{k}: {f.get('what', '')} [stored replay a={json.dumps(rep['a'])} b={json.dumps(rep['b'])} "
                              f"opts={rep['opts']}]")
        run.cov['traces_validated_against_impl'] = len(modelled) if st['models_ok'] else 0
        run.cov['corr_disagreements'] = len(bad_corr)
        run.cov['holds_failures_total'] = len(bad_holds)
        run.cov['monitored_steps'] = stats['steps']
        run.cov['monitored_objects_with_steps'] = stats['objects']
        run.cov['events'] = stats['events']
        run.cov['object_classes'] = stats['classes']
        run.cov['root_classes_active'] = stats['root_classes']
        run.cov['runs_that_raised'] = stats['crashed']
        run.cov['max_calls_per_item'] = stats['max_calls']
        run.cov['oversized_skipped'] = stats['oversized_skipped']
        run.cov['corr_skipped_large_pairs'] = stats.get('corr_skipped_large', 0)
        run.cov['ext_multiset_cases'] = stats['ext_cases']
        run.cov['ext_runs_cut_by_guard'] = stats['ext_timeouts']
        run.cov['known_finding_cases'] = {k: len(v) for k, v in reported.items()}
        run.cov['plist_root_cases'] = stats.get('plist_cases', 0)
        run.cov['plist_root_traces_validated_against_model'] = stats.get('plist_modelled', 0)
        run.cov['modelled_classes'] = MODELLED
        run.cov['trace_only_classes'] = TRACE_ONLY
        if (st['broken'] or bad_corr) and not run.violations:
            found = False
            for s2 in range(2):
                more = gen_items('thorough', random.Random(seed * 7919 + s2))[:1500]
                ok2, bh2, kfs2, bc2, _, _ = evaluate(run, wd, st, more, tag=f'search{s2}')
                for i in bh2:
                    known = classify(ok2[i][0], ok2[i][1], i, kfs2, open_ids)
                    if not known:
                        run.violation({'kind': 'holds_C04-false', **describe(wd, ok2[i][0], ok2[i][1], f's{s2}_{i}')})
                        found = True
                        break
                if found:
                    break
            if not found:
                what = st['broken'] or {'stage': 'correspondence', 'statement': 'corr_C04',
                                        'first_disagreeing_input': ok[bad_corr[0]][0] if bad_corr else None,
                                        'implementation_root_trace': ok[bad_corr[0]][1]['objs'][0] if bad_corr else None}
                run.violation({'kind': 'tie-broken', 'what': what}, no_input=True)
        run.cov['rule'] = ('pairs of JSON documents built by graphtage.json.build_tree: corpus; fixed pairs; list/string documents '
                           '(nested lists of scalars and strings, near-tie mutations in several places, deep chains with siblings) '
                           'under list edits on/off/off-when-same-length; arbitrary documents under the 9 option sets; key/value '
                           'pairs as roots; Apple plist documents (PLISTNode around generated mapping roots with renamed keys and '
                           'changed values, wrapped directly or written with plistlib and loaded by graphtage.plist.build_tree); '
                           'short-scalar/null lists below FixedKeyDictNodes around the cost_upper_bound guard (regression stream for the repaired D41); '
                           'IterativeTighteningSearch/PossibleEdits over alternative targets.  Every Bounded object '
                           'created is monitored (classes wrapped from outside), driven to completion and queried; active observer = '
                           'bounds() before and after every outermost tighten_bounds() of every object, passive observer = TreeNode.diff '
                           'and get_all_edits with only the library\'s own bounds() calls.  non-trivial = the documents differ and one is '
                           'a container; distinct by (a, b, options, mode).')
        run.cov['samples'] = [ok[i][0] for i in range(0, min(len(ok), 400), 83)]
        run.cov['exhaustive'] = False
        run.assumptions = ['the active observer (bounds() around every outermost tighten_bounds()) is a legal use of the public API; the '
                           'models are stepped under the same observer',
                           'leaf text is Python str(object), supplied by the harness',
                           'numpy uint64 cost cells are modelled by Z (no wrap below 2^64); uint16 path cells wrap explicitly',
                           'classes validated by trace only (no machine-checked contract): ' + '; '.join(TRACE_ONLY)]
        return run.finish()
    finally:
        wd.cleanup()
        import shutil
        shutil.rmtree(os.path.join(common.VERIF, '.work', 'C04-plist-tmp'), ignore_errors=True)


def replay(path):
    obj = json.load(open(path))
    it = obj.get('input')
    if not it:
        print('replay file names no input:', json.dumps(obj)[:600])
        print(f'VIOLATION property={PROP} replay={path} no-failing-input-found')
        return 1
    wd = common.Workdir(PROP + 'r')
    try:
        common.build(['theories/MachineSpec.vo', 'theories/MachineGuardSpec.vo'], ['theories/MachineSpec.vo', 'theories/MachineGuardSpec.vo'])
        r = common.run_impl('pC04', 'impl_trace', [it], nproc=1)[0]
        print(json.dumps(r)[:3000])
        if 'ok' not in r:
            print(f'VIOLATION property={PROP} replay={path}')
            return 1
        bad, err = common.coq_eval_cases(wd, 'replay', HEADER, [case_term(r['ok'])], ['bad_cases holds_C04'])
        if err or bad[0]:
            print(f'VIOLATION property={PROP} replay={path}')
            return 1
        print('replay: property holds on this input')
        return 0
    finally:
        wd.cleanup()
