"""C03 - the reported cost equals the sum of its parts, in every view."""
from harness import scriptcheck

PROP = 'C03'
THEOREMS = ['C03', 'C03_partial_views']


def check(tier, seed):
    return scriptcheck.check(PROP, tier, seed, 'holds_C03', THEOREMS, ext=True,
                             kf=[('D36', '(fun c => kf_multiset_duplicates (sc_a c) (sc_b c))',
                                  'a multiset with repeated elements: the matcher collapses duplicates, so the reported '
                                  'cost differs from the sum of the listed edits (or the edit never terminates)')],
                             rule_extra='Views compared per case: own cost of every compound in the nested script, the sum over '
                                        'get_all_edits() (fresh trees), diff().edited_cost() (fresh trees), the top-level edit.')


def replay(path):
    return scriptcheck.replay(PROP, path, 'holds_C03')
