"""C03 - the reported cost equals the sum of its parts, in every view."""
from harness import scriptcheck

PROP = 'C03'
THEOREMS = ['C03', 'C03_partial_views']


def check(tier, seed):
    return scriptcheck.check(PROP, tier, seed, 'holds_C03', THEOREMS,
                             rule_extra='Views compared per case: own cost of every compound in the nested script, the sum over '
                                        'get_all_edits() (fresh trees), diff().edited_cost() (fresh trees), the top-level edit.')


def replay(path):
    return scriptcheck.replay(PROP, path, 'holds_C03')
