"""C07 - diffing is a pure, deterministic function of its inputs.

Runtime observation (the part of the property no theorem can exhibit): for generated document pairs x the 9 option
sets x output modes (default, --only-edits, --edit-digest, --color) the two JSON files are written and
`python -m graphtage --no-status <flags> a.json b.json` is run as FRESH processes under K different PYTHONHASHSEEDs
(K = 4 quick, 32 thorough), with a perturbed allocation history (a sitecustomize in a scratch directory allocates
and partly frees C07_ALLOC objects of assorted sizes before graphtage is imported) and with PYTHONMALLOC=malloc;
the same pair is diffed and rendered repeatedly inside ONE process (same trees twice, fresh trees once), and a
structural snapshot of BOTH input trees (repr, id() of every node and of its parent, sorted __dict__ keys, class and
total_size of every node) is taken before and after diff(), printing, get_all_edits() and the second diff().

The worker returns exit statuses, stdout lengths and SHA-256 digests and snapshot digests; the verdict is
`holds_C07` (GT.DetSpec: all outputs and statuses equal, repetitions equal, snapshots unchanged, no traceback) and
`corr_C07` (GT.DetModel: the script model with the set-order adversary ERASED reproduces the implementation's
complete script, and every exit status is 1 iff the model's cost is positive), evaluated with vm_compute.
Python only generates, drives, hashes, serialises and counts.

Warm-process stream ("across repeated calls in one process"): the cases are grouped into batches (ordinary generated
pairs mixed with FAMILIES of pairs that differ only in scalar types 1 / 1.0 / true / "1", near-duplicates and
exact repetitions); for every batch ONE child process per order (forward, reversed; thorough: also shuffled) calls
graphtage.__main__.main(argv) for every case of the batch in sequence - the same entry point and flags as the fresh
runs, stdout captured by a StringIO whose close() is a no-op.  Every such call becomes one more run of its case,
tagged (ro_warm = order, ro_pos = position); holds_C07 requires it to equal the fresh-process result.  A failing
warm run is replayed from its documents, flags and the PRECEDING cases of that process (reduced to one preceding
case when a single one suffices).

Translator pass: translator/gen_det.py (registered below) lists every site of graphtage/*.py where set /
interval-tree order, id(), hash() or the environment can flow into behaviour; a site missing from its audited
table is a translator error, i.e. a broken tie.

Library-path probes outside the document domain (reported in the evidence, never a verdict on their own unless
known_findings.json lists them as open): a Python set of strings handed to BasicBuilder (adversary sigma) and two
cyclic lists diffed with ignore_cycles=True (adversary alpha).
"""
import hashlib
import json
import os
import random
import sys

from harness import common, scriptlib as sl

sys.path.insert(0, os.path.join(common.VERIF, 'translator'))
import py2coq          # noqa: E402
import gen_det         # noqa: E402
py2coq.MODULES.setdefault('DetGen', gen_det.gen_det)

PROP = 'C07'
THEOREMS = ['C07_order_irrelevant', 'C07_order_irrelevant_now', 'C07_hash_order_refuted_if', 'C07_match_cost_partial',
            'C07_match_status_partial', 'C07_sites_audited', 'C07_holds_spec']
SPEC_TARGETS = ['theories/DetSpec.vo']
MODEL_TARGETS = ['theories/DetSpec.vo', 'theories/DetModel.vo']
HEADER_SPEC = ('From Coq Require Import ZArith List Bool.\nRequire Import GT.DetSpec.\n'
               'Import ListNotations.\nOpen Scope Z_scope.\n')
HEADER_MODEL = ('From Coq Require Import ZArith List Bool.\nRequire Import GT.PyBase GT.Data GT.ScriptSpec GT.ScriptModel '
                'GT.DetSpec GT.DetModel.\nImport ListNotations.\nOpen Scope Z_scope.\n')
CORPUS = os.path.join(common.VERIF, 'corpus', 'C07.jsonl')
MODES = {'default': [], 'e': ['--only-edits'], 'd': ['--edit-digest'], 'color': ['--color'], 'j': ['--condensed']}
LIST_FLAGS = {'on': [], 'off': ['--no-list-edits'], 'same': ['--no-list-edits-when-same-length']}

SITECUSTOMIZE = r'''
# written by /verif/harness/pC07.py: perturb the allocation history before graphtage is imported
import os as _os
_n = int(_os.environ.get('C07_ALLOC', '0') or 0)
if _n > 0:
    import random as _random
    _r = _random.Random(_n)
    _keep = []
    for _i in range(_n):
        _k = _r.randrange(6)
        if _k == 0:
            _o = [None] * _r.randrange(1, 40)
        elif _k == 1:
            _o = {j: j for j in range(_r.randrange(1, 12))}
        elif _k == 2:
            _o = 'x' * _r.randrange(1, 200) + str(_i)
        elif _k == 3:
            _o = object()
        elif _k == 4:
            _o = (_i, float(_i), bytes(_r.randrange(1, 120)))
        else:
            _o = {str(j) for j in range(_r.randrange(1, 9))}
        if _r.random() < 0.5:
            _keep.append(_o)
    import builtins as _b
    _b._c07_keep = _keep
'''

PYSET_PROBE = r'''
import io, os, sys
import graphtage, graphtage.printer as P
from graphtage.builder import BasicBuilder
for m in (graphtage.printer, graphtage.tree, graphtage.levenshtein):
    m.DEFAULT_PRINTER.quiet = True
a = BasicBuilder().build_tree({'apple', 'banana', 'cherry', 'date', 'elderberry'})
b = BasicBuilder().build_tree({'apple', 'banana', 'cherry', 'fig'})
out = io.StringIO()
d = a.diff(b)
d.print(P.Printer(out_stream=out, ansi_color=False, quiet=True))
sys.stdout.write(out.getvalue() + '\n')
sys.stdout.flush()
os._exit(1 if d.edited_cost() > 0 else 0)
'''

CYC_PROBE = r'''
import os, sys
import graphtage
from graphtage.builder import BasicBuilder
for m in (graphtage.printer, graphtage.tree, graphtage.levenshtein):
    m.DEFAULT_PRINTER.quiet = True
o = graphtage.BuildOptions()
o.ignore_cycles = True
a = [1, 2]; a.append(a)
b = [1, 3]; b.append(b)
d = BasicBuilder(o).build_tree(a).diff(BasicBuilder(o).build_tree(b))
sys.stdout.write('cost=%d\n' % d.edited_cost())
sys.stdout.flush()
os._exit(1 if d.edited_cost() > 0 else 0)
'''
PROBES = {'pyset': PYSET_PROBE, 'cyc': CYC_PROBE}


# ------------------------------------------------------------------ implementation side (worker)

def flags_of(item):
    ds, lm = item['opts']
    return ['--dict-strategy', ds] + LIST_FLAGS[lm] + MODES[item.get('mode', 'default')]


def _digest(b):
    return int.from_bytes(hashlib.sha256(b).digest(), 'big')


def _site_dir(base):
    d = os.path.join(base, 'site')
    os.makedirs(d, exist_ok=True)
    p = os.path.join(d, 'sitecustomize.py')
    if not os.path.exists(p):
        tmp = p + f'.{os.getpid()}'
        with open(tmp, 'w') as f:
            f.write(SITECUSTOMIZE)
        os.replace(tmp, p)
    return d


def run_once(argv, seed, alloc, site_dir):
    import subprocess
    env = dict(os.environ)
    env['PYTHONHASHSEED'] = str(seed)
    env['PYTHONPATH'] = os.pathsep.join([site_dir, common.REPO])
    env['PYTHONDONTWRITEBYTECODE'] = '1'
    for v in ('OMP_NUM_THREADS', 'OPENBLAS_NUM_THREADS', 'MKL_NUM_THREADS'):
        env[v] = '1'
    env.pop('C07_ALLOC', None)
    env.pop('PYTHONMALLOC', None)
    if alloc > 0:
        env['C07_ALLOC'] = str(alloc)
    elif alloc < 0:
        env['PYTHONMALLOC'] = 'malloc'
    p = subprocess.run([sys.executable] + argv, stdout=subprocess.PIPE, stderr=subprocess.PIPE, env=env, timeout=300)
    status = 99 if b'Traceback' in p.stderr else p.returncode
    return {'seed': seed, 'alloc': alloc, 'warm': 0, 'pos': 0, 'status': status, 'len': len(p.stdout), 'digest': _digest(p.stdout),
            'out': p.stdout[:3000].decode('utf-8', 'replace'),
            'err': p.stderr[-600:].decode('utf-8', 'replace') if status == 99 else ''}


WARM_DRIVER = r"""
import hashlib, io, json, os, sys, traceback
class _Out(io.StringIO):
    def close(self):
        pass
    def isatty(self):
        return False
jobs = json.loads(sys.stdin.read())
real = sys.stdout
import graphtage.__main__ as gm
# importing graphtage calls colorama.init(), which replaces sys.stdout by a wrapper that strips ANSI codes when the
# underlying stream is not a terminal; main() must see the capture buffer through the same kind of wrapper
after_import = sys.stdout
wrapped = after_import is not real
if wrapped:
    import colorama.initialise as _ci
res = []
for argv in jobs:
    buf = _Out()
    sys.stdout = _ci.wrap_stream(buf, None, None, False, True) if wrapped else buf
    tb = ''
    try:
        try:
            st = gm.main(['graphtage'] + argv)
        except SystemExit as e:
            st = e.code if isinstance(e.code, int) else (0 if e.code is None else 1)
    except BaseException:
        st = 99
        tb = traceback.format_exc()[-600:]
    finally:
        sys.stdout = after_import
    data = buf.getvalue().encode('utf-8')
    res.append({'status': st, 'len': len(data), 'sha': hashlib.sha256(data).hexdigest(), 'out': buf.getvalue()[:3000], 'err': tb})
    if st == 99:
        break          # graphtage's process-global printer state is unusable after an exception
real.write('@@W ' + json.dumps(res) + chr(10))
real.flush()
os._exit(0)
"""
ORDERS = {'forward': 1, 'reversed': 2, 'shuffled': 3, 'replay': 4}


def impl_warm(item):
    """item: {'cases': [{'a','b','opts','mode','cid'}, ..] in execution order, 'order': name, 'dir', 'idx'}.
    One child process runs main() on every case in sequence."""
    import shutil
    import subprocess
    dirname = os.path.join(item['dir'], f'w{item["idx"]}')
    os.makedirs(dirname, exist_ok=True)
    site_dir = _site_dir(item['dir'])
    try:
        jobs = []
        for k, c in enumerate(item['cases']):
            pa, pb = os.path.join(dirname, f'{k}_a.json'), os.path.join(dirname, f'{k}_b.json')
            with open(pa, 'w') as f:
                json.dump(c['a'], f)
            with open(pb, 'w') as f:
                json.dump(c['b'], f)
            jobs.append(['--no-status'] + flags_of(c) + [pa, pb])
        env = dict(os.environ)
        env['PYTHONHASHSEED'] = str(item.get('seed', 0))
        env['PYTHONPATH'] = os.pathsep.join([site_dir, common.REPO])
        env['PYTHONDONTWRITEBYTECODE'] = '1'
        for v in ('OMP_NUM_THREADS', 'OPENBLAS_NUM_THREADS', 'MKL_NUM_THREADS'):
            env[v] = '1'
        env.pop('C07_ALLOC', None)
        env.pop('PYTHONMALLOC', None)
        p = subprocess.run([sys.executable, '-c', WARM_DRIVER], input=json.dumps(jobs).encode(), stdout=subprocess.PIPE,
                           stderr=subprocess.PIPE, env=env, timeout=60 + 30 * len(jobs))
        line = [l for l in p.stdout.decode('utf-8', 'replace').split('\n') if l.startswith('@@W ')]
        if not line:
            raise RuntimeError(f'warm process gave no result: rc={p.returncode} {p.stderr[-400:]!r}')
        res = json.loads(line[-1][4:])
        return {'order': item['order'],
                'results': [{'cid': c['cid'], 'seed': item.get('seed', 0), 'alloc': 0, 'warm': ORDERS[item['order']], 'pos': k,
                             'status': r['status'], 'len': r['len'], 'digest': int(r['sha'], 16), 'out': r['out'], 'err': r['err']}
                            for k, (c, r) in enumerate(zip(item['cases'], res))],
                'executed': len(res)}
    finally:
        shutil.rmtree(dirname, ignore_errors=True)



def snapshot(root):
    """Structural snapshot of a tree: SHA-256 over repr(root) and, per node in pre-order, its class, id, the id of its
    parent, its sorted __dict__ keys and its total_size."""
    rows = []
    stack = [root]
    seen = set()
    while stack:
        n = stack.pop()
        if id(n) in seen:
            continue
        seen.add(id(n))
        d = getattr(n, '__dict__', {})
        par = d.get('_parent', getattr(n, '_parent', None))
        # an instance attribute that merely repeats the class-level default (make_edited leaves `_parent = None` in the
        # root's __dict__, the class default is None as well) is not counted as a new key
        keys = sorted(k for k, v in d.items() if not (hasattr(type(n), k) and getattr(type(n), k) is v))
        rows.append([type(n).__name__, id(n), id(par) if par is not None else 0, keys, int(n.total_size)])
        try:
            kids = list(sl.node_children(n))
        except ValueError:
            kids = list(n.children())
        stack.extend(reversed(kids))
    text = json.dumps([repr(root), rows])
    return _digest(text.encode()), len(rows)


def _render(diff):
    import io
    import graphtage.printer as P
    from graphtage.json import JSONFormatter
    out = io.StringIO()
    JSONFormatter.DEFAULT_INSTANCE.print(P.Printer(out_stream=out, ansi_color=False, quiet=True), diff)
    return out.getvalue().encode()


def inproc(item):
    """Repeated diffs in this one process + snapshots of both inputs around every operation."""
    sl._quiet()
    a, b, _ = sl.build_pair(item)
    for n in (a, b):                      # populate the total_size caches before the first snapshot
        snapshot(n)
    snaps, outs = [], []

    def around(label, fn):
        before = (snapshot(a)[0], snapshot(b)[0])
        res = fn()
        after = (snapshot(a)[0], snapshot(b)[0])
        snaps.append([label + ':a', before[0], after[0]])
        snaps.append([label + ':b', before[1], after[1]])
        return res
    d1 = around('diff', lambda: a.diff(b))
    outs.append(around('print', lambda: _render(d1)))
    around('get_all_edits', lambda: [sl._tighten(e) for e in a.get_all_edits(b)])
    d2 = around('diff-again', lambda: a.diff(b))
    outs.append(around('print-again', lambda: _render(d2)))
    a3, b3, _ = sl.build_pair(item)
    outs.append(_render(a3.diff(b3)))
    return {'snaps': snaps, 'inproc': [[len(o), _digest(o)] for o in outs], 'nodes': snapshot(a)[1] + snapshot(b)[1]}


def impl_case(item):
    """item: {'a','b': JSON values, 'opts': [dict strategy, list mode], 'mode', 'runs': [[seed, alloc], ..], 'dir', 'idx'}
    or {'probe': 'pyset'|'cyc', 'runs', 'dir', 'idx'}"""
    import shutil
    dirname = os.path.join(item['dir'], f'c{item["idx"]}')
    os.makedirs(dirname, exist_ok=True)
    site_dir = _site_dir(item['dir'])
    try:
        if item.get('probe'):
            argv = ['-c', PROBES[item['probe']]]
            return {'runs': [run_once(argv, s, al, site_dir) for s, al in item['runs']], 'snaps': [], 'inproc': [],
                    'corr': None, 'nodes': 0}
        pa, pb = os.path.join(dirname, 'a.json'), os.path.join(dirname, 'b.json')
        with open(pa, 'w') as f:
            json.dump(item['a'], f)
        with open(pb, 'w') as f:
            json.dump(item['b'], f)
        argv = ['-m', 'graphtage', '--no-status'] + flags_of(item) + [pa, pb]
        runs = [run_once(argv, s, al, site_dir) for s, al in item['runs']]
        res = {'runs': runs, 'corr': None}
        res.update(inproc(item))
        if item.get('corr', True):
            # last: an exception inside graphtage leaves its global printer state unusable
            try:
                res['corr'] = sl.impl_script(item)
            except Exception as e:        # noqa: the pair is then outside the modelled fragment / hits another property's finding
                res['corr_exc'] = f'{type(e).__name__}: {e}'[:200]
                res['poisoned'] = True
        return res
    finally:
        shutil.rmtree(dirname, ignore_errors=True)


# ------------------------------------------------------------------ Gallina terms

def case_term(r):
    runs = ';'.join(f'Build_run_obs {sl.z(x["seed"])} {sl.z(x["alloc"])} {x.get("warm", 0)} {x.get("pos", 0)} '
                    f'{sl.z(x["status"])} {x["len"]} {x["digest"]}'
                    for x in r['runs'])
    inp = ';'.join(f'({ln}, {dg})' for ln, dg in r['inproc'])
    snaps = ';'.join(f'Build_snap {b} {a}' for _, b, a in r['snaps'])
    return f'(Build_det_case [{runs}] [{inp}] [{snaps}])'


def corr_term(r):
    cc = f'(Some {sl.corr_term(r["corr"])})' if r.get('corr') else 'None'
    return f'(Build_det_corr {case_term(r)} {cc})'


# ------------------------------------------------------------------ generators

KEYS2 = sl.KEYS + ['d', 'e', 'f', 'alpha', 'beta', 'gamma', 'zz', 'q', 'key2', 'k3', 'Aa', 'BB', 'aaaaaaaZ']


def g_keys(rng, n):
    pool = list(KEYS2)
    while len(pool) < n + 4:
        pool.append(''.join(rng.choice('abcdefgh') for _ in range(rng.randint(1, 5))))
    return rng.sample(pool, n)


def g_removed_keys(rng):
    """>= 2 removed keys (and often >= 2 inserted): the D7 shape, possibly nested."""
    shared = g_keys(rng, rng.randint(0, 2))
    rem = [k for k in g_keys(rng, rng.randint(2, 5)) if k not in shared]
    ins = [k for k in g_keys(rng, rng.randint(0, 3)) if k not in shared and k not in rem]
    a = {k: sl.gen_value(rng, 1, 2) for k in shared + rem}
    b = {k: (a[k] if k in a and rng.random() < 0.6 else sl.gen_value(rng, 1, 2)) for k in shared + ins}
    items = list(a.items())
    rng.shuffle(items)
    return dict(items), b


def g_ties(rng):
    """Several equally cheap assignments: equal or near-equal values under keys that all differ."""
    vals = [sl.gen_value(rng, rng.choice([0, 1, 1, 2]), 2) for _ in range(rng.randint(1, 2))]
    n, m = rng.randint(2, 4), rng.randint(2, 4)
    ks = g_keys(rng, n + m)
    a = {k: rng.choice(vals) for k in ks[:n]}
    b = {k: (rng.choice(vals) if rng.random() < 0.7 else sl.mutate(rng, rng.choice(vals))) for k in ks[n:]}
    if rng.random() < 0.4:                       # some shared keys too
        k = rng.choice(ks[:n])
        b[k] = sl.mutate(rng, a[k])
    return a, b


def g_pair(rng, k):
    r = k % 8
    if r in (0, 1):
        a, b = g_removed_keys(rng)
    elif r in (2, 3):
        a, b = g_ties(rng)
    elif r == 4:                                 # nested lists of dicts
        xs = [g_removed_keys(rng) if rng.random() < 0.5 else g_ties(rng) for _ in range(rng.randint(1, 3))]
        a, b = [x[0] for x in xs], [x[1] for x in xs]
        if rng.random() < 0.4:
            b = sl.mutate(rng, b)
    elif r == 5:                                 # dict of dicts
        x, y = g_removed_keys(rng), g_ties(rng)
        a, b = {'p': x[0], 'q': y[0], 'r': [1, 2]}, {'p': x[1], 'q': y[1], 's': [1, 2]}
    elif r == 6:
        a, b = sl.gen_pair(rng, 3, 4)
    else:
        a, b = sl.gen_pair(rng, 2, 3)
    return a, b


# ---- families for the warm-process stream: pairs that differ only in scalar types, near-duplicates, repetitions

def retype_some(rng, v, how, p=0.6):
    """v with some of its numbers retyped: how = 'float' (1 -> 1.0), 'bool' (0/1 -> false/true), 'str' (1 -> "1"),
    'int' (1.0 / true -> 1).  Python-equal values of different type: 1 == 1.0 == True, hash alike."""
    if isinstance(v, list):
        return [retype_some(rng, x, how, p) for x in v]
    if isinstance(v, dict):
        return {k: retype_some(rng, x, how, p) for k, x in v.items()}
    if rng.random() >= p:
        return v
    if isinstance(v, bool):
        return {'int': int(v), 'float': float(v), 'str': str(int(v))}.get(how, v)
    if isinstance(v, int):
        if how == 'float':
            return float(v)
        if how == 'bool' and v in (0, 1):
            return bool(v)
        if how == 'str':
            return str(v)
        return v
    if isinstance(v, float) and v == int(v):
        return {'int': int(v), 'str': str(int(v)), 'bool': bool(v) if v in (0.0, 1.0) else v}.get(how, v)
    return v


def g_int_doc(rng):
    ints = lambda n: [rng.choice([0, 1, 1, 2, 5, 7, 10]) for _ in range(n)]      # noqa: E731
    r = rng.random()
    if r < 0.45:
        return ints(rng.randint(2, 4))
    if r < 0.65:
        return {rng.choice(['k', 'a', 'key']): ints(rng.randint(2, 4))}
    if r < 0.8:
        return [ints(rng.randint(1, 3)) for _ in range(rng.randint(1, 3))]
    if r < 0.9:
        return {k: rng.choice([0, 1, 2, 5]) for k in rng.sample(['a', 'b', 'c', 'k1'], rng.randint(2, 3))}
    return [{'a': rng.choice([0, 1, 2])}, rng.choice([0, 1, 5])]


def change_ints(rng, v):
    """Same shape, some integers replaced by other integers, at least one 0/1 kept where there is one."""
    if isinstance(v, list):
        return [change_ints(rng, x) for x in v]
    if isinstance(v, dict):
        return {k: change_ints(rng, x) for k, x in v.items()}
    if isinstance(v, int) and not isinstance(v, bool) and v not in (0, 1) and rng.random() < 0.7:
        return v + rng.choice([1, 1, 2, 3])
    if isinstance(v, int) and not isinstance(v, bool) and rng.random() < 0.15:
        return 1 - v if v in (0, 1) else v
    return v


def g_family(rng, fid):
    a = g_int_doc(rng)
    b = change_ints(rng, a)
    opts = [rng.choice(['auto', 'auto', 'match', 'none']), rng.choice(['on', 'on', 'off', 'off', 'same'])]
    mode = rng.choice(['default', 'default', 'default', 'e', 'd'])
    members = [(a, b)]
    for how in rng.sample(['float', 'bool', 'str', 'float'], 3):
        members.append((a, retype_some(rng, b, how)))
    members.append((retype_some(rng, a, rng.choice(['float', 'bool'])), b))
    members.append((a, b))                                           # exact repetition of the first member
    if rng.random() < 0.5:
        members.append((a, sl.mutate(rng, b)))                       # near-duplicate
    return [{'a': x, 'b': y, 'opts': list(opts), 'mode': mode, 'fam': fid} for x, y in members]


def warm_items(items, rng, tier, workdir, start):
    """Batches of cases for the warm processes: ordinary cases in chunks, whole families distributed over the batches;
    every batch in a seeded shuffled order, forward and reversed (thorough: one more shuffle)."""
    plain = [it for it in items if 'fam' not in it and not it.get('probe')]
    fams = {}
    for it in items:
        if 'fam' in it:
            fams.setdefault(it['fam'], []).append(it)
    size = 28
    nb = max(1, (len(plain) + size - 1) // size)
    batches = [plain[i * size:(i + 1) * size] for i in range(nb)]
    for j, fid in enumerate(sorted(fams)):
        batches[j % nb] += fams[fid]
    out = []
    for bt in batches:
        seq = list(bt)
        rng.shuffle(seq)
        orders = [('forward', seq), ('reversed', seq[::-1])]
        if tier != 'quick':
            sh = list(seq)
            rng.shuffle(sh)
            orders.append(('shuffled', sh))
        for name, sq in orders:
            out.append({'warm': True, 'order': name, 'idx': start + len(out), 'dir': workdir,
                        'cases': [{'a': c['a'], 'b': c['b'], 'opts': c['opts'], 'mode': c['mode'], 'cid': c['idx']} for c in sq]})
    return out


def run_plan(rng, tier, k=None):
    k = k or (4 if tier == 'quick' else 32)
    base = rng.randrange(1, 1 << 20)
    seeds = [0] + [(base + 7919 * i) % 4294967295 or 1 for i in range(1, k)]
    runs = [[s, 0] for s in seeds]
    nalloc = 1 if tier == 'quick' else 3
    for i in range(nalloc):
        runs.append([seeds[i % len(seeds)], rng.randrange(50, 5000)])
    runs.append([seeds[-1], -1])
    return runs


def gen_items(tier, rng, workdir, n=None, k=None, families=None):
    items = []
    mode_names = ['default', 'e', 'd', 'default', 'color', 'default', 'j']
    if os.path.exists(CORPUS):
        for line in open(CORPUS):
            if line.strip():
                c = json.loads(line)
                for mode in (['default', 'e', 'd'] if 'mode' not in c else [c['mode']]):
                    items.append({'a': c['a'], 'b': c['b'], 'opts': c.get('opts', ['none', 'on']), 'mode': mode,
                                  'corpus': True})
    for a, b in sl.FIXED_PAIRS[12:]:
        items.append({'a': a, 'b': b, 'opts': list(sl.OPTION_SETS[len(items) % 9]), 'mode': mode_names[len(items) % 7]})
    n = n if n is not None else (96 if tier == 'quick' else 700)
    for i in range(n):
        a, b = g_pair(rng, i)
        if i % 8 in (0, 1) and i % 3 != 2:
            opts = ['none', ['on', 'off', 'same'][i % 3]]          # bias to -k
        else:
            opts = list(sl.OPTION_SETS[(i * 5 + i // 8) % 9])
        items.append({'a': a, 'b': b, 'opts': opts, 'mode': mode_names[i % 7]})
    nfam = families if families is not None else (8 if tier == 'quick' else 60)
    for fid in range(nfam):
        items += g_family(rng, fid)
    for i, it in enumerate(items):
        it['idx'] = i
        it['dir'] = workdir
        it['runs'] = run_plan(rng, tier, k)
        if 'fam' in it and tier == 'quick':
            it['runs'] = it['runs'][:2]          # the fresh baseline: two seeds; the family's stream is the warm one
    return items


def probe_items(tier, rng, workdir, start):
    out = []
    for j, name in enumerate(sorted(PROBES)):
        out.append({'probe': name, 'idx': start + j, 'dir': workdir, 'runs': run_plan(rng, tier, 8)})
    return out


def pub(it):
    return {k: it[k] for k in ('a', 'b', 'opts', 'mode', 'runs', 'probe', 'warm_sequence') if k in it}


def pub_case(c):
    return {k: c[k] for k in ('a', 'b', 'opts', 'mode')}


def nontrivial(it):
    return sl.nontrivial(it['a'], it['b'])


# ------------------------------------------------------------------ check / replay

WARM_SEQS = {}       # id of a warm batch run -> its cases in execution order (for the replay of a failing warm run)


def merge_warm(run, ok_by_idx, warm):
    """Run the warm batches and append every call as one more run of its case."""
    if not warm:
        return 0
    wres = common.run_impl('pC07', 'impl_warm', warm, timeout_item=1800)
    n = 0
    for w, r in zip(warm, wres):
        if 'ok' not in r:
            run.violation({'kind': 'internal-error', 'warm_batch': {'order': w['order'], 'cases': [pub_case(c) for c in w['cases']]},
                           'result': r, 'note': 'the warm process (main() called for every case in sequence) did not report'})
            continue
        key = f'{w["idx"]}'
        WARM_SEQS[key] = w['cases']
        for x in r['ok']['results']:
            tgt = ok_by_idx.get(x['cid'])
            if tgt is not None:
                x['seq'] = key
                tgt['runs'].append(x)
                n += 1
    return n


def evaluate(run, wd, st, items, tag='cases', count=True, warm=None):
    res = common.run_impl('pC07', 'impl_case', items, timeout_item=900)
    # a worker whose graphtage state was poisoned by an earlier exception may fail on an innocent item: retry alone
    retry = [i for i, r in enumerate(res) if 'ok' not in r]
    if retry:
        again = common.run_impl('pC07', 'impl_case', [dict(items[i], corr=False) for i in retry], timeout_item=900,
                                nproc=min(len(retry), common.NPROC))
        for i, r in zip(retry, again):
            res[i] = r
    ok = []
    for it, r in zip(items, res):
        if count and not it.get('probe'):
            run.count([it['a'], it['b'], it['opts'], it['mode']], nontrivial(it))
        if 'ok' in r:
            ok.append((it, r['ok']))
        else:
            run.violation({'kind': 'internal-error', 'input': pub(it), 'result': r,
                           'note': 'running the diff repeatedly / snapshotting raised in the worker'})
    if not ok:
        return ok, [], []
    run.cov['warm_runs'] = run.cov.get('warm_runs', 0) + merge_warm(run, {it['idx']: r for it, r in ok if not it.get('probe')}, warm)
    if st['models_ok']:
        header, terms = HEADER_MODEL, [corr_term(r) for _, r in ok]
        evals = ['bad_cases (fun c => holds_C07 (dr_case c))', 'bad_cases corr_C07']
    else:
        header, terms = HEADER_SPEC, [case_term(r) for _, r in ok]
        evals = ['bad_cases holds_C07']
    bad, err = common.coq_eval_cases(wd, tag, header, terms, evals, chunk=40)
    if err:
        run.violation({'kind': 'case-evaluation-failed', 'error': err}, no_input=True)
        return ok, [], []
    return ok, bad[0], (bad[1] if st['models_ok'] else [])


def describe(it, r):
    """Replay object of a failing case: the documents, flags and the runs, with the two runs that differ first
    (reporting only; the verdict was computed by holds_C07)."""
    runs = r['runs']
    first = runs[0] if runs else None
    other = next((x for x in runs[1:] if (x['status'], x['len'], x['digest']) != (first['status'], first['len'], first['digest'])), None)
    obj = {'kind': 'holds_C07-false', 'input': pub(it), 'flags': flags_of(it) if not it.get('probe') else ['-c', it['probe']],
           'observed': [{k: x.get(k, 0) for k in ('seed', 'alloc', 'warm', 'pos', 'status', 'len')} | {'sha256': '%064x' % x['digest']}
                        for x in runs],
           'inproc': [[ln, '%064x' % dg] for ln, dg in r['inproc']],
           'snapshots_changed': [lab for lab, b, a in r['snaps'] if b != a],
           'crashed': [x['err'] for x in runs if x['status'] == 99][:1]}
    if other is not None:
        obj['differing_runs'] = [[first['seed'], first['alloc']], [other['seed'], other['alloc']]]
        obj['stdout_first'] = first['out']
        obj['stdout_other'] = other['out']
        obj['input']['runs'] = [[first['seed'], first['alloc']], [other['seed'], other['alloc']]]
        if other.get('warm'):
            # the differing run is call number `pos` of a warm process: the replay is the fresh run + the same sequence
            seq = WARM_SEQS.get(other.get('seq'), [])
            prec = [pub_case(c) for c in seq[:other['pos']]] if seq else other.get('preceding', [])
            obj['warm'] = {'order': [k for k, v in ORDERS.items() if v == other['warm']][0], 'position': other['pos'],
                           'preceding': prec}
            obj['differing_runs'] = [[first['seed'], first['alloc'], 'fresh process'],
                                     [other['seed'], 0, f'warm process, after {len(prec)} other diff(s)']]
            obj['input']['runs'] = [[first['seed'], first['alloc']]]
            obj['input']['warm_sequence'] = prec + [pub_case(it)]
    return obj


def reduce_warm(wd, it, r, obj):
    """Try to shorten the preceding cases of a failing warm run to ONE case.  The candidates are selected by comparing
    digests (search heuristics); the reduced replay is only used if holds_C07 (Coq) is false on it."""
    prec = obj.get('warm', {}).get('preceding') or []
    if len(prec) <= 1:
        return obj
    first = r['runs'][0]
    tgt = pub_case(it)
    jobs = [{'warm': True, 'order': 'replay', 'idx': 900000 + j, 'dir': it['dir'],
             'cases': [dict(c, cid=-1), dict(tgt, cid=0)]} for j, c in enumerate(prec)]
    res = common.run_impl('pC07', 'impl_warm', jobs, timeout_item=600)
    for c, w in zip(prec, res):
        if 'ok' not in w or len(w['ok']['results']) < 2:
            continue
        x = w['ok']['results'][1]
        if (x['status'], x['len'], x['digest']) != (first['status'], first['len'], first['digest']):
            x = dict(x, preceding=[c], seq=None)
            r2 = {'runs': [first, x], 'inproc': [], 'snaps': []}
            bad, err = common.coq_eval_cases(wd, 'reduce', HEADER_SPEC, [case_term(r2)], ['bad_cases holds_C07'])
            if not err and bad[0]:
                obj2 = describe(it, r2)
                obj2['reduced_from'] = {'order': obj['warm']['order'], 'position': obj['warm']['position']}
                return obj2
    return obj


def open_known():
    return [f for f in common.known_findings(PROP) if f.get('status') == 'open']


def check(tier, seed):
    run = common.Run(PROP, tier, seed)
    wd = common.Workdir(PROP)
    rng = random.Random(seed)
    try:
        st = common.build(MODEL_TARGETS, ['props/PropC07.vo'])
        if not st['models_ok']:
            with common.Lock():
                common.coq_make(SPEC_TARGETS)
        common.proof_evidence(run, wd, PROP, st, THEOREMS)
        impl_dir = wd.file('impl')
        os.makedirs(impl_dir, exist_ok=True)
        items = gen_items(tier, rng, impl_dir)
        probes = probe_items(tier, rng, impl_dir, len(items))
        warm = warm_items(items, rng, tier, impl_dir, len(items) + len(probes))
        ok, bad_holds, bad_corr = evaluate(run, wd, st, items + probes, warm=warm)
        run.cov['warm_batches'] = {'processes': len(warm), 'cases_per_process': [len(w['cases']) for w in warm][:4],
                                   'orders': sorted({w['order'] for w in warm}),
                                   'family_cases': sum(1 for it in items if 'fam' in it)}
        known = open_known()
        probe_state = {}
        n_viol = 0
        for i in bad_holds:
            it, r = ok[i]
            if it.get('probe'):
                probe_state[it['probe']] = describe(it, r)
                continue
            n_viol += 1
            if n_viol <= 3:
                run.violation(reduce_warm(wd, it, r, describe(it, r)))
        for it, r in ok:
            if it.get('probe'):
                probe_state.setdefault(it['probe'], 'deterministic on this run')
        for name, what in sorted(probe_state.items()):
            if isinstance(what, dict):
                kf = [f for f in known if (f.get('replay') or {}).get('probe') == name]
                if kf:
                    run.known(f'{kf[0]["id"]} {kf[0]["what"]}')
                else:
                    common.log(f'C07: library-path probe {name!r} (outside the document domain) is not deterministic: '
                               f'{json.dumps(what.get("observed"))[:300]}')
        run.cov['library_probes'] = {k: (v if isinstance(v, str) else {'deterministic': False,
                                                                      'differing_runs': v.get('differing_runs'),
                                                                      'stdout_first': v.get('stdout_first', '')[:200],
                                                                      'stdout_other': v.get('stdout_other', '')[:200]})
                                     for k, v in probe_state.items()}
        n_cases = sum(1 for it, _ in ok if not it.get('probe'))
        run.cov['traces_validated_against_impl'] = sum(1 for it, r in ok if r.get('corr')) if st['models_ok'] else 0
        run.cov['corr_disagreements'] = len(bad_corr)
        run.cov['corr_skipped'] = sum(1 for it, r in ok if not it.get('probe') and not r.get('corr'))
        run.cov['process_runs'] = sum(len(r['runs']) for _, r in ok)
        run.cov['runs_per_case'] = len(items[0]['runs']) if items else 0
        run.cov['nodes_snapshotted'] = sum(r.get('nodes', 0) for _, r in ok)
        run.cov['modes'] = {m: sum(1 for it, _ in ok if it.get('mode') == m) for m in MODES}
        if (st['broken'] or bad_corr) and not run.violations:
            # tie broken (a proof / the translator pass / the correspondence no longer checks) and no failing input yet:
            # search with more pairs and more seeds
            rng2 = random.Random(seed * 7919 + 1)
            more = gen_items('thorough', rng2, impl_dir, n=260, k=8, families=30)
            for j, it in enumerate(more):
                it['idx'] = 100000 + j
                if 'fam' in it:
                    it['runs'] = it['runs'][:2]
            ok2, bh2, bc2 = evaluate(run, wd, st, more, tag='search', count=False,
                                     warm=warm_items(more, rng2, 'thorough', impl_dir, 200000))
            if bh2:
                it2, r2 = ok2[bh2[0]]
                run.violation(reduce_warm(wd, it2, r2, describe(it2, r2)))
            elif not run.violations:
                first = ok[bad_corr[0]] if bad_corr else (ok2[bc2[0]] if bc2 else None)
                what = st['broken'] or {'stage': 'correspondence', 'statement': 'corr_C07'}
                run.violation({'kind': 'tie-broken', 'what': what,
                               'first_disagreeing_input': pub(first[0]) if first else None,
                               'corr_disagreements': len(bad_corr) + len(bc2),
                               'note': 'script model without the set-order adversary / exit status = (cost > 0) disagrees with '
                                       'the implementation' if first else 'no failing input found by the extended search'},
                              no_input=True)
        run.cov['rule'] = ('corpus (D7 replay in 3 modes) + fixed pairs + seeded generator biased to: >= 2 removed keys (with -k / dict '
                           'strategy none two thirds of the time), several equally cheap assignments (equal values under different '
                           'keys), nested lists of dicts, dicts of dicts, scriptlib random/mutated pairs; x 9 option sets x modes '
                           '(default, --only-edits, --edit-digest, --color, --condensed); each case: K PYTHONHASHSEEDs in fresh '
                           'processes + perturbed allocation history + PYTHONMALLOC=malloc, three in-process renderings, 10 '
                           'before/after snapshots of the input trees; warm-process stream: batches of ~28 ordinary cases + families of pairs '
                           'differing only in scalar types (1 / 1.0 / true / "1"), exact repetitions and near-duplicates, each batch run '
                           'by one process per order (forward, reversed) through graphtage.__main__.main, every call compared with the '
                           'fresh-process result of its case; non-trivial = documents differ and one is a container; '
                           'distinct by (a, b, options, mode)')
        run.cov['samples'] = [pub(ok[i][0]) for i in range(0, min(n_cases, 100), 33)]
        run.cov['exhaustive'] = False
        run.assumptions = ['SHA-256 digests stand for the stdout bytes and for the snapshots (collision resistance)',
                           'CPython hash randomisation and allocation order are sampled (K seeds, perturbed allocation, '
                           'PYTHONMALLOC=malloc), not quantified over; the theorems quantify over the declared adversaries only',
                           'completeness of the declared adversaries is syntactic (translator/gen_det.py scan + hand audit)',
                           'scipy matching is an oracle input of the script model; equally_good (C07_match_cost_partial) is the '
                           'C15 optimality contract, not proved']
        return run.finish()
    finally:
        wd.cleanup()


def replay(path):
    obj = json.load(open(path))
    it = obj.get('input') or obj.get('replay') or (obj if 'a' in obj else None)
    if not it or ('a' not in it and 'probe' not in it):
        print('replay file names no input:', json.dumps(obj)[:600])
        print(f'VIOLATION property={PROP} replay={path} no-failing-input-found')
        return 1
    wd = common.Workdir(PROP + 'r')
    try:
        with common.Lock():
            common.regen()
            common.coq_project()
            common.coq_make(SPEC_TARGETS)
        it = dict(it, idx=0, dir=wd.file('impl'), corr=False)
        it.setdefault('opts', ['none', 'on'])
        it.setdefault('mode', 'default')
        if not it.get('runs'):
            it['runs'] = run_plan(random.Random(1), 'thorough', 16)
        os.makedirs(it['dir'], exist_ok=True)
        r = common.run_impl('pC07', 'impl_case', [it], nproc=1, timeout_item=1800)[0]
        if 'ok' not in r:
            print(json.dumps(r)[:2000])
            print(f'VIOLATION property={PROP} replay={path}')
            return 1
        if it.get('warm_sequence'):
            seq = it['warm_sequence']
            job = {'warm': True, 'order': 'replay', 'idx': 1, 'dir': it['dir'],
                   'cases': [dict(c, cid=(0 if k == len(seq) - 1 else -1)) for k, c in enumerate(seq)]}
            w = common.run_impl('pC07', 'impl_warm', [job], nproc=1, timeout_item=1800)[0]
            if 'ok' not in w:
                print(json.dumps(w)[:2000])
                print(f'VIOLATION property={PROP} replay={path}')
                return 1
            for x in w['ok']['results']:
                if x['cid'] == 0:
                    r['ok']['runs'].append(dict(x, preceding=seq[:-1]))
        d = describe(it, r['ok'])
        print(json.dumps({k: d[k] for k in ('flags', 'observed', 'snapshots_changed', 'differing_runs', 'warm', 'stdout_first',
                                            'stdout_other') if k in d}, indent=1)[:4000])
        bad, err = common.coq_eval_cases(wd, 'replay', HEADER_SPEC, [case_term(r['ok'])], ['bad_cases holds_C07'])
        if err or bad[0]:
            print(f'VIOLATION property={PROP} replay={path}')
            return 1
        print('replay: holds_C07 is true on this input')
        return 0
    finally:
        wd.cleanup()
