"""Implementation-side worker: reads one JSON item per line, runs harness.<module>.<func>(item) against
/repo's graphtage, prints '@@R <json>' per item. Exits with status 3 straight after reporting an exception
(graphtage's process-global printer state is unusable after one); the parent restarts it."""
import importlib
import io
import json
import os
import signal
import sys
import traceback

sys.setrecursionlimit(10000)


class ItemGuardTimeout(BaseException):
    pass


def main():
    module, func = sys.argv[1], sys.argv[2]
    real_out = sys.stdout
    sys.stdout = io.StringIO()  # anything graphtage prints must not corrupt the protocol
    sys.path.insert(0, os.path.dirname(os.path.dirname(os.path.abspath(__file__))))
    mod = importlib.import_module('harness.' + module)
    f = getattr(mod, func)
    guard = float(os.environ.get('VERIF_ITEM_GUARD', '0') or 0)

    def on_guard(signum, frame):
        # a BaseException: code under test (e.g. logging inside a spinning loop) swallows ordinary Exceptions
        raise ItemGuardTimeout(f'no result within {guard:g} s (wall clock)')
    if guard > 0:
        signal.signal(signal.SIGALRM, on_guard)
    for line in sys.stdin:
        line = line.strip()
        if not line:
            continue
        item = json.loads(line)
        try:
            if guard > 0:
                signal.setitimer(signal.ITIMER_REAL, guard, 1.0)     # re-armed every second until it gets through
            try:
                res = {'ok': f(item)}
            finally:
                if guard > 0:
                    signal.setitimer(signal.ITIMER_REAL, 0)
            bad = False
        except BaseException as e:  # noqa
            tb = traceback.extract_tb(e.__traceback__)
            where = [f'{os.path.basename(fr.filename)}:{fr.lineno}:{fr.name}' for fr in tb[-4:]]
            res = {'exc': type(e).__name__, 'msg': str(e)[:300], 'where': where}
            bad = True
        sys.stdout = io.StringIO()
        real_out.write('@@R ' + json.dumps(res, default=str) + '\n')
        real_out.flush()
        if bad:
            os._exit(3)
    real_out.flush()
    os._exit(0)


main()
