"""C05 - results do not depend on how the edit API is driven or on status settings.

Implementation side (worker): for a pair of documents and a HISTORY (a list of public operations
bounds / tighten_bounds / is_complete / valid / edits / has_non_zero_cost, each addressed to the root edit or to a
sub-edit named by its position in the last listing of its parent) the worker builds fresh trees and a fresh edit,
performs the operations on the REAL edit object, records per call the outcome or the exception class, then drives the
edit to completion with the library's idiom (TreeNode.diff's loop) and serialises the complete nested script
(scriptlib.ser_edit).  The empty history always runs; per pair and quiet setting the C03 views on fresh trees (sum over
get_all_edits, diff().edited_cost()) are recorded as well.  This is done under both settings of DEFAULT_PRINTER.quiet (the objects bound in
graphtage.printer, graphtage.tree and graphtage.levenshtein), next to the canonical drive (no history) of a fresh edit
of the same pair.  A sample of pairs additionally goes through graphtage.__main__.main with --color / --no-color /
--no-status, the root edit being picked up from TreeNode.diff's result.
Verdicts: Gallina `holds_C05` (implementation's observations only) and `corr_C05` (the model machine of ApiModel.v fed
the same history reproduces every outcome) under vm_compute.  No property logic in Python.
"""
import io
import json
import os
import random
import signal
import sys

from harness import common, scriptlib as sl

PROP = 'C05'
THEOREMS = ['C05_history', 'C05_history_model', 'C05_const', 'C05_sum', 'C05_fixed_len', 'C05_edit_distance',
            'C05_invariant', 'C05_multiset', 'C05_collection', 'C05_model', 'C05_final_cost_partial', 'C05_quiet_irrelevant']
MODELS = ['theories/ApiSpec.vo', 'theories/ApiModel.vo']
HEADER = ('From Coq Require Import ZArith List Bool.\nRequire Import GT.PyBase GT.Data GT.ScriptSpec GT.ApiSpec.\n'
          'Import ListNotations.\nOpen Scope Z_scope.\n')
MODEL_HEADER = 'Require Import GT.ApiModel.\n'

OPS = ['bounds', 'tighten', 'complete', 'valid', 'edits', 'nonzero']
OP_TERM = {'bounds': 'OBounds', 'tighten': 'OTighten', 'complete': 'OIsComplete', 'valid': 'OValid',
           'edits': 'OEdits', 'nonzero': 'OHasNonZero'}
ITEM_TIMEOUT = 20

# class of a listed sub-edit -> tag of the summary (ApiSpec.tag)
TAGS = {'Match': 'TMatch', 'Replace': 'TReplace', 'Remove': 'TRemove', 'Insert': 'TInsert',
        'KeyValuePairEdit': 'TKvp', 'FixedLengthSequenceEdit': 'TFixed', 'EditDistance': 'TEditDist',
        'StringEdit': 'TString', 'MultiSetEdit': 'TMultiSet', 'FixedKeyDictNodeEdit': 'TFixedDict'}


# ------------------------------------------------------------------ implementation side (worker)

DIRTY = [False]
MATCHERS = []          # the WeightedBipartiteMatcher objects created since the last reset (one run)
_INSTALLED = [False]


def _install_oracle_probe():
    """Records, on every WeightedBipartiteMatcher, the answers of the code the model treats as an oracle: the number of
    tighten_bounds() calls bounds.make_distinct makes on each edge (it walks an interval tree whose order the model does
    not follow) and the assignment the solver returns.  Observation only: the wrapped methods run unchanged."""
    if _INSTALLED[0]:
        return
    _INSTALLED[0] = True
    from graphtage.matching import WeightedBipartiteMatcher as WBM
    orig_init = WBM.__init__
    orig_med = WBM._make_edges_distinct
    orig_matching = WBM.matching.fget

    def __init__(self, *args, **kwargs):
        orig_init(self, *args, **kwargs)
        MATCHERS.append(self)

    def _make_edges_distinct(self):
        if self._edges_are_distinct:
            return orig_med(self)
        edges = self.edges
        counts = [[0] * len(row) for row in edges]
        patched = []
        for i, row in enumerate(edges):
            for j, e in enumerate(row):
                if e is None:
                    continue

                def counting(_e=e, _i=i, _j=j, _orig=e.tighten_bounds):
                    counts[_i][_j] += 1
                    return _orig()
                try:
                    e.tighten_bounds = counting
                    patched.append(e)
                except AttributeError:
                    pass
        try:
            return orig_med(self)
        finally:
            for e in patched:
                try:
                    del e.tighten_bounds
                except AttributeError:
                    pass
            self._c05_counts = counts

    def matching(self):
        fresh = self._match is None
        r = orig_matching(self)
        if fresh and self.from_nodes and self.to_nodes:
            self._c05_asg = [[self.from_node_indexes[f], self.to_node_indexes[t]] for f, (t, _) in r.items()]
        return r
    WBM.__init__ = __init__
    WBM._make_edges_distinct = _make_edges_distinct
    WBM.matching = property(matching)


def _oracle_table():
    """(from_nodes, to_nodes) -> (make_distinct counts, assignment) for the matchers of the run; None if a key received two
    different answers or a node cannot be serialised"""
    table, seen = [], {}
    try:
        for m in MATCHERS:
            if not hasattr(m, '_c05_counts') and not hasattr(m, '_c05_asg'):
                continue
            key = json.dumps([[sl.ser_tree(x) for x in m.from_nodes], [sl.ser_tree(x) for x in m.to_nodes]])
            ans = [getattr(m, '_c05_counts', []), getattr(m, '_c05_asg', [])]
            if key in seen:
                if seen[key] != ans:
                    return None
                continue
            seen[key] = ans
            table.append([json.loads(key), ans])
    except ValueError:
        return None
    return table


def _set_quiet(q):
    import graphtage
    import graphtage.printer
    import graphtage.tree
    import graphtage.levenshtein
    for m in (graphtage.printer, graphtage.tree, graphtage.levenshtein):
        m.DEFAULT_PRINTER.quiet = bool(q)


def _rng(b):
    def v(x):
        if x == float('inf'):
            return 'inf'
        if x == float('-inf'):
            return '-inf'
        return int(x)
    return ['range', v(b.lower_bound), v(b.upper_bound)]


def _apply(e, op, listings, path):
    import graphtage as g
    if op == 'bounds':
        return _rng(e.bounds())
    if op == 'tighten':
        return ['bool', bool(e.tighten_bounds())]
    if op == 'complete':
        return ['bool', bool(e.is_complete())]
    if op == 'valid':
        return ['bool', bool(e.valid)]
    if op == 'nonzero':
        return ['bool', bool(e.has_non_zero_cost())]
    if op == 'edits':
        if not isinstance(e, g.CompoundEdit):
            return ['na']
        subs = list(e.edits())
        listings[tuple(path)] = subs
        return ['edits', [type(s).__name__ for s in subs]]
    raise ValueError(op)


def _idiom(e):
    # TreeNode.diff / get_all_edit_contexts
    while e.valid and not e.is_complete() and e.tighten_bounds():
        pass


def _trace_of(ex):
    import traceback
    tbk = traceback.extract_tb(ex.__traceback__)
    return {'exc': type(ex).__name__, 'msg': str(ex)[:200],
            'where': [f'{os.path.basename(fr.filename)}:{fr.lineno}:{fr.name}' for fr in tbk[-3:]]}


def _build(item):
    if item.get('ext'):
        # a replay of D36: multisets with repeated elements, built directly ({"__mset__": [...]}, scriptlib.build_ext)
        import graphtage
        sl.ALLOW_DUPLICATES[0] = True
        opts = graphtage.BuildOptions(**sl.options_kwargs(*item['opts']))
        return sl.build_ext(item['a'], opts), sl.build_ext(item['b'], opts), opts
    return sl.build_pair(item)


def _run_history(item, quiet, hist):
    """fresh trees, fresh edit, the history, then completion and the script.  Calls that address a sub-edit that was
    not listed are not performed; `eff` is the history that was."""
    _set_quiet(quiet)
    _install_oracle_probe()
    del MATCHERS[:]
    a, b, _ = _build(item)
    e = a.edits(b)
    listings = {}
    outs = []
    eff = []
    raised = None
    for path, op in hist:
        path = list(path)
        if path:
            subs = listings.get(tuple(path[:-1]))
            if subs is None or path[-1] >= len(subs):
                outs.append(['nosub'])
                eff.append([path, op])
                continue
            tgt = subs[path[-1]]
        else:
            tgt = e
        eff.append([path, op])
        try:
            outs.append(_apply(tgt, op, listings, path))
        except Exception as ex:  # noqa
            raised = _trace_of(ex)
            outs.append(['err', type(ex).__name__])
            break
    final = None
    if raised is None:
        try:
            _idiom(e)
            final = sl.ser_edit(e)
        except Exception as ex:  # noqa
            raised = _trace_of(ex)
            raised['stage'] = 'completion'
    orc = None if item.get('ext') else _oracle_table()
    del MATCHERS[:]
    return {'quiet': bool(quiet), 'outs': outs, 'eff': eff, 'final': final, 'raised': raised, 'root': type(e).__name__,
            'orc': orc}


def _views(item, quiet):
    """the other views of the total (C03) on fresh trees under one quiet setting: sum over get_all_edits, diff().edited_cost()"""
    _set_quiet(quiet)
    try:
        a2, b2, _ = _build(item)
        flat = 0
        for e in a2.get_all_edits(b2):
            sl._tighten(e)
            flat += sl.cost_of(e)
        a3, b3, _ = _build(item)
        edited = int(a3.diff(b3).edited_cost())
        return {'quiet': bool(quiet), 'flat': int(flat), 'edited': edited, 'raised': None}
    except Exception as ex:  # noqa
        return {'quiet': bool(quiet), 'flat': -1, 'edited': -1, 'raised': _trace_of(ex)}


def _guarded(f, limit=ITEM_TIMEOUT):
    def on_alarm(signum, frame):
        # a BaseException: logging (where a spinning repeat_until_tightened spends its time) swallows Exceptions
        raise sl.ItemTimeout('the implementation did not finish within %d s' % limit)
    signal.signal(signal.SIGALRM, on_alarm)
    signal.setitimer(signal.ITIMER_REAL, limit, 1.0)
    try:
        return f()
    finally:
        signal.setitimer(signal.ITIMER_REAL, 0)


def impl_history(item):
    """item: {'a','b','opts','hists': [[[path, op], ...], ...], optional 'quiets': [true,false]}
    -> canonical drive + every history under every quiet setting.  A history is first executed under the first quiet
    setting; calls naming a sub-edit that was never listed are dropped from it (nothing is called for them), the
    remaining history is what is reported and what the other settings execute."""
    if DIRTY[0]:
        os._exit(3)
    se = sys.stderr
    sys.stderr = io.StringIO()          # tqdm (quiet False) writes its bars here
    scripts = []

    def intern(scr):
        if scr is None:
            return None
        key = json.dumps(scr)
        for k, s0 in enumerate(scripts):
            if s0[0] == key:
                return k
        scripts.append((key, scr))
        return len(scripts) - 1
    orcs = []

    def intern_orc(o):
        if o is None:
            return None
        key = json.dumps(o)
        for k, o0 in enumerate(orcs):
            if o0[0] == key:
                return k
        orcs.append((key, o))
        return len(orcs) - 1
    ta = tb = None
    canon = None
    out_items = []
    views = []
    timeout = False
    bad = False
    try:
        a, b, _ = _build(item)
        try:
            ta, tb = (None, None) if item.get('ext') else (sl.ser_tree(a), sl.ser_tree(b))
        except ValueError:
            ta = tb = None
        canon = _guarded(lambda: _run_history(item, True, []), item.get('timeout', ITEM_TIMEOUT))
        canon['final'] = intern(canon['final'])
        canon['orc'] = intern_orc(canon['orc'])
        bad = canon['raised'] is not None
        quiets = item.get('quiets', [True, False])
        if not bad and not item.get('ext'):
            for q in quiets:
                w = _guarded(lambda: _views(item, q), item.get('timeout', ITEM_TIMEOUT))
                views.append(w)
                if w['raised'] is not None:
                    bad = True
                    break
        hists = item['hists'] if [] in item['hists'] else [[]] + list(item['hists'])     # the empty history always runs
        for hist in hists:
            if bad:
                break
            runs = []
            eff = None
            for q in quiets:
                r = _guarded(lambda: _run_history(item, q, hist if eff is None else eff))
                if eff is None:
                    keep = [k for k, o in enumerate(r['outs']) if o != ['nosub']]
                    eff = [r['eff'][k] for k in keep]
                    r['outs'] = [r['outs'][k] for k in keep]
                r['final'] = intern(r['final'])
                r['orc'] = intern_orc(r['orc'])
                del r['eff']
                runs.append(r)
                if r['raised'] is not None:
                    bad = True
                    break
            out_items.append({'hist': eff, 'runs': runs})
    except sl.ItemTimeout:
        timeout = True
        bad = True
    finally:
        sys.stderr = se
        try:
            _set_quiet(True)
        except Exception:  # noqa
            pass
    if bad:
        DIRTY[0] = True
    return {'a': ta, 'b': tb, 'canon': canon, 'scripts': [s0[1] for s0 in scripts], 'orcs': [o0[1] for o0 in orcs],
            'items': out_items, 'views': views,
            'timeout': timeout, 'not_run': max(0, len(item['hists']) - len(out_items))}


# A pristine interpreter that has imported graphtage and the harness but has never built a tree or driven an edit; for
# every request it forks, and the CHILD runs one history on a fresh edit and exits.  The child's process-global state
# (caches, memos, printers, module attributes) is that of an interpreter straight after import: whatever a drive leaves
# behind dies with the child.  (Starting a new interpreter per run gives the same state and costs 1.3 s of imports each.)
ZYGOTE_CODE = ('import sys, os, json\n'
               'sys.setrecursionlimit(10000)\n'
               'from harness import pC05, scriptlib as sl\n'
               'import graphtage, graphtage.json, graphtage.printer, graphtage.tree, graphtage.levenshtein\n'
               'import graphtage.multiset, graphtage.matching, graphtage.bounds, graphtage.edits, graphtage.sequences\n'
               'out = sys.stdout\n'
               'out.write("@@READY\\n"); out.flush()\n'
               'for line in sys.stdin:\n'
               '    line = line.strip()\n'
               '    if not line:\n'
               '        continue\n'
               '    req = json.loads(line)\n'
               '    pid = os.fork()\n'
               '    if pid == 0:\n'
               '        try:\n'
               '            sys.stderr = open(os.devnull, "w")\n'
               '            try:\n'
               '                r = pC05._guarded(lambda: pC05._run_history(req["item"], req["quiet"], req["hist"]), req["limit"])\n'
               '            except sl.ItemTimeout:\n'
               '                r = {"timeout": True}\n'
               '            out.write("@@F " + json.dumps(r) + "\\n"); out.flush()\n'
               '        finally:\n'
               '            os._exit(0)\n'
               '    os.waitpid(pid, 0)\n'
               '    out.write("@@E\\n"); out.flush()\n')
ZYGOTE = [None]


def _zygote():
    import subprocess
    z = ZYGOTE[0]
    if z is not None and z.poll() is None:
        return z
    z = subprocess.Popen([sys.executable, '-u', '-c', ZYGOTE_CODE], stdin=subprocess.PIPE, stdout=subprocess.PIPE,
                         stderr=subprocess.DEVNULL, text=True, bufsize=1, cwd=common.VERIF)
    line = z.stdout.readline()
    if not line.startswith('@@READY'):
        z.kill()
        raise RuntimeError('the pristine interpreter did not start')
    ZYGOTE[0] = z
    return z


def _fresh_run(item, quiet, hist):
    """one history on a fresh edit in a fresh process (a fork of the pristine interpreter; same graphtage tree and
    PYTHONHASHSEED as this worker): nothing an earlier drive left in process-global state can be seen"""
    limit = item.get('timeout', ITEM_TIMEOUT)
    res = None
    try:
        z = _zygote()
        z.stdin.write(json.dumps({'item': item, 'quiet': quiet, 'hist': hist, 'limit': limit}) + '\n')
        z.stdin.flush()
        while True:
            l = z.stdout.readline()
            if not l:
                break
            if l.startswith('@@F '):
                res = json.loads(l[4:])
            elif l.startswith('@@E'):
                break
    except (OSError, RuntimeError, ValueError):
        res = None
    if res is not None:
        return res
    if ZYGOTE[0] is not None:
        try:
            ZYGOTE[0].kill()
        except OSError:
            pass
        ZYGOTE[0] = None
    return {'quiet': bool(quiet), 'outs': [], 'eff': [list(c) for c in hist], 'final': None, 'root': None, 'orc': None,
            'raised': {'exc': 'FreshProcessDied', 'msg': 'the forked child reported nothing', 'where': []}}


def impl_history_fresh(item):
    """item as for impl_history.  The canonical drive and every history (under every quiet setting) run in fresh
    interpreters, one per run; then the same histories run once more one after another in THIS (long-lived) worker
    process, which has driven other pairs before.  All runs of a history - fresh and same-process - are reported as runs of
    that history next to the fresh canonical drive: holds_C05 asks all of them for the canonical cost and script, so a result
    that depends on what the process did before is a failure of the property like any other history dependence."""
    if DIRTY[0]:
        os._exit(3)
    scripts, orcs = [], []

    def intern_in(tbl, v):
        if v is None:
            return None
        key = json.dumps(v)
        for k, v0 in enumerate(tbl):
            if v0[0] == key:
                return k
        tbl.append((key, v))
        return len(tbl) - 1
    quiets = item.get('quiets', [True, False])
    hists = item['hists'] if [] in item['hists'] else [[]] + list(item['hists'])
    timeout = False
    bad = False
    canon = _fresh_run(item, True, [])
    out_items = []
    if canon.get('timeout'):
        timeout, canon = True, None
    else:
        canon.pop('eff', None)
        canon['final'] = intern_in(scripts, canon['final'])
        canon['orc'] = intern_in(orcs, canon['orc'])
        canon['proc'] = 'fresh'
        bad = canon['raised'] is not None
    effs = []
    for hist in hists:
        if bad or timeout:
            break
        runs = []
        eff = None
        for q in quiets:
            r = _fresh_run(item, q, hist if eff is None else eff)
            if r.get('timeout'):
                timeout = True
                break
            if eff is None:
                keep = [k for k, o in enumerate(r['outs']) if o != ['nosub']]
                eff = [r['eff'][k] for k in keep]
                r['outs'] = [r['outs'][k] for k in keep]
            r.pop('eff', None)
            r['final'] = intern_in(scripts, r['final'])
            r['orc'] = intern_in(orcs, r['orc'])
            r['proc'] = 'fresh'
            runs.append(r)
            if r['raised'] is not None:
                bad = True
                break
        if eff is not None:
            effs.append(eff)
            out_items.append({'hist': eff, 'runs': runs})
    views = []
    ta = tb = None
    if not bad and not timeout:
        # the same histories, one after another, in this process
        same = impl_history(dict(item, hists=effs))
        ta, tb = same['a'], same['b']
        views = same['views']
        timeout = timeout or same['timeout']

        def conv(r):
            r = dict(r)
            r['final'] = intern_in(scripts, same['scripts'][r['final']]) if r['final'] is not None else None
            r['orc'] = intern_in(orcs, same['orcs'][r['orc']]) if r.get('orc') is not None else None
            r['proc'] = 'same-process'
            return r
        by_hist = {json.dumps(hi['hist']): hi['runs'] for hi in same['items']}
        for k, oi in enumerate(out_items):
            oi['runs'] += [conv(r) for r in by_hist.get(json.dumps(oi['hist']), [])]
            if k == 0 and same['canon'] is not None and oi['hist'] == []:
                c = conv(same['canon'])
                c['outs'] = []
                oi['runs'].append(c)
    else:
        try:
            a, b, _ = _build(item)
            ta, tb = sl.ser_tree(a), sl.ser_tree(b)
        except Exception:  # noqa
            ta = tb = None
    return {'a': ta, 'b': tb, 'canon': canon, 'scripts': [s0[1] for s0 in scripts], 'orcs': [o0[1] for o0 in orcs],
            'items': out_items, 'views': views, 'timeout': timeout, 'not_run': max(0, len(hists) - len(out_items)), 'fresh': True}


class _NoClose(io.StringIO):
    def close(self):
        pass

    def isatty(self):
        return False


def impl_cli(item):
    """item: {'a','b','opts','dir', 'argvs': [[flags...], ...]}: main(flags + files) in-process; the root edit is taken
    from TreeNode.diff's result; compared (in Coq) with the library's canonical drive"""
    if DIRTY[0]:
        os._exit(3)
    import graphtage
    import graphtage.__main__ as gm
    import graphtage.printer as gp
    d = item['dir']
    os.makedirs(d, exist_ok=True)
    pa, pb = os.path.join(d, 'a.json'), os.path.join(d, 'b.json')
    with open(pa, 'w') as f:
        json.dump(item['a'], f)
    with open(pb, 'w') as f:
        json.dump(item['b'], f)
    ds, lm = item['opts']
    # the command line has no spelling for the 'match' strategy; only auto / none are sampled (see gen_items)
    flags = [] if ds == 'auto' else ['--no-key-edits']
    flags += {'on': [], 'off': ['--no-list-edits'], 'same': ['--no-list-edits-when-same-length']}[lm]
    canon = _run_history(item, True, [])
    ta = tb = None
    try:
        a, b, _ = sl.build_pair(item)
        ta, tb = sl.ser_tree(a), sl.ser_tree(b)
    except ValueError:
        pass
    runs = []
    orig_diff = graphtage.TreeNode.diff
    orig_default = gp.DEFAULT_PRINTER
    for extra in item['argvs']:
        got = []

        def diff(self, node, _got=got):
            r = orig_diff(self, node)
            _got.append(r.edit)
            return r
        graphtage.TreeNode.diff = diff
        out, err = _NoClose(), _NoClose()
        so, se = sys.stdout, sys.stderr
        sys.stdout, sys.stderr = out, err
        raised = None
        status = None
        _set_quiet('--no-status' in extra)      # the module-level printers of tree / levenshtein never see --no-status
        del MATCHERS[:]
        try:
            try:
                status = gm.main(['graphtage'] + flags + list(extra) + [pa, pb])
            except SystemExit as ex:
                status = f'SystemExit({ex.code})'
            except Exception as ex:  # noqa
                raised = {'exc': type(ex).__name__, 'msg': str(ex)[:200]}
        finally:
            sys.stdout, sys.stderr = so, se
            graphtage.TreeNode.diff = orig_diff
            gp.DEFAULT_PRINTER = orig_default
        final = None
        if raised is None and got:
            try:
                final = sl.ser_edit(got[0])
            except Exception as ex:  # noqa
                raised = {'exc': type(ex).__name__, 'msg': str(ex)[:200], 'stage': 'serialise'}
        orc_run = _oracle_table()
        del MATCHERS[:]
        runs.append({'quiet': '--no-status' in extra, 'argv': list(extra), 'outs': [], 'final': final, 'raised': raised, 'orc': orc_run,
                     'status': status, 'ansi': '\x1b[' in out.getvalue(), 'root': type(got[0]).__name__ if got else None})
        if raised is not None:
            DIRTY[0] = True
            break
    _set_quiet(True)
    scripts = []

    def intern(scr):
        if scr is None:
            return None
        if scr not in scripts:
            scripts.append(scr)
        return scripts.index(scr)
    orcs = []

    def intern_orc(o):
        if o is None:
            return None
        if o not in orcs:
            orcs.append(o)
        return orcs.index(o)
    canon['final'] = intern(canon['final'])
    canon['orc'] = intern_orc(canon.get('orc'))
    canon.pop('eff', None)
    for r in runs:
        r['final'] = intern(r['final'])
        r['orc'] = intern_orc(r.get('orc'))
    views = [] if DIRTY[0] else [_views(item, True), _views(item, False)]
    _set_quiet(True)
    return {'a': ta, 'b': tb, 'canon': canon, 'scripts': scripts, 'orcs': orcs, 'items': [{'hist': [], 'runs': runs}], 'views': views,
            'timeout': False, 'not_run': 0, 'cli': True}


# ------------------------------------------------------------------ Gallina terms

ERR_CLS = {'TypeError': 1, 'AssertionError': 2, 'RecursionError': 3}
ROOT_CALL = {'bounds': 'cB', 'tighten': 'cT', 'complete': 'cC', 'valid': 'cV', 'edits': 'cE', 'nonzero': 'cH'}
DUMMY = ['leaf', 'KNull', 'None', 0, 0]


def call_term(c):
    path, op = c
    if not path:
        return ROOT_CALL[op]
    return f'({sl.nats(path)}, {OP_TERM[op]})'


def rv(v):
    if v == 'inf':
        return 'PosInf'
    if v == '-inf':
        return 'NegInf'
    return f'(Fin {sl.z(v)})'


def out_term(o):
    k = o[0]
    if k == 'bool':
        return 'oT' if o[1] else 'oF'
    if k == 'range':
        if isinstance(o[1], int) and isinstance(o[2], int):
            return f'oR {sl.z(o[1])} {sl.z(o[2])}'
        return f'RRange ({rv(o[1])}, {rv(o[2])})'
    if k == 'edits':
        return 'REdits [' + ';'.join(TAGS.get(n, 'TOther') for n in o[1]) + ']'
    if k == 'na':
        return 'RNA'
    if k == 'nosub':
        return 'RNoSub'
    if k == 'err':
        return f'RErr {ERR_CLS.get(o[1], 0)}'
    raise ValueError(k)


def onat(i):
    return 'None' if i is None else f'(Some {i}%nat)'


def run_term(r):
    return f'Build_prun {sl.b(r["quiet"])} {onat(r.get("orc"))} [{";".join(out_term(o) for o in r["outs"])}] {onat(r["final"])}'


def nat_list(l):
    return '[' + ';'.join(f'{int(x)}%nat' for x in l) + ']'


def orc_term(table):
    ents = []
    for (fs, ts), (cnt, asg) in table:
        k = f'([{";".join(sl.tree_term(x) for x in fs)}], [{";".join(sl.tree_term(x) for x in ts)}])'
        a = f'([{";".join(nat_list(row) for row in cnt)}], [{";".join(f"({int(i)}%nat, {int(j)}%nat)" for i, j in asg)}])'
        ents.append(f'({k}, {a})')
    return '[' + ';'.join(ents) + ']'


def pcase_term(o):
    a = o['a'] or DUMMY
    b = o['b'] or DUMMY
    items = ';\n'.join(f'([{";".join(call_term(c) for c in it["hist"])}], [{";".join(run_term(r) for r in it["runs"])}])'
                       for it in o['items'])
    canon = o['canon']['final'] if o['canon'] else None
    canon_orc = o['canon'].get('orc') if o['canon'] else None
    orcs = ';\n'.join(orc_term(t) for t in o.get('orcs', []))
    views = ';'.join(f'Build_view {sl.b(w["quiet"])} {sl.z(w["flat"])} {sl.z(w["edited"])}' for w in o.get('views', []))
    return (f'(Build_pcase {sl.tree_term(a)} {sl.tree_term(b)} [{";".join(sl.edit_term(s) for s in o["scripts"])}] [{orcs}] '
            f'{onat(canon)} {onat(canon_orc)} {sl.b(o["timeout"])} [{views}] [{items}])')


# ------------------------------------------------------------------ generators

# ~40 small pairs for the exhaustive short histories: (a, b, options)
SMALL_PAIRS = [
    ([1, 2, 3], [9], ('auto', 'on')), ([9], [1, 2, 3], ('auto', 'on')), ([1, 2, 3], [9], ('auto', 'off')),
    ([1, 2], [2, 1], ('auto', 'on')), ([1, 2], [1, 3], ('auto', 'on')), ([1, 2], [1, 3], ('auto', 'same')),
    ([1, 2, 3], [1, 2, 3], ('auto', 'on')), ([], [None], ('auto', 'on')), (['', 1], [1], ('auto', 'on')),
    ([1, 2, 3, 4], [1, 3, 2, 4], ('auto', 'on')), ([1, 2, 3, 4], [1, 9, 4], ('auto', 'on')),
    ('abc', 'abd', ('auto', 'on')), ('hello', 'hallo', ('auto', 'on')), ('abc', '', ('auto', 'on')), ('', 'abc', ('auto', 'on')),
    ('ab', 'ba', ('auto', 'on')), ('a', 'b', ('auto', 'on')), (5, '', ('auto', 'on')), (1, '1', ('auto', 'on')), (True, 1, ('auto', 'on')),
    ([[1, 2], [3, 4]], [[1, 2], [3, 5]], ('auto', 'on')), ([[1, 2], [3, 4]], [[3, 5], [1, 2]], ('auto', 'on')),
    ([[1], [2, 3]], [[2, 4], [1]], ('auto', 'on')), ([[1, 2], 3], [3, [1, 2]], ('auto', 'on')),
    ([[1, 2], [3, [4, 5]]], [[1, 2], [3, [4, 6]], 7], ('auto', 'on')), ([['ab', 'cd']], [['ab', 'ce'], 'x'], ('auto', 'on')),
    ([[1, 2], [3, 4]], [[1, 2], [3, 5]], ('auto', 'off')), ([[1, 2], [3, 4, 5]], [[1], [3, 5]], ('auto', 'off')),
    ([[[1, 2], [3]], [4]], [[[1], [3, 2]], [5], 6], ('auto', 'on')), (['abc', [1, 2]], [['1', 2], 'abd'], ('auto', 'on')),
    ([1, [2, [3, [4]]]], [1, [2, [3, [5]]]], ('auto', 'on')), ([[1, 2, 3], [4, 5, 6]], [[4, 5, 7], [1, 2, 3]], ('auto', 'same')),
    ({'a': 1}, {'a': 2}, ('none', 'on')), ({'a': [1, 2], 'b': 1}, {'a': [2, 1], 'b': 1}, ('none', 'on')),
    ({'a': 1, 'b': 2}, {'a': 1, 'c': 2}, ('auto', 'on')), ({'a': [1, 2]}, {'a': [1, 3], 'd': 3}, ('auto', 'on')),
    ({'a': 1, 'b': 2, 'c': 3}, {'d': 4}, ('match', 'on')), ([{'a': 1}, {'b': 2}], [{'b': 2}, {'a': 1}], ('auto', 'on')),
    ([{'a': [1, 2]}, 3], [3, {'a': [2, 1]}], ('none', 'on')), ({'k': [1, {'x': 'y'}]}, {'k': [1, {'x': 'z'}, 2]}, ('auto', 'on')),
]


def all_histories(n):
    out = [[]]
    layer = [[]]
    for _ in range(n):
        layer = [h + [[[], op]] for h in layer for op in OPS]
        out += layer
    return out


def rand_history(rng, n):
    """calls on the root and on sub-edits of parents listed earlier in the history (positions drawn small)"""
    h = []
    listed = [[]]           # paths whose edits() has been asked (the root's sub-edits need a listing, too)
    have = []
    for _ in range(n):
        op = rng.choice(OPS)
        if have and rng.random() < 0.45:
            parent = rng.choice(have)
            path = parent + [rng.randint(0, 3)]
        else:
            path = []
        h.append([path, op])
        if op == 'edits' and path not in have:
            have.append(path)
    return h


def corpus_items():
    items = []
    for name in ('C05.jsonl',):
        path = os.path.join(common.VERIF, 'corpus', name)
        if os.path.exists(path):
            items += [json.loads(l) for l in open(path) if l.strip()]
    return items


def replay_pairs():
    """documents on which D6 / D21-D25 used to bite (known_findings.json replays, corpus/scripts.jsonl)"""
    out = []
    seen = set()
    kf = os.path.join(common.VERIF, 'known_findings.json')
    if os.path.exists(kf):
        for f in json.load(open(kf))['findings']:
            r = f.get('replay')
            if f.get('id') in ('D6', 'D21', 'D22', 'D23', 'D24', 'D25') and isinstance(r, dict) and 'a' in r and 'b' in r \
                    and 'opts' in r and not r.get('ext'):
                key = json.dumps([r['a'], r['b'], r['opts']], sort_keys=True)
                if key not in seen:
                    seen.add(key)
                    out.append((r['a'], r['b'], list(r['opts'])))
    sc = os.path.join(common.VERIF, 'corpus', 'scripts.jsonl')
    if os.path.exists(sc):
        for l in open(sc):
            if l.strip():
                r = json.loads(l)
                if r.get('ext'):
                    continue
                key = json.dumps([r['a'], r['b'], r['opts']], sort_keys=True)
                if key not in seen:
                    seen.add(key)
                    out.append((r['a'], r['b'], list(r['opts'])))
    return out


# mappings whose keys are RENAMED between the documents (so that the pair goes through the matcher and its edit is
# "complete" long before its bounds are a single value), long similar keys, changed multi-character values
RENAMED_KEYS = [('configuration_name', 'configuration-name'), ('aaaaaaaX', 'aaaaaaaY'), ('description_text', 'description-text'),
                ('identifier_long_a', 'identifier_long_b'), ('server.hostname', 'server_hostname'), ('kez', 'key')]
CHANGED_VALUES = [('abcde', 'abXde'), ('hello world', 'hello wörld'), ('value-123', 'value-124'), ('abcdefgh', 'abcXefg'),
                  (12345, 12354), ('aXb', 'ab'), ('x', 'xyz'), ([1, 2, 3], [1, 3]), (None, 'None')]
SCALARS = [5, 'abc', None, True, 1.5, '', 'configuration']


def gen_renamed_mapping(rng, depth=0):
    a, b = {}, {}
    for ka, kb in rng.sample(RENAMED_KEYS, rng.randint(1, 2)):
        va, vb = rng.choice(CHANGED_VALUES)
        if depth < 1 and rng.random() < 0.25:
            va, vb = gen_renamed_mapping(rng, depth + 1)
        if rng.random() < 0.5:
            ka, kb = kb, ka
        a[ka], b[kb] = va, vb
    if rng.random() < 0.4:
        k = rng.choice(sl.KEYS)
        if k not in a and k not in b:
            a[k] = b[k] = rng.choice(SCALARS)
    return a, b


def gen_renamed_pair(rng):
    """lists (lengths differ, or equal length > 1) of such mappings plus scalar siblings"""
    xs, ys = [], []
    for _ in range(rng.randint(1, 3)):
        ma, mb = gen_renamed_mapping(rng)
        xs.append(ma)
        ys.append(mb)
    sib = rng.choice(SCALARS)
    r = rng.random()
    if r < 0.4:
        xs.insert(rng.randint(0, len(xs)), sib)                      # lengths differ
    elif r < 0.7:
        ys.insert(rng.randint(0, len(ys)), sib)
    else:
        p = rng.randint(0, len(xs))
        xs.insert(p, sib)
        ys.insert(rng.randint(0, len(ys)), rng.choice(SCALARS))      # equal length > 1
    if rng.random() < 0.3:
        ys.reverse()
    if rng.random() < 0.25:
        return {'k': xs, 'z': 1}, {'k': ys, 'z': 1}
    if rng.random() < 0.2:
        return [xs, 7], [ys]
    return xs, ys


# mappings with several keys that are not matched by name and string values drawn from a SMALL pool, so that the same
# (from-string, to-string) pair occurs in a key-matched pair and in candidate edges of the matcher (or in several edges)
STRING_POOL = ['abcdefgh', 'qbcdefgh', 'abcdefgz', 'hgfedcba', 'abcdxfgh', 'abzdefgh', 'abcdefghijkl', 'abcd']
FROM_ONLY_KEYS = ['alpha', 'alphb', 'beta', 'gamma', 'delta']
TO_ONLY_KEYS = ['alpho', 'alphc', 'betz', 'bety', 'gamme', 'deltz']
SHARED_KEYS = ['s1', 's2', 's3']
T = [[], 'tighten']
FRESH_HISTORIES = [
    [],                                                                     # the canonical order (refine until complete, then list)
    [[[], 'edits']],                                                        # list first
    [T],                                                                    # refine first
    [T] * 40,                                                               # refine to the end
    [[[], 'edits']] + [T] * 40,                                             # list, then refine to the end
    [[[], 'bounds'], [[], 'complete'], [[], 'valid'], [[], 'edits'], [[], 'bounds']] + [T] * 10,
    [[[], 'nonzero'], [[], 'edits']] + [T] * 5,
    [T, T, [[], 'bounds'], [[], 'edits']] + [T] * 5,
]


def gen_shared_strings_pair(rng):
    pool = rng.sample(STRING_POOL, rng.randint(2, 4))
    a, b = {}, {}
    keys_a = rng.sample(FROM_ONLY_KEYS, rng.randint(2, 3))
    keys_b = rng.sample(TO_ONLY_KEYS, rng.randint(2, 3))
    shared = rng.sample(SHARED_KEYS, rng.randint(1, 2))
    for k in keys_a + shared:
        a[k] = rng.choice(pool)
    for k in keys_b + shared:
        b[k] = rng.choice(pool)
    ia, ib = list(a.items()), list(b.items())
    rng.shuffle(ia)
    rng.shuffle(ib)
    return dict(ia), dict(ib)


def gen_fresh_items(tier, rng):
    q = tier == 'quick'
    items = [dict(it, fresh=True, kind='corpus-fresh',
                  hists=list(FRESH_HISTORIES) + [h for h in it.get('hists', []) if h not in FRESH_HISTORIES])
             for it in corpus_items() if it.get('fresh')]
    for k in range(60 if q else 600):
        a, b = gen_shared_strings_pair(rng)
        if rng.random() < 0.2:
            a, b = [a, 'abcdefgh'], [b]                                   # the mappings as cells of a list edit
        hists = list(FRESH_HISTORIES) + [rand_history(rng, rng.randint(1, 30)) for _ in range(1 if q else 4)]
        items.append({'a': a, 'b': b, 'opts': [['auto', 'match'][k % 4 == 3], 'on'], 'hists': hists,
                      'quiets': [True, False] if k % 4 == 0 else [True], 'fresh': True, 'kind': 'shared-strings'})
    return items


def gen_items(tier, rng):
    from harness import pC04
    q = tier == 'quick'
    items = [it for it in corpus_items() if not it.get('fresh')]
    # (b) exhaustive short histories of root calls on the small pairs
    n_exh = 4 if q else 5
    exh = all_histories(n_exh)
    for a, b, o in SMALL_PAIRS:
        for k in range(0, len(exh), 800):
            items.append({'a': a, 'b': b, 'opts': list(o), 'hists': exh[k:k + 800], 'kind': 'exhaustive'})
    # (a') replays of repaired defects, fixed pairs: random histories with sub-edit calls
    n_hist = 6 if q else 20
    for a, b, o in replay_pairs():
        items.append({'a': a, 'b': b, 'opts': o, 'hists': [[]] + [rand_history(rng, rng.randint(1, 30)) for _ in range(n_hist)],
                      'kind': 'replayed-defect'})
    for a, b in sl.FIXED_PAIRS:
        for o in (('auto', 'on'), ('none', 'off'), ('match', 'same')):
            items.append({'a': a, 'b': b, 'opts': list(o),
                          'hists': [[]] + [rand_history(rng, rng.randint(1, 30)) for _ in range(3)], 'kind': 'fixed'})
    # (a'') mappings with renamed keys inside lists, under the dictionary strategies that use the matcher
    for k in range(150 if q else 1500):
        a, b = gen_renamed_pair(rng)
        items.append({'a': a, 'b': b, 'opts': [['auto', 'match'][k % 2], ['on', 'on', 'same', 'off'][k % 4]],
                      'hists': [[]] + [rand_history(rng, rng.randint(1, 30)) for _ in range(3 if q else 8)], 'kind': 'renamed-keys'})
    # (c) generated pairs, the 9 option sets, random histories up to length 30
    n_list, n_doc = (260, 200) if q else (2500, 2000)
    for k in range(n_list):
        r = rng.random()
        if r < 0.35:
            a, b = pC04.deep_pair(rng, rng.randint(1, 3 if q else 5))
        elif r < 0.8:
            a = pC04.gen_listy(rng, 3, 4)
            b = pC04.near_tie(rng, a)
            if rng.random() < 0.3:
                b = pC04.near_tie(rng, b)
        elif r < 0.9:
            a = pC04.gen_listy(rng, 3, 4)
            b = json.loads(json.dumps(a))
        else:
            a, b = pC04.gen_listy(rng, 2, 4), pC04.gen_listy(rng, 2, 4)
        if rng.random() < 0.25 and isinstance(a, list) and isinstance(b, list):       # shared prefix / suffix
            pre = [pC04.gen_listy(rng, 1, 3) for _ in range(rng.randint(0, 2))]
            suf = [pC04.gen_listy(rng, 1, 3) for _ in range(rng.randint(0, 2))]
            a, b = pre + a + suf, json.loads(json.dumps(pre)) + b + json.loads(json.dumps(suf))
        items.append({'a': a, 'b': b, 'opts': [rng.choice(['auto', 'none']), ['on', 'off', 'same'][k % 3]],
                      'hists': [rand_history(rng, rng.randint(1, 30)) for _ in range(n_hist)], 'kind': 'lists'})
    for k in range(n_doc):
        depth, width = (3, 4) if q or k % 3 else (4, 5)
        a, b = sl.gen_pair(rng, depth, width)
        items.append({'a': a, 'b': b, 'opts': list(sl.OPTION_SETS[k % 9]),
                      'hists': [rand_history(rng, rng.randint(1, 30)) for _ in range(n_hist)], 'kind': 'documents'})
    return items


def gen_cli_items(tier, rng, wd):
    n = 30 if tier == 'quick' else 200
    items = []
    argvs = [['--no-color', '--no-status'], ['--color', '--no-status'], ['--no-color'], ['--color']]
    for k in range(n):
        a, b = sl.gen_pair(rng, 3, 4) if k % 2 else (SMALL_PAIRS[k % len(SMALL_PAIRS)][0], SMALL_PAIRS[k % len(SMALL_PAIRS)][1])
        o = [('auto', 'on'), ('none', 'on'), ('auto', 'off'), ('none', 'same')][k % 4]
        items.append({'a': a, 'b': b, 'opts': list(o), 'dir': wd.file(f'cli{k}'), 'argvs': argvs, 'kind': 'cli'})
    return items


# ------------------------------------------------------------------ check

def open_findings():
    fs = [f for f in common.known_findings(PROP) if f.get('status') == 'open']
    p = os.path.join(common.VERIF, 'corpus', 'C05.known.json')
    if os.path.exists(p):
        have = {f['id'] for f in common.known_findings(PROP)}
        fs += [f for f in json.load(open(p))['findings']
               if f['property'] == PROP and f.get('status') == 'open' and f['id'] not in have]
    return fs


def eval_sized(wd, tag, header, terms, evals, limit=900000):
    """coq_eval_cases over chunks of bounded text size; one case term per pair (it holds many histories)"""
    results = [[] for _ in evals]
    groups = []
    start = 0
    while start < len(terms):
        end, size = start, 0
        while end < len(terms) and (end == start or size + len(terms[end]) <= limit) and end - start < 40:
            size += len(terms[end])
            end += 1
        groups.append((start, end))
        start = end
    import threading
    lock = threading.Lock()
    errs = []

    def one(k, s0, e0):
        bad, err = common.coq_eval_cases(wd, f'{tag}_{k}', header, terms[s0:e0], evals, chunk=40)
        with lock:
            if err:
                errs.append(err)
                return
            for j, bl in enumerate(bad):
                results[j] += [s0 + i for i in bl]
    sem = threading.Semaphore(common.NPROC)

    def guarded(k, s0, e0):
        with sem:
            one(k, s0, e0)
    ts = [threading.Thread(target=guarded, args=(k, s0, e0)) for k, (s0, e0) in enumerate(groups)]
    for t in ts:
        t.start()
    for t in ts:
        t.join()
    if errs:
        return None, errs[0]
    return [sorted(r) for r in results], None


def evaluate(run, wd, st, items, tag='cases', func='impl_history'):
    res = common.run_impl('pC05', func, items, timeout_item=240)
    ok = []
    stats = {'histories': 0, 'calls': 0, 'runs': 0, 'roots': {}, 'outcomes': {}, 'raised': 0, 'timeouts': 0, 'not_run': 0,
             'sub_edit_calls': 0, 'kinds': {}}
    for it, r in zip(items, res):
        if 'ok' not in r:
            run.violation({'kind': 'internal-error', 'input': {k: it[k] for k in ('a', 'b', 'opts')},
                           'result': r, 'note': 'the worker failed outside the recorded calls'})
            continue
        o = r['ok']
        ok.append((it, o))
        stats['kinds'][it.get('kind', 'corpus')] = stats['kinds'].get(it.get('kind', 'corpus'), 0) + len(o['items'])
        stats['timeouts'] += 1 if o['timeout'] else 0
        stats['not_run'] += o['not_run']
        for hi in o['items']:
            nontriv = it['a'] != it['b'] and len(hi['hist']) > 0
            run.count([it['a'], it['b'], it['opts'], hi['hist'], it.get('argvs')], nontriv)
            stats['histories'] += 1
            stats['sub_edit_calls'] += sum(1 for c in hi['hist'] if c[0])
            for rr in hi['runs']:
                stats['runs'] += 1
                stats['calls'] += len(rr['outs'])
                stats['raised'] += 1 if rr['raised'] else 0
                if rr.get('root'):
                    stats['roots'][rr['root']] = stats['roots'].get(rr['root'], 0) + 1
                for x in rr['outs']:
                    stats['outcomes'][x[0]] = stats['outcomes'].get(x[0], 0) + 1
    header = HEADER
    evals = ['bad_cases holds_pC05']
    if st['models_ok']:
        header += MODEL_HEADER
        evals += ['bad_cases (fun pc => forallb corr_C05 (expand pc))',
                  'bad_cases (fun pc => forallb modelled_C05 (expand pc))',
                  'bad_cases (fun pc => forallb oracle_stable_C05 (expand pc))']
    terms = [pcase_term(o) for _, o in ok]
    bad, err = eval_sized(wd, tag, header, terms, evals)
    if err:
        run.violation({'kind': 'case-evaluation-failed', 'error': err}, no_input=True)
        return ok, [], [], [], stats
    bad_corr, modelled = (bad[1], bad[2]) if st['models_ok'] else ([], [])
    stats['oracle_unstable_pairs'] = len(bad[3]) if st['models_ok'] else 0
    stats['oracle_unstable_first'] = [{k: ok[i][0][k] for k in ('a', 'b', 'opts')} for i in (bad[3][:3] if st['models_ok'] else [])]
    return ok, bad[0], bad_corr, modelled, stats


def failing_histories(wd, st, o, pred, tag):
    """positions of the histories of one pair on which `pred` (holds_C05 / corr_C05) is false - decided in Coq"""
    header = HEADER + (MODEL_HEADER if st['models_ok'] else '')
    vals, err = common.coq_eval_terms(wd, 'fh_' + tag, header, [f'bad_items {pred} {pcase_term(o)}'])
    if err or not vals:
        return None
    return common.parse_nat_list(vals[0])


def _script_cost(scr):
    try:
        return scr[2] if scr[0] == 'comp' else scr[1]
    except Exception:  # noqa
        return None


def describe(wd, st, it, o, pred, tag):
    idx = failing_histories(wd, st, o, pred, tag)
    rep = {'input': {'a': it['a'], 'b': it['b'], 'opts': it['opts']}, 'timeout': o['timeout'], 'views_on_fresh_trees': o.get('views'),
           'canonical': {'raised': o['canon']['raised'] if o['canon'] else 'not run',
                         'final_cost': _script_cost(o['scripts'][o['canon']['final']]) if o['canon'] and o['canon']['final'] is not None else None,
                         'script': o['scripts'][o['canon']['final']] if o['canon'] and o['canon']['final'] is not None else None}}
    if it.get('argvs'):
        rep['input']['argvs'] = it['argvs']
        rep['input']['cli'] = True
    if it.get('fresh'):
        rep['input']['fresh'] = True
        rep['note'] = ('every run marked process=fresh is one history on a fresh edit in a fresh interpreter; process=same-process runs '
                       'follow one another in one long-lived interpreter; the canonical drive is a fresh interpreter without history')
    shown = []
    for k in (idx if idx else range(min(1, len(o['items'])))):
        hi = o['items'][k]
        shown.append({'history': hi['hist'],
                      'runs': [{'quiet': r['quiet'], 'process': r.get('proc', 'same-process'), 'argv': r.get('argv'),
                                'outcomes': r['outs'], 'raised': r['raised'],
                                'final_cost': _script_cost(o['scripts'][r['final']]) if r['final'] is not None else None,
                                'final_script': o['scripts'][r['final']] if r['final'] is not None else None}
                               for r in hi['runs']]})
        if len(shown) >= 3:
            break
    rep['failing_histories'] = shown
    rep['n_failing_histories'] = len(idx) if idx is not None else None
    if shown:
        rep['input']['hists'] = [shown[0]['history']]
    return rep


def check(tier, seed):
    run = common.Run(PROP, tier, seed)
    wd = common.Workdir(PROP)
    rng = random.Random(seed)
    try:
        st = common.build(MODELS, ['props/PropC05.vo'])
        common.proof_evidence(run, wd, PROP, st, THEOREMS)
        open_ids = {f['id']: f for f in open_findings()}
        items = gen_items(tier, rng)
        ok, bad_holds, bad_corr, unmodelled, stats = evaluate(run, wd, st, items)
        cli_items = gen_cli_items(tier, rng, wd)
        ok_c, bad_holds_c, bad_corr_c, _, stats_c = evaluate(run, wd, st, cli_items, tag='cli', func='impl_cli')
        fresh_items = gen_fresh_items(tier, rng)
        ok_f, bad_holds_f, bad_corr_f, _, stats_f = evaluate(run, wd, st, fresh_items, tag='fresh', func='impl_history_fresh')
        n_viol = 0
        for tag, oks, bh in (('fresh', ok_f, bad_holds_f), ('lib', ok, bad_holds), ('cli', ok_c, bad_holds_c)):
            for i in bh:
                if n_viol < 3:
                    it, o = oks[i]
                    run.violation({'kind': 'holds_C05-false', **describe(wd, st, it, o, 'holds_C05', f'{tag}{i}')})
                n_viol += 1
        # open findings: printed when their stored replay still fails (decided by holds_pC05, as for every case)
        for k, f in open_ids.items():
            rep = f.get('replay')
            if not isinstance(rep, dict) or 'a' not in rep:
                continue
            it = {'a': rep['a'], 'b': rep['b'], 'opts': list(rep.get('opts', ['auto', 'on'])), 'ext': bool(rep.get('ext')),
                  'hists': rep.get('hists', [[]]), 'quiets': [True], 'timeout': 6, 'kind': 'known-finding'}
            r = common.run_impl('pC05', 'impl_history', [it], nproc=1, timeout_item=60)[0]
            still = True
            if 'ok' in r:
                badk, errk = common.coq_eval_cases(wd, 'kf' + k, HEADER, [pcase_term(r['ok'])], ['bad_cases holds_pC05'])
                still = bool(errk) or bool(badk[0])
            if still:
                run.known(f"{k}: {f.get('what', '')} [stored replay a={json.dumps(rep['a'])} b={json.dumps(rep['b'])}]")
        run.cov['traces_validated_against_impl'] = (stats['histories'] - sum(len(ok[i][1]['items']) for i in unmodelled)) \
            if st['models_ok'] else 0
        run.cov['corr_disagreements'] = len(bad_corr) + len(bad_corr_c) + len(bad_corr_f)
        run.cov['holds_failures_total'] = len(bad_holds) + len(bad_holds_c) + len(bad_holds_f)
        run.cov['fresh_process_family'] = {'pairs': len(ok_f), 'histories': stats_f['histories'], 'runs': stats_f['runs'],
                                           'holds_failures': len(bad_holds_f), 'corr_disagreements': len(bad_corr_f),
                                           'oracle_answers_differing': stats_f.get('oracle_unstable_pairs', 0)}
        run.cov['pairs'] = len(ok)
        run.cov['pairs_outside_model'] = len(unmodelled)
        run.cov['histories'] = stats['histories']
        run.cov['histories_by_stream'] = stats['kinds']
        run.cov['runs'] = stats['runs']
        run.cov['public_calls'] = stats['calls']
        run.cov['calls_on_sub_edits_per_history_total'] = stats['sub_edit_calls']
        run.cov['root_classes'] = stats['roots']
        run.cov['outcome_kinds'] = stats['outcomes']
        run.cov['runs_that_raised'] = stats['raised'] + stats_c['raised']
        run.cov['timeouts'] = stats['timeouts']
        run.cov['histories_not_run_after_a_raise'] = stats['not_run']
        run.cov['cli_runs'] = stats_c['runs']
        run.cov['exhaustive'] = {'pairs': len(SMALL_PAIRS), 'max_length': 4 if tier == 'quick' else 5,
                                 'histories_per_pair': sum(6 ** k for k in range((4 if tier == 'quick' else 5) + 1))}
        if (st['broken'] or bad_corr or bad_corr_c or bad_corr_f) and not run.violations:
            found = False
            more = gen_items('thorough', random.Random(seed * 7919))
            more = [m for m in more if m.get('kind') != 'exhaustive'][:1200]
            ok2, bh2, _, _, _ = evaluate(run, wd, st, more, tag='search')
            for i in bh2[:1]:
                run.violation({'kind': 'holds_C05-false', **describe(wd, st, ok2[i][0], ok2[i][1], 'holds_C05', f's{i}')})
                found = True
            if not found:
                if st['broken']:
                    what = st['broken']
                else:
                    src, i = (ok, bad_corr[0]) if bad_corr else ((ok_c, bad_corr_c[0]) if bad_corr_c else (ok_f, bad_corr_f[0]))
                    what = {'stage': 'correspondence', 'statement': 'corr_C05',
                            'first_disagreement': describe(wd, st, src[i][0], src[i][1], 'corr_C05', 'corr')}
                run.violation({'kind': 'tie-broken', 'what': what}, no_input=True)
        run.cov['rule'] = ('pairs of JSON documents built by graphtage.json.build_tree under the 9 option sets. Streams: corpus; all '
                           'histories of root calls up to the stated length over the six public operations on the fixed small pairs; '
                           'random histories (length <= 30, calls on the root and on sub-edits addressed through earlier listings) on '
                           'replays of repaired defects (D6, D21-D25), fixed pairs, lists of mappings with renamed long keys and changed '
                           'multi-character values plus scalar siblings under the matcher strategies (auto, match), generated list/string documents (nested lists, '
                           'near ties, equal documents, shared prefixes/suffixes) and arbitrary generated documents; a sample through '
                           'graphtage.__main__.main with --color/--no-color x --no-status; a fresh-process family: mappings with several '
                           'keys not matched by name and string values from a small pool of 8-character strings (equal (from, to) string '
                           'pairs repeat across key-matched pairs and matcher edges), histories that start with edits() vs tighten_bounds() '
                           'vs refine to the end; there the canonical drive and every history run in FRESH interpreters (one per run) and '
                           'then once more one after another in a long-lived worker process, all judged against the fresh canonical drive.  Every history is run on a fresh edit under '
                           'quiet = True and quiet = False (all three module-level DEFAULT_PRINTER bindings), then completed with '
                           'TreeNode.diff\'s loop and serialised; the canonical drive is a fresh edit without history; the empty history always '
                           'runs under both settings, and per pair and setting the C03 views on fresh trees (sum over get_all_edits, '
                           'diff().edited_cost()) are recorded.  holds_C05 also requires: quiet and non-quiet final costs equal, every final cost '
                           '= sum of the leaves of its script, both views = the canonical cost.  '
                           'non-trivial = documents differ and the history is not empty; distinct by (a, b, options, history).')
        run.cov['samples'] = [{'a': ok[i][0]['a'], 'b': ok[i][0]['b'], 'opts': ok[i][0]['opts'],
                               'history': ok[i][1]['items'][-1]['hist'] if ok[i][1]['items'] else None}
                              for i in range(0, len(ok), max(1, len(ok) // 5))][:6]
        run.cov['oracle_answers_differing_between_runs_of_a_pair'] = stats.get('oracle_unstable_pairs', 0)
        run.cov['oracle_answers_differing_first'] = stats.get('oracle_unstable_first', [])
        run.cov['classes_modelled_without_proved_invariant'] = []
        run.assumptions = ['search (IterativeTighteningSearch / PossibleEdits) has no model; the final-cost-is-the-script-cost theorem '
                           '(C05_final_cost_partial) is proved for documents without DictNode / MultiSetNode only (lists, strings, key/value pairs, FixedKeyDictNodes)',
                           'bounds.make_distinct (number of tighten_bounds() calls per edge) and the assignment solver are oracle inputs keyed by '
                           '(from_nodes, to_nodes), recorded per run from the implementation; a run in which one key received two answers has no '
                           'correspondence; whether the assignment of a key is the same in every run of a pair is reported (oracle_stable_C05)',
                           'FixedKeyDictNodeEdit: the children\'s initial upper bounds must fit cost_upper_bound (a computed guard inside initA, as for C04)',
                           'leaf text is Python str(object), supplied by the harness',
                           'numpy uint64 cost cells are modelled by Z (no wrap below 2^64); uint16 path cells wrap explicitly',
                           'a sub-edit is addressed by its position in the last listing of its parent made in the same run']
        return run.finish()
    finally:
        wd.cleanup()


def replay(path):
    obj = json.load(open(path))
    it = obj.get('input')
    if not it or 'a' not in it:
        print('replay file names no input:', json.dumps(obj)[:600])
        print(f'VIOLATION property={PROP} replay={path} no-failing-input-found')
        return 1
    wd = common.Workdir(PROP + 'r')
    try:
        common.build(['theories/ApiSpec.vo'], ['theories/ApiSpec.vo'])
        if it.get('cli'):
            it = dict(it)
            it['dir'] = wd.file('cli')
            r = common.run_impl('pC05', 'impl_cli', [it], nproc=1)[0]
        elif it.get('fresh'):
            it = dict(it)
            it['hists'] = list(FRESH_HISTORIES) + [h for h in it.get('hists', []) if h not in FRESH_HISTORIES]
            r = common.run_impl('pC05', 'impl_history_fresh', [it], nproc=1, timeout_item=600)[0]
        else:
            it = dict(it)
            it.setdefault('hists', [[]])
            r = common.run_impl('pC05', 'impl_history', [it], nproc=1)[0]
        print(json.dumps(r)[:3000])
        if 'ok' not in r:
            print(f'VIOLATION property={PROP} replay={path}')
            return 1
        bad, err = common.coq_eval_cases(wd, 'replay', HEADER, [pcase_term(r['ok'])], ['bad_cases holds_pC05'])
        if err or bad[0]:
            print(f'VIOLATION property={PROP} replay={path}')
            return 1
        print('replay: property holds on this input')
        return 0
    finally:
        wd.cleanup()
