(* C14 - the command line agrees with the library and honours its option spellings.
   Statements only; proofs live in GT.CliProofs.  `resolve` is assembled from the code translated
   from /repo/graphtage/__main__.py and get_filetype on every run (GTgen.CliGen). *)
From Coq Require Import String List Bool.
From RecordUpdate Require Import RecordSet.
Require Import GT.PyBase GTgen.CliTables GT.CliSpec GTgen.CliGen GT.CliModel GT.CliProofs.
Import ListNotations RecordSetNotations.
Open Scope string_scope.

(* the resolution main() performs is the documented one, for every namespace argparse can produce *)
Theorem C14_refines : forall a gf gt, wf_args a -> resolve a gf gt = spec_resolve a gf gt.
Proof. exact resolve_refines_spec. Qed.

Theorem C14_k : forall a gf gt, a_dict_strategy a = None ->
  resolve (a <| a_no_key_edits := true |>) gf gt =
  resolve (a <| a_dict_strategy := Some "none" |> <| a_no_key_edits := false |>) gf gt.
Proof. exact alias_k. Qed.

Theorem C14_j : forall a gf gt,
  resolve (a <| a_condensed := true |> <| a_join_lists := false |> <| a_join_dict_items := false |>) gf gt =
  resolve (a <| a_condensed := false |> <| a_join_lists := true |> <| a_join_dict_items := true |>) gf gt.
Proof. exact alias_j. Qed.

Theorem C14_from : forall a gf gt ty m, In ty typenames -> a_from_mime a = None ->
  a_from_ty a = (fun t => if String.eqb t ty then Some m else None) ->
  resolve a gf gt = resolve (a <| a_from_mime := Some m |> <| a_from_ty := fun _ => None |>) gf gt.
Proof. exact alias_from. Qed.

Theorem C14_to : forall a gf gt ty m, wf_args a -> In ty typenames -> a_to_mime a = None ->
  a_to_ty a = (fun t => if String.eqb t ty then Some m else None) ->
  resolve a gf gt = resolve (a <| a_to_mime := Some m |> <| a_to_ty := fun _ => None |>) gf gt.
Proof. exact alias_to. Qed.

(* an explicitly given type is the one used to parse that file, whatever its name (the guess) *)
Theorem C14_explicit_from : forall a gf gt m, wf_args a -> a_from_mime a = Some m ->
  o_from_type (resolve a gf gt) = assoc m mime_table.
Proof. exact explicit_from. Qed.

Theorem C14_explicit_to : forall a gf gt m, wf_args a -> a_to_mime a = Some m ->
  o_to_type (resolve a gf gt) = assoc m mime_table.
Proof. exact explicit_to. Qed.

Theorem C14_type_flag_to : forall a gf gt ty m, wf_args a -> In ty typenames -> a_to_mime a = None ->
  a_to_ty a = (fun t => if String.eqb t ty then Some m else None) ->
  o_to_type (resolve a gf gt) = assoc m mime_table.
Proof. exact explicit_type_flag_to. Qed.

Theorem C14_default_mimes :
  forallb (fun p => oostr_eqb (assoc (snd p) mime_table) (Some (fst p))) default_mime = true.
Proof. exact default_mime_roundtrip. Qed.

Print Assumptions C14_refines.
Print Assumptions C14_k.
Print Assumptions C14_j.
Print Assumptions C14_from.
Print Assumptions C14_to.
Print Assumptions C14_explicit_from.
Print Assumptions C14_explicit_to.
Print Assumptions C14_type_flag_to.
Print Assumptions C14_default_mimes.
