(* C10 - matching options restrict the script as documented.
   `restricted a b e` (GT.ScriptSpec), at every nesting level of the script e for the pair (a, b):
   - FixedKeyDictNode ('none' strategy): no sub-edit pairs two items whose keys differ;
   - DictNode with auto_match_keys ('auto'): every key present in both mappings is paired with itself;
   - ListNode with list edits disabled: sub-edits are exactly the positional pairs followed by the removal of the
     surplus tail of a or the insertion of the surplus tail of b;
   - ListNode with list edits disabled for equal lengths, on lists of equal length: positional pairs only. *)
From Coq Require Import ZArith List Bool.
Require Import GT.Data GT.ScriptSpec GT.ScriptModel GT.RestrictProofs.
Import ListNotations.

Theorem C10 : forall O pa pb a b e,
  wf a = true -> wf b = true -> script O pa pb a b = OK e -> restricted a b e = true.
Proof. intros O pa pb a b e Ha Hb H. exact (script_restricted a O pa pb b e Ha Hb H). Qed.

Corollary C10_holds : forall O a b e ft ec,
  wf a = true -> wf b = true -> script O [] [] a b = OK e ->
  holds_C10 {| sc_a := a; sc_b := b; sc_edit := e; sc_flat_total := ft; sc_edited_cost := ec |} = true.
Proof. intros. unfold holds_C10. cbn. eapply C10; eauto. Qed.

Print Assumptions C10.
Print Assumptions C10_holds.
