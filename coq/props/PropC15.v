(* C15 - minimum-weight assignment is valid and optimal.
   Statements only; proofs live in GT.MatchProofs.  `mwbm` is the step-by-step model of
   graphtage/matching.py min_weight_bipartite_matching over `get_dtype` / `INTEGER_DTYPE_INTERVALS` translated
   from the source on every run (GTgen.MatchGen); `solve` is scipy.optimize.linear_sum_assignment, an oracle
   constrained only by the contract `optimal_full`. *)
From Coq Require Import List Bool ZArith.
Require Import GT.PyBase GT.MatchSpec GTgen.MatchGen GT.MatchModel GT.MatchProofs.
Import ListNotations.
Open Scope Z_scope.

(* on the domain the routine returns a pairing ... *)
Theorem C15_total : forall solve, optimal_full solve ->
  forall u W, in_domain u W -> exists m, mwbm solve u W = OK m.
Proof. exact C15_total. Qed.

(* ... that is one-to-one (both ways), uses only existing pairs and reports their true weights *)
Theorem C15_valid : forall solve, optimal_full solve ->
  forall u W m, in_domain u W -> mwbm solve u W = OK m ->
  NoDup (m_rows m) /\ NoDup (m_cols m) /\
  Forall (fun p => lookup W (fst p) (fst (snd p)) = Some (snd (snd p))) m.
Proof. exact C15_valid. Qed.

(* with no missing pair it pairs as many items as possible and no pairing of that size is lighter *)
Theorem C15_opt : forall solve, optimal_full solve ->
  forall u W m, in_domain u W -> complete W -> mwbm solve u W = OK m ->
  length m = Nat.min (nrows W) (ncols W) /\
  forall m', valid W m' -> length m' = length m -> total m <= total m'.
Proof. exact C15_opt. Qed.

(* weights of different Python types: the documented ValueError *)
Theorem C15_mixed : forall solve u W, mixedb W = true -> mwbm solve u W = Err ValueError.
Proof. exact C15_mixed. Qed.

(* the executable statement evaluated by the harness on the implementation's output is true of the model's *)
Theorem C15_holds : forall solve u W, optimal_full solve -> in_domain u W ->
  prop_ok {| c_unit := u; c_table := W; c_solver := None; c_result := mwbm solve u W |} = true.
Proof. exact C15_holds. Qed.

(* the dtype chosen by the translated get_dtype holds both ends of the range: the cast is lossless *)
Theorem C15_get_dtype_fits : forall lo hi, lo <= hi -> in_table lo hi ->
  fitsb (get_dtype lo hi) lo = true /\ fitsb (get_dtype lo hi) hi = true.
Proof. exact get_dtype_fits. Qed.

(* the executable optimum is a minimum over all full injective assignments, and is attained *)
Theorem C15_brute_opt_min : forall M r c, dense M r c ->
  (forall a, assignment r c a -> length a = Nat.min r c -> brute_opt M <= mtotal M a) /\
  (exists a, assignment r c a /\ length a = Nat.min r c /\ mtotal M a = brute_opt M).
Proof. exact brute_opt_min. Qed.

(* the solver contract is satisfiable: exhaustive search meets it *)
Theorem C15_brute_solve_optimal : optimal_full brute_solve.
Proof. exact brute_solve_contract. Qed.

(* ---- every pair missing (formerly D14a, now fixed in /repo): the empty pairing, which satisfies the property *)
Theorem C15_all_missing_empty : forall solve u W, all_missingb W = true -> mwbm solve u W = OK [].
Proof. exact all_missing_empty. Qed.

Theorem C15_all_missing_holds : forall solve u W, all_missingb W = true ->
  valid W [] /\
  prop_ok {| c_unit := u; c_table := W; c_solver := None; c_result := mwbm solve u W |} = true.
Proof. exact all_missing_holds. Qed.

(* the old failure (TypeError on the corpus table) is rejected by holds_C15 under the classes still open, and by
   corr_C15; the empty pairing is accepted by both *)
Theorem C15_all_missing_regression_detected :
  let c := {| c_unit := 1; c_table := [[None; None]; [None; None]]; c_solver := None; c_result := Err TypeError |} in
  holds_C15 [(kf_negative_with_missing, ex_kf_negative_with_missing); (kf_beyond_2p53, ex_kf_beyond_2p53);
             (kf_sentinel_overflow, ex_kf_sentinel_overflow)] c = false /\
  corr_C15 c = false /\
  holds_C15 [] {| c_unit := 1; c_table := c_table c; c_solver := None; c_result := OK [] |} = true /\
  corr_C15 {| c_unit := 1; c_table := c_table c; c_solver := None; c_result := OK [] |} = true.
Proof. exact all_missing_regression_detected. Qed.

(* ---- D14: every region excluded from in_domain fails, with a concrete table (the known-finding classes);
   rectangular single-type tables outside the domain lie in one of the three classes *)
Theorem C15_domain_or_known : forall u W, rectb W = true -> mixedb W = false ->
  in_domainb u W = true \/ kf_negative_with_missing u W = true \/
  kf_sentinel_overflow u W = true \/ kf_beyond_2p53 u W = true.
Proof. exact in_domain_or_known. Qed.

Theorem C15_negative_with_missing_refuted :
  let W := [[Some (WI 3); None]; [Some (WI (-5)); None]] in
  rectb W = true /\ mixedb W = false /\ kf_negative_with_missing 1 W = true /\
  forall solve, mwbm solve 1 W = Err AssertionError.
Proof. exact C15_negative_with_missing_refuted. Qed.

Theorem C15_negative_needs_negative : forall u W, rectb W = true -> 0 < one_of u W ->
  kf_negative_with_missing u W = true -> exists w, In (Some w) (cells W) /\ wnum w < 0.
Proof. exact kf_negative_needs_negative. Qed.

Theorem C15_sentinel_overflow_refuted :
  let W := [[Some (WI (2 ^ 64 - 1)); None]] in
  rectb W = true /\ mixedb W = false /\ kf_sentinel_overflow 1 W = true /\ kf_negative_with_missing 1 W = false /\
  forall solve, mwbm solve 1 W = Err OverflowError.
Proof. exact C15_sentinel_overflow_refuted. Qed.

(* optimality fails beyond the float64-exact range for a solver that meets the contract but rounds like scipy *)
Theorem C15_beyond_2p53_refuted :
  let W := [[Some (WI (2 ^ 53 + 1)); Some (WI (2 ^ 53))]; [Some (WI (2 ^ 53)); Some (WI (2 ^ 53))]] in
  optimal_full solve_rounded /\ rectb W = true /\ mixedb W = false /\ complete W /\
  kf_beyond_2p53 1 W = true /\ kf_sentinel_overflow 1 W = false /\
  exists m m', mwbm solve_rounded 1 W = OK m /\ valid W m' /\ length m' = length m /\ total m' < total m.
Proof. exact C15_beyond_2p53_refuted. Qed.

(* the model's outcome on every table of the first class *)
Theorem C15_negative_outcome : forall solve u W, rectb W = true -> mixedb W = false ->
  kf_negative_with_missing u W = true -> mwbm solve u W = Err AssertionError.
Proof. exact kf_negative_outcome. Qed.

Print Assumptions C15_total.
Print Assumptions C15_valid.
Print Assumptions C15_opt.
Print Assumptions C15_mixed.
Print Assumptions C15_holds.
Print Assumptions C15_get_dtype_fits.
Print Assumptions C15_brute_opt_min.
Print Assumptions C15_brute_solve_optimal.
Print Assumptions C15_all_missing_empty.
Print Assumptions C15_all_missing_holds.
Print Assumptions C15_all_missing_regression_detected.
Print Assumptions C15_domain_or_known.
Print Assumptions C15_negative_with_missing_refuted.
Print Assumptions C15_negative_needs_negative.
Print Assumptions C15_sentinel_overflow_refuted.
Print Assumptions C15_beyond_2p53_refuted.
Print Assumptions C15_negative_outcome.
