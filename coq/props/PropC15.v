(* C15 - minimum-weight assignment is valid and optimal.
   Statements only; proofs live in GT.MatchProofs.  `mwbm` is the step-by-step model of
   graphtage/matching.py min_weight_bipartite_matching over `get_dtype` / `INTEGER_DTYPE_INTERVALS` translated
   from the source on every run (GTgen.MatchGen); `solve` is scipy.optimize.linear_sum_assignment, an oracle
   constrained only by the contract `optimal_full`. *)
From Coq Require Import List Bool ZArith.
Require Import GT.PyBase GT.MatchSpec GTgen.MatchGen GT.MatchModel GT.MatchProofs.
Import ListNotations.
Open Scope Z_scope.

(* on the domain the routine returns a pairing ... *)
Theorem C15_total : forall solve, optimal_full solve ->
  forall u W, in_domain u W -> exists m, mwbm solve u W = OK m.
Proof. exact C15_total. Qed.

(* ... that is one-to-one (both ways), uses only existing pairs and reports their true weights *)
Theorem C15_valid : forall solve, optimal_full solve ->
  forall u W m, in_domain u W -> mwbm solve u W = OK m ->
  NoDup (m_rows m) /\ NoDup (m_cols m) /\
  Forall (fun p => lookup W (fst p) (fst (snd p)) = Some (snd (snd p))) m.
Proof. exact C15_valid. Qed.

(* with no missing pair it pairs as many items as possible and no pairing of that size is lighter *)
Theorem C15_opt : forall solve, optimal_full solve ->
  forall u W m, in_domain u W -> complete W -> mwbm solve u W = OK m ->
  length m = Nat.min (nrows W) (ncols W) /\
  forall m', valid W m' -> length m' = length m -> total m <= total m'.
Proof. exact C15_opt. Qed.

(* weights of different Python types: the documented ValueError *)
Theorem C15_mixed : forall solve u W, mixedb W = true -> mwbm solve u W = Err ValueError.
Proof. exact C15_mixed. Qed.

(* the executable statement evaluated by the harness on the implementation's output is true of the model's *)
Theorem C15_holds : forall solve u W, optimal_full solve -> in_domain u W ->
  prop_ok {| c_unit := u; c_table := W; c_solver := None; c_result := mwbm solve u W |} = true.
Proof. exact C15_holds. Qed.

(* the dtype chosen by the translated get_dtype holds both ends of the range: the cast is lossless *)
Theorem C15_get_dtype_fits : forall lo hi, lo <= hi -> in_table lo hi ->
  fitsb (get_dtype lo hi) lo = true /\ fitsb (get_dtype lo hi) hi = true.
Proof. exact get_dtype_fits. Qed.

(* the executable optimum is a minimum over all full injective assignments, and is attained *)
Theorem C15_brute_opt_min : forall M r c, dense M r c ->
  (forall a, assignment r c a -> length a = Nat.min r c -> brute_opt M <= mtotal M a) /\
  (exists a, assignment r c a /\ length a = Nat.min r c /\ mtotal M a = brute_opt M).
Proof. exact brute_opt_min. Qed.

(* the solver contract is satisfiable: exhaustive search meets it *)
Theorem C15_brute_solve_optimal : optimal_full brute_solve.
Proof. exact brute_solve_contract. Qed.

Print Assumptions C15_total.
Print Assumptions C15_valid.
Print Assumptions C15_opt.
Print Assumptions C15_mixed.
Print Assumptions C15_holds.
Print Assumptions C15_get_dtype_fits.
Print Assumptions C15_brute_opt_min.
Print Assumptions C15_brute_solve_optimal.
