(* C09 - the same data compares as equal regardless of input file format.
   `load f o d` (GT.LoadModel) = what Filetype.build_tree of format f returns for the data d: every loader hands
   the parsed value to json.build_tree (`build`, GT.BuildModel); plist wraps the result in a PLISTNode.
   `root_script` = the top-level edit between two loaded documents (PLISTNode.edits, <node>.edits(PLISTNode))
   over the big-step script model.  The third-party parsers are oracles: that they return equal Python values for
   the same data is what the correspondence check (harness/pC09.py) tests on every run.
   The statement as given is FALSE on the current tree for format pairs (non-plist, plist): open finding D8b. *)
From Coq Require Import ZArith List Bool.
Require Import GT.Data GT.ScriptSpec GT.BuildModel GT.LoadSpec GT.ScriptModel GT.LoadModel GT.LoadProofs.
Import ListNotations.
Open Scope Z_scope.

(* all four loaders build the same tree from the same data *)
Theorem C09_same_tree : forall f1 f2 o d, r_tree (load f1 o d) = r_tree (load f2 o d).
Proof. exact load_same_tree. Qed.

(* the same data: zero cost in both directions for every ordered pair of formats outside D8b's class
   (every oracle, all build options, all documents) ... *)
Theorem C09_zero_partial : forall O f1 f2 o d, kf_into_plist f1 f2 = false ->
  exists r, root_script O (load f1 o d) (load f2 o d) = Some r /\ rcost r = 0.
Proof. exact C09_same_data_zero. Qed.

(* ... and equal under the implementation's == whenever both carry the same wrapper *)
Theorem C09_equal_partial : forall f1 f2 o d, kf_wrapper_mismatch f1 f2 = false ->
  root_node_eqb (load f1 o d) (load f2 o d) = true.
Proof. exact C09_same_data_equal. Qed.

(* a diff against a third document costs the same whichever formats the two sides come from (outside D8b) *)
Theorem C09_third_partial : forall O f1 f2 f3 f4 o d x,
  kf_into_plist f1 f3 = false -> kf_into_plist f2 f4 = false ->
  match root_script O (load f1 o d) (load f3 o x), root_script O (load f2 o d) (load f4 o x) with
  | Some r, Some r' => rcost r = rcost r'
  | None, None => True
  | _, _ => False
  end.
Proof. exact C09_third_document. Qed.

(* a tree diffed against itself costs nothing - for every tree, oracle and position *)
Theorem C09_self_zero : forall O pa pb a e, script O pa pb a a = OK e -> cost e = 0.
Proof. exact self_zero. Qed.

(* D8b: INTO a plist from any other format the same data is a Replace of positive cost - for every document *)
Theorem C09_into_plist_refuted_ : forall O f1 f2 o d, kf_into_plist f1 f2 = true ->
  exists c, root_script O (load f1 o d) (load f2 o d) = Some (RReplace c) /\ 0 < c.
Proof. exact C09_into_plist_refuted. Qed.

(* the executable statement the harness evaluates on the implementation's observations: outside D8b it holds
   of the model for all inputs; as stated it fails on the model for all inputs *)
Theorem C09_holds_partial : forall O o d x, holds_C09_partial (model_case O o d x) = true.
Proof. exact C09_model_holds_partial. Qed.
Theorem C09_refuted_ : forall O o d x, holds_C09 (model_case O o d x) = false.
Proof. exact C09_refuted. Qed.

Example C09_nontrivial_instance :
  keys_ok ex_doc = true /\
  (exists r, root_script (Build_oracle [] []) (load FPlist ex_opts ex_doc) (load FYaml ex_opts ex_doc') = Some r /\ rcost r = 2) /\
  (exists r, root_script (Build_oracle [] []) (load FJson ex_opts ex_doc) (load FJson5 ex_opts ex_doc') = Some r /\ rcost r = 2).
Proof. exact C09_example. Qed.

Print Assumptions C09_same_tree.
Print Assumptions C09_zero_partial.
Print Assumptions C09_equal_partial.
Print Assumptions C09_third_partial.
Print Assumptions C09_self_zero.
Print Assumptions C09_into_plist_refuted_.
Print Assumptions C09_holds_partial.
Print Assumptions C09_refuted_.
