(* C02 - no edits are reported exactly when the two documents are equal.

   `script O pa pb a b` is the big-step model of the edit graphtage computes for the trees a, b (ScriptModel), its
   `cost` the edit's own reported total; `data_eqb` is typed, structural equality of documents (lists ordered,
   mappings unordered, scalars by type and value); `node_eqb` is the implementation's own `==` (Python == on scalars).

   The full statement  cost e = 0 <-> data_eqb a b = true  is FALSE for the current code, for exactly two reasons,
   both open known findings, both refuted below by a concrete pair of documents that the harness replays:
     D4  inside containers equality is `==`, so [1] vs [1.0] (or [true] vs [1]) cost 0;
     D16 in a list of leaves the insert/remove penalty is 0, so a zero-size leaf ("" or null) is inserted or
         removed at cost 0: [] vs [null], ["",1] vs [1].
   Proved for ALL documents, oracles and option sets:
     C02_equal_zero    equal documents cost 0;
     C02_zero_sim      cost 0 implies `zsim a b`: equal up to D4 and D16 (scalars ==, zero-size leaves of leaf-only
                       lists ignored);
     C02_partial       cost 0 <-> equal, under the two carve-outs `typed a b` (no two scalars of the two documents
                       are == without being equal as data: D4) and `nozero` (no leaf-only list contains a zero-size
                       leaf: D16).  What is missing for the full statement is exactly the repair of D4 and D16;
     C02_classified    every failure of the full statement lies in one of the two classes by which the harness
                       recognises D4 / D16 (so a failing implementation case outside them contradicts the model);
     C02_spec_sound    script-level and independent of the model: any valid (C01), additive (C03) and `priced`
                       script has cost >= 0, and cost 0 only if zsim a b.  This is what the harness evaluates on
                       the IMPLEMENTATION's scripts (spec_ok), together with C02_model_priced for the model.
   `numtext_ok`: numeric leaves have a non-empty str() (true of every int, float, bool); `consistent`: the
   serialiser's invariant relating str() and numeric value of two leaves of the same class.
   Command-line half.  `had_edits e` is what graphtage.__main__ turns into the exit status: is any edit of the flat view
   (get_all_edits = ScriptSpec.flat_costs) of non-zero cost.  Proved for all documents, oracles and option sets:
     C02_exit_flat     for every additive, priced script the flag is set iff the total cost is positive;
     C02_exit_cost     for every script of the model: exit status 0 iff cost 0, exit status 1 iff cost > 0;
     C02_exit          under the hypotheses of C02_partial: exit status 0 iff the documents are equal as data, 1 iff not;
     C02_exit_cli      the model's exit status is the value EqualSpec.cli_exit_ok compares the OBSERVED status with.
   The change marks of the rendered output (cli_marks_ok) are checked on the implementation only (and by C06). *)
From Coq Require Import ZArith List Bool.
Require Import GT.Data GT.ScriptSpec GT.ScriptModel GT.EqualSpec GT.ScriptKnown GT.EqualProofs GT.ExitProofs.
Import ListNotations.
Open Scope Z_scope.

Theorem C02_equal_zero : forall O pa pb a b e,
  consistent a b = true -> data_eqb a b = true -> script O pa pb a b = OK e -> cost e = 0.
Proof. exact equal_zero. Qed.

Theorem C02_zero_sim : forall O pa pb a b e,
  wf a = true -> wf b = true -> numtext_ok a = true -> numtext_ok b = true ->
  script O pa pb a b = OK e -> 0 <= cost e /\ (cost e = 0 -> zsim a b = true).
Proof. exact script_zero_sim. Qed.

Theorem C02_partial : forall O pa pb a b e,
  wf a = true -> wf b = true -> numtext_ok a = true -> numtext_ok b = true -> consistent a b = true ->
  typed a b = true -> nozero a = true -> nozero b = true ->
  script O pa pb a b = OK e -> (cost e = 0 <-> data_eqb a b = true).
Proof. exact script_zero_iff. Qed.

Theorem C02_refuted_D4 : exists a b e,
  (wf a = true /\ wf b = true /\ numtext_ok a = true /\ numtext_ok b = true /\ consistent a b = true /\
   script no_oracle [] [] a b = OK e /\ cost e = 0 /\ data_eqb a b = false) /\ typed a b = false.
Proof. exact refuted_cross_type. Qed.

Theorem C02_refuted_D16 : exists a b e,
  (wf a = true /\ wf b = true /\ numtext_ok a = true /\ numtext_ok b = true /\ consistent a b = true /\
   script no_oracle [] [] a b = OK e /\ cost e = 0 /\ data_eqb a b = false) /\ nozero b = false.
Proof. exact refuted_zero_size. Qed.

Theorem C02_classified : forall O pa pb a b e ft ec,
  wf a = true -> wf b = true -> numtext_ok a = true -> numtext_ok b = true -> consistent a b = true ->
  script O pa pb a b = OK e ->
  let c := {| sc_a := a; sc_b := b; sc_edit := e; sc_flat_total := ft; sc_edited_cost := ec |} in
  spec_ok c = true /\
  (holds_C02 c = false -> kf_cross_type_py_equal c || kf_zero_size_in_leaf_list c = true).
Proof. exact script_failures_classified. Qed.

Theorem C02_spec_sound : forall e a b,
  numtext_ok a = true -> numtext_ok b = true ->
  valid a b e = true -> additive e = true -> priced a b e = true ->
  0 <= cost e /\ (cost e = 0 -> zsim a b = true).
Proof. exact spec_sound. Qed.

Theorem C02_model_priced : forall a O pa pb b e,
  wf a = true -> wf b = true -> script O pa pb a b = OK e -> priced a b e = true.
Proof. exact script_priced. Qed.

Theorem C02_zsim_data : forall a b,
  wf a = true -> wf b = true -> typed a b = true -> nozero a = true -> nozero b = true ->
  zsim a b = true -> data_eqb a b = true.
Proof. exact zsim_data. Qed.

Theorem C02_exit_flat : forall a b e, priced a b e = true -> additive e = true ->
  0 <= cost e /\ (had_edits e = true <-> 0 < cost e) /\ (had_edits e = false <-> cost e = 0).
Proof. exact had_edits_spec. Qed.

Theorem C02_exit_cost : forall O pa pb a b e, wf a = true -> wf b = true -> script O pa pb a b = OK e ->
  (exit_status e = 0 <-> cost e = 0) /\ (exit_status e = 1 <-> 0 < cost e).
Proof. exact exit_status_cost. Qed.

Theorem C02_exit : forall O pa pb a b e,
  wf a = true -> wf b = true -> numtext_ok a = true -> numtext_ok b = true -> consistent a b = true ->
  typed a b = true -> nozero a = true -> nozero b = true ->
  script O pa pb a b = OK e -> (exit_status e = 0 <-> data_eqb a b = true) /\ (exit_status e = 1 <-> data_eqb a b = false).
Proof. exact exit_status_equal. Qed.

Theorem C02_exit_cli : forall O pa pb a b e, wf a = true -> wf b = true -> script O pa pb a b = OK e ->
  exit_status e = (if cost e =? 0 then 0 else 1).
Proof. exact exit_status_cli. Qed.

(* the hypotheses of C02_partial are satisfiable by non-trivial documents, with both outcomes *)
Example C02_example_equal : exists e,
  hyps_C02 (ex_doc true 120) (ex_doc false 120) = true /\
  script no_oracle [] [] (ex_doc true 120) (ex_doc false 120) = OK e /\ cost e = 0 /\
  data_eqb (ex_doc true 120) (ex_doc false 120) = true.
Proof. exact zero_iff_example_equal. Qed.

Example C02_example_different : exists e,
  hyps_C02 (ex_doc true 120) (ex_doc false 121) = true /\
  script no_oracle [] [] (ex_doc true 120) (ex_doc false 121) = OK e /\ cost e = 2 /\
  data_eqb (ex_doc true 120) (ex_doc false 121) = false.
Proof. exact zero_iff_example_different. Qed.

Print Assumptions C02_equal_zero.
Print Assumptions C02_zero_sim.
Print Assumptions C02_partial.
Print Assumptions C02_refuted_D4.
Print Assumptions C02_refuted_D16.
Print Assumptions C02_classified.
Print Assumptions C02_spec_sound.
Print Assumptions C02_model_priced.
Print Assumptions C02_zsim_data.
Print Assumptions C02_exit_flat.
Print Assumptions C02_exit_cost.
Print Assumptions C02_exit.
Print Assumptions C02_exit_cli.
