(* C16 - the priority queue always yields a minimum.  Statements only; proofs live in GT.FibHeapProofs.
   The model (GT.FibHeapModel) is a structure-exact functional transcription of graphtage/fibonacci.py:
   sibling rings are lists starting at `_root` / `child` going `.right`; `run lt ops` replays a history from
   the empty heap (item ids 0,1,2,... in push order); `serr` is the flag raised by any internal error value
   (a node that is not found, exhausted fuel in _consolidate's inner loop or in the deleted-min loop).
   `abs h` is the multiset (a list up to Permutation) of live (key, item id) pairs; `Inv` = ids unique, heap
   order, _n = number of nodes, _min names a root with a minimal key, no node carries `deleted`, ids < next.
   The key order `lt` is any strict total order on Z; `key_lt false` is `<` (FibonacciHeap), `key_lt true`
   is ReversedComparator's `>` (MaxFibonacciHeap). *)
From Coq Require Import ZArith List Bool Permutation.
Require Import GT.FibHeapSpec GT.FibHeapModel GT.FibHeapProofs.
Import ListNotations.
Open Scope Z_scope.

(* the two real orders are strict total orders *)
Theorem C16_orders : forall mx, strict_total (key_lt mx).
Proof. exact key_lt_strict_total. Qed.

(* for ALL histories (any length): no internal error / out-of-fuel, the invariant, unique ids, and the
   reported size is the number of live items *)
Theorem C16 : forall lt, strict_total lt -> forall ops, let s := run lt ops in
  serr s = false /\ Inv lt (sh s) (snext s) /\ NoDup (map snd (abs (sh s))) /\
  hn (sh s) = Z.of_nat (length (abs (sh s))).
Proof. exact C16_invariant. Qed.

(* ... and whatever operation comes next: peek shows a live item with a minimal key, pop returns one and
   removes exactly it, push / decrease_key / remove act on the multiset as they should (see op_spec) *)
Theorem C16_operation : forall lt, strict_total lt -> forall ops o,
  let s := run lt ops in let s' := run lt (ops ++ [o]) in
  op_spec lt o (snext s) (abs (sh s)) (step_ret lt s o) (abs (sh s')) /\
  snext s' = next_after_op o (snext s) /\ (forall y, In y (abs (sh s)) -> 0 <= snd y < snext s).
Proof. exact FibHeapProofs.C16_operation. Qed.

(* op_spec spelled out, so that its meaning is fixed here *)
Theorem C16_op_spec_meaning : forall lt o next A r A',
  op_spec lt o next A r A' <->
  match o with
  | Push k => r = RItem next k /\ Permutation A' ((k, next) :: A)
  | Peek => (A = [] /\ r = RExc AttributeError /\ A' = A) \/
            (exists m k, r = RItem m k /\ In (k, m) A /\ (forall y, In y A -> lt (fst y) k = false) /\ A' = A)
  | Pop => (A = [] /\ r = RExc AttributeError /\ A' = A) \/
           (exists m k, r = RItem m k /\ (forall y, In y A -> lt (fst y) k = false) /\ Permutation A ((k, m) :: A'))
  | DecreaseKey x k =>
      (~ In x (map snd A) /\ A' = A /\ r = RNone) \/
      (exists kx, In (kx, x) A /\ lt kx k = true /\ A' = A /\ r = RExc ValueError) \/
      (exists kx E, Permutation A ((kx, x) :: E) /\ lt kx k = false /\ r = RNone /\ Permutation A' ((k, x) :: E))
  | Remove x =>
      r = RNone /\ ((~ In x (map snd A) /\ A' = A) \/ (exists kx, Permutation A ((kx, x) :: A')))
  end.
Proof. exact op_spec_meaning. Qed.

(* min-heap and max-heap instances *)
Theorem C16_min : forall ops o, let lt := key_lt false in
  let s := run lt ops in let s' := run lt (ops ++ [o]) in
  serr s = false /\ Inv lt (sh s) (snext s) /\ hn (sh s) = Z.of_nat (length (abs (sh s))) /\
  op_spec lt o (snext s) (abs (sh s)) (step_ret lt s o) (abs (sh s')).
Proof. exact FibHeapProofs.C16_min. Qed.

Theorem C16_max : forall ops o, let lt := key_lt true in
  let s := run lt ops in let s' := run lt (ops ++ [o]) in
  serr s = false /\ Inv lt (sh s) (snext s) /\ hn (sh s) = Z.of_nat (length (abs (sh s))) /\
  op_spec lt o (snext s) (abs (sh s)) (step_ret lt s o) (abs (sh s')).
Proof. exact FibHeapProofs.C16_max. Qed.

(* per operation, on ANY state satisfying the invariant (third component `false` = no internal error) *)
Theorem C16_push : forall lt, strict_total lt -> forall h next k, Inv lt h next ->
  exists h', push lt next k h = (h', RItem next k, false) /\ Inv lt h' (next + 1) /\
             Permutation (abs h') ((k, next) :: abs h).
Proof. exact FibHeapProofs.C16_push. Qed.

Theorem C16_peek : forall lt, strict_total lt -> forall h next, Inv lt h next ->
  (roots h = [] /\ peek lt h = (h, RExc AttributeError, false)) \/
  (exists m k, peek lt h = (h, RItem m k, false) /\ In (k, m) (abs h) /\
               forall y, In y (abs h) -> lt (fst y) k = false).
Proof. exact FibHeapProofs.C16_peek. Qed.

Theorem C16_pop : forall lt, strict_total lt -> forall h next, Inv lt h next ->
  (roots h = [] /\ pop lt h = (h, RExc AttributeError, false)) \/
  (exists h' m k, pop lt h = (h', RItem m k, false) /\ Inv lt h' next /\
                  Permutation (abs h) ((k, m) :: abs h') /\
                  forall y, In y (abs h) -> lt (fst y) k = false).
Proof. exact FibHeapProofs.C16_pop. Qed.

Theorem C16_decrease_key : forall lt, strict_total lt -> forall h next x k, Inv lt h next ->
  exists h' r, decrease_key lt x k h = (h', r, false) /\ Inv lt h' next /\
    ((~ In x (map snd (abs h)) /\ h' = h /\ r = RNone) \/
     (exists kx, In (kx, x) (abs h) /\ lt kx k = true /\ h' = h /\ r = RExc ValueError) \/
     (exists kx E, Permutation (abs h) ((kx, x) :: E) /\ lt kx k = false /\ r = RNone /\
                   Permutation (abs h') ((k, x) :: E))).
Proof. exact FibHeapProofs.C16_decrease_key. Qed.

Theorem C16_remove : forall lt, strict_total lt -> forall h next x, Inv lt h next ->
  exists h', remove lt x h = (h', RNone, false) /\ Inv lt h' next /\
    ((~ In x (map snd (abs h)) /\ h' = h) \/ (exists kx, Permutation (abs h) ((kx, x) :: abs h'))).
Proof. exact FibHeapProofs.C16_remove. Qed.

(* the invariant, spelled out *)
Theorem C16_Inv_meaning : forall lt h next, Inv lt h next ->
  NoDup (map eid (entsl (roots h))) /\ Forall (hord lt) (roots h) /\
  hn h = Z.of_nat (length (entsl (roots h))) /\
  match minp h with
  | None => roots h = []
  | Some m => exists r, In r (roots h) /\ nid r = m /\
                        Forall (fun e => lt (ekey e) (nkey r) = false) (entsl (roots h))
  end /\
  Forall (fun e => edel e = false) (entsl (roots h)) /\
  Forall (fun e => 0 <= eid e < next) (entsl (roots h)).
Proof. exact Inv_meaning. Qed.

(* the executable statement the harness evaluates on the REAL heap's outputs: true on the model's own outputs
   for every history and both heaps, and true on every observed history that passes the lock-step
   correspondence corr_C16 *)
Theorem C16_holds : forall mx ops, holds_C16 (model_case mx ops) = true.
Proof. exact FibHeapProofs.C16_holds. Qed.

Theorem C16_corr_holds : forall c, corr_C16 c = true -> holds_C16 c = true.
Proof. exact FibHeapProofs.C16_corr_holds. Qed.

(* smallest / largest (utils.py): min(max(n,0), len) input items are yielded, no left-over item has a key
   strictly before a yielded one, and the heap path (len > n) yields them in key order *)
Theorem C16_smallest : forall keys n, small_spec (key_lt false) keys n (small_model (key_lt false) keys n).
Proof. exact FibHeapProofs.C16_smallest. Qed.

Theorem C16_largest : forall keys n, small_spec (key_lt true) keys n (small_model (key_lt true) keys n).
Proof. exact FibHeapProofs.C16_largest. Qed.

Theorem C16_small_spec_meaning : forall lt keys n out,
  small_spec lt keys n out <->
  exists rest, Permutation (kitems 0 keys) (out ++ rest) /\
    Z.of_nat (length out) = Z.min (Z.max n 0) (Z.of_nat (length keys)) /\
    (forall a b, In a out -> In b rest -> lt (fst b) (fst a) = false) /\
    (n < Z.of_nat (length keys) -> sorted_by lt (map fst out) = true).
Proof. exact small_spec_meaning. Qed.

Theorem C16_small_sound : forall c, holds_C16s c = true ->
  small_spec (key_lt (s_max c)) (s_keys c) (s_n c) (s_out c).
Proof. exact FibHeapProofs.C16_small_sound. Qed.

Theorem C16_small_corr : forall c, corr_C16s c = true ->
  small_spec (key_lt (s_max c)) (s_keys c) (s_n c) (s_out c).
Proof. exact FibHeapProofs.C16_small_corr. Qed.

Print Assumptions C16_orders.
Print Assumptions C16.
Print Assumptions C16_operation.
Print Assumptions C16_op_spec_meaning.
Print Assumptions C16_min.
Print Assumptions C16_max.
Print Assumptions C16_push.
Print Assumptions C16_peek.
Print Assumptions C16_pop.
Print Assumptions C16_decrease_key.
Print Assumptions C16_remove.
Print Assumptions C16_Inv_meaning.
Print Assumptions C16_holds.
Print Assumptions C16_corr_holds.
Print Assumptions C16_smallest.
Print Assumptions C16_largest.
Print Assumptions C16_small_spec_meaning.
Print Assumptions C16_small_sound.
Print Assumptions C16_small_corr.
