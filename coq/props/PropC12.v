(* C12 - printing an unedited document yields text that parses back equal.
   Statements only; proofs live in GT.JsonProofs (and GT.CsvProofs). *)
From Coq Require Import List Bool ZArith.
Require Import GT.PyBase GT.JsonSpec GT.JsonModel GT.JsonProofs.
Import ListNotations.
Open Scope Z_scope.

(* JSON: every layout, every document of the domain (any nesting, every code point, lone surrogates, a high
   surrogate never immediately followed by a low one; well-formed number tokens; distinct keys) *)
Theorem C12_json : forall lay v, json_domain v -> jparse (jprint lay v) = Some (canon v).
Proof. exact C12_json_all. Qed.

(* the string codec at full strength, and the necessity of its hypothesis *)
Theorem C12_json_string : forall s rest, str_okb false s = true ->
  pstring false (escape_string s ++ 34 :: rest) = Some (s, rest).
Proof. exact C12_json_string_codec. Qed.
Theorem C12_json_string_pair_refuted_ :
  exists s, forallb cp_ok s = true /\ pstring false (escape_string s ++ [34]) <> Some (s, []).
Proof. exact C12_json_string_pair_refuted. Qed.

(* JSON5: the same printer read by a parser that keeps escaped surrogate pairs apart (D17) *)
Theorem C12_json5 : forall lay v, json5_domain v -> j5parse (jprint lay v) = Some (canon v).
Proof. exact C12_json5_bmp. Qed.
Theorem C12_json5_refuted : exists lay v, json_domain v /\ j5parse (jprint lay v) <> Some (canon v).
Proof. exact C12_json5_astral_refuted. Qed.

Example C12_json_domain_example : json_domain example_doc /\ canon example_doc <> example_doc.
Proof. exact C12_json_domain_inhabited. Qed.
Example C12_json5_domain_example : json5_domain example_doc5 /\ canon example_doc5 <> example_doc5.
Proof. exact C12_json5_domain_inhabited. Qed.

Print Assumptions C12_json.
Print Assumptions C12_json_string.
Print Assumptions C12_json5.
Print Assumptions C12_json5_refuted.
