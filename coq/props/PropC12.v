(* C12 - printing an unedited document yields text that parses back equal.
   Statements only; proofs live in GT.JsonProofs, GT.CsvProofs and GT.StructProofs. *)
From Coq Require Import List Bool ZArith.
Require Import GT.PyBase GT.JsonSpec GT.JsonModel GT.JsonProofs.
Require Import GT.CsvModel GT.CsvProofs GT.StructSpec GT.StructModel GT.StructProofs.
Import ListNotations.
Open Scope Z_scope.

(* JSON: every layout, every document of the domain (any nesting, every code point, lone surrogates, a high
   surrogate never immediately followed by a low one; well-formed number tokens; distinct keys) *)
Theorem C12_json : forall lay v, json_domain v -> jparse (jprint lay v) = Some (canon v).
Proof. exact C12_json_all. Qed.

(* the string codec at full strength, and the necessity of its hypothesis *)
Theorem C12_json_string : forall s rest, str_okb false s = true ->
  pstring false (escape_string s ++ 34 :: rest) = Some (s, rest).
Proof. exact C12_json_string_codec. Qed.
Theorem C12_json_string_pair_refuted_ :
  exists s, forallb cp_ok s = true /\ pstring false (escape_string s ++ [34]) <> Some (s, []).
Proof. exact C12_json_string_pair_refuted. Qed.

(* JSON5: the same printer read by a parser that keeps escaped surrogate pairs apart (D17) *)
Theorem C12_json5 : forall lay v, json5_domain v -> j5parse (jprint lay v) = Some (canon v).
Proof. exact C12_json5_bmp. Qed.
Theorem C12_json5_refuted : exists lay v, json_domain v /\ j5parse (jprint lay v) <> Some (canon v).
Proof. exact C12_json5_astral_refuted. Qed.

Example C12_json_domain_example : json_domain example_doc /\ canon example_doc <> example_doc.
Proof. exact C12_json_domain_inhabited. Qed.
Example C12_json5_domain_example : json5_domain example_doc5 /\ canon example_doc5 <> example_doc5.
Proof. exact C12_json5_domain_inhabited. Qed.

(* CSV: every table (ragged rows, empty rows, empty cells) whose cells contain no carriage return - the loader's
   image, since csv.build_tree reads the file with universal newlines - reads back EXACTLY (a fortiori equal for
   CSVNode.__eq__, which moreover identifies all tables without a non-empty row); the hypothesis is necessary *)
Theorem C12_csv : forall t, csv_domain t -> csv_read (csv_print t) = Some t.
Proof. exact C12_csv_all. Qed.
Theorem C12_csv_eq : forall t, csv_domain t -> exists r, csv_read (csv_print t) = Some r /\ table_equiv r t = true.
Proof. exact C12_csv_equiv. Qed.
Theorem C12_csv_refuted : exists t, csv_read (csv_print t) <> Some t /\ csv_read (csv_print t) = Some [[[10]]].
Proof. exact C12_csv_cr_refuted. Qed.
Example C12_csv_domain_example : csv_domain example_table /\ csv_read (csv_print example_table) = Some example_table.
Proof. exact C12_csv_domain_inhabited. Qed.

(* YAML: graphtage's block-structure printing around ANY scalar codec (dump = the third-party emitter behind
   YAMLFormatter.write_obj, lexs = the third-party scalar resolver) that satisfies, on the scalars in_dom,
     scalar_rt  : the resolver reads back what the emitter wrote, and
     scalar_lex : what the emitter wrote is a non-empty token without line feed, space or colon;
   every document of such scalars without an empty sequence or mapping *)
Theorem C12_struct_yaml :
  forall (A : Type) (dump : A -> list Z) (lexs : list Z -> option A) (in_dom : A -> bool),
    (forall x, in_dom x = true -> lexs (dump x) = Some x) ->
    (forall x, in_dom x = true -> tok_ok (dump x) = true) ->
    forall t : stree A, stree_all in_dom t = true -> stree_nonempty t = true ->
      yaml_parse_s A lexs (yaml_print_s A dump t) = Some t.
Proof. exact C12_struct_yaml_codec. Qed.
(* the instance the harness evaluates: scalars as the tokens the implementation wrote for them *)
Theorem C12_struct_yaml_tok : forall t, yaml_domain t -> yaml_parse (yaml_print t) = Some t.
Proof. exact C12_struct_yaml_tokens. Qed.
(* outside the non-empty domain the statement fails, for the model as for the code (D15) *)
Theorem C12_struct_yaml_refuted : exists t, stree_all (forallb tokc) t = true /\ yaml_parse (yaml_print t) <> Some t.
Proof. exact C12_struct_yaml_empty_refuted. Qed.
Example C12_struct_yaml_example :
  yaml_domain example_ytree /\
  yaml_parse_s (list Z) Some (yaml_print_s (list Z) (fun x => x) example_ytree) = Some example_ytree.
Proof. exact C12_struct_yaml_inhabited. Qed.

(* plist: strings and keys any text without markup characters or white space (empty allowed), integer and real
   tokens non-empty, booleans, arrays and dictionaries of any nesting (empty allowed) *)
Theorem C12_struct_plist : forall t, plist_domain t -> plist_parse (plist_print t) = Some t.
Proof. exact C12_struct_plist_all. Qed.
Theorem C12_struct_plist_refuted : exists t, plist_parse (plist_print t) <> Some t.
Proof. exact C12_struct_plist_markup_refuted. Qed.
Example C12_struct_plist_example :
  plist_domain example_ptree /\ plist_parse (plist_print example_ptree) = Some example_ptree.
Proof. exact C12_struct_plist_inhabited. Qed.

(* XML: names, attribute values and text without markup characters or white space (text non-empty or absent, so
   "modulo surrounding white space" is plain equality here), any nesting *)
Theorem C12_struct_xml : forall t, xml_domain t -> xml_parse (xml_print t) = Some t.
Proof. exact C12_struct_xml_all. Qed.
Example C12_struct_xml_example :
  xml_domain example_xtree /\ xml_parse (xml_print example_xtree) = Some example_xtree.
Proof. exact C12_struct_xml_inhabited. Qed.

Print Assumptions C12_json.
Print Assumptions C12_json_string.
Print Assumptions C12_json5.
Print Assumptions C12_json5_refuted.
Print Assumptions C12_csv.
Print Assumptions C12_csv_refuted.
Print Assumptions C12_struct_yaml.
Print Assumptions C12_struct_yaml_tok.
Print Assumptions C12_struct_plist.
Print Assumptions C12_struct_xml.
