(* C20 - malformed input is reported, not crashed on.
   Statements only; proofs live in GT.HandlersProofs.  `handler`, `main_on_error`, `class_ok`,
   `handler_total` are assembled from the tables translated from /repo on every run
   (GTgen.HandlersGen: except clauses and f-strings of every build_tree_handling_errors, the exception
   class lattice by reflection, main()'s error blocks).  In the general lemmas `raises` - the
   exception classes a loader raises on malformed bytes - is an explicit parameter; C20_full is the
   property itself, unconditional, for HandlersSpec.raises_table (established by the fault
   enumeration of harness/pC20.py, which checks every observed class against it) and the handlers of
   the CURRENT source: its totality premise is discharged by computation over the translated tables,
   so a handler that stops covering a tabulated class (D13 a-d coming back) makes GT.HandlersProofs
   fail to compile, and the harness then searches the failing input.  No finding is open: no carve-out. *)
From Coq Require Import String List Bool ZArith.
Require Import GT.PyBase GT.HandlersSpec GTgen.HandlersGen GT.HandlersModel GT.HandlersProofs.
Import ListNotations.
Open Scope string_scope.

(* an exception whose class the handler covers: a message naming the file goes to stderr, nothing to
   stdout, the status is non-zero, nothing escapes - for either file position *)
Theorem C20_class : forall ft e path pos, class_ok ft (e_class e) = true ->
  exists m st err,
    handler ft path e = Message m
    /\ contains (basename path) m = true
    /\ main_on_error pos (Message m) = Exit st "" err
    /\ st <> 0%Z
    /\ err = render_writes m (me_writes (main_err_of pos))
    /\ contains (basename path) err = true
    /\ reported path (main_on_error pos (handler ft path e)) = true.
Proof. exact HandlersProofs.C20_class. Qed.

(* per file type: if the (computed) handler covers every class the loader raises, every malformed
   file of that type is reported *)
Theorem C20_ft : forall (raises : string -> list string) ft, handler_total raises ft = true ->
  forall e path pos, In (e_class e) (raises ft) ->
  exists m st err,
    handler ft path e = Message m
    /\ contains (basename path) m = true
    /\ main_on_error pos (Message m) = Exit st "" err
    /\ st <> 0%Z
    /\ err = render_writes m (me_writes (main_err_of pos))
    /\ contains (basename path) err = true
    /\ reported path (main_on_error pos (handler ft path e)) = true.
Proof. exact HandlersProofs.C20_ft. Qed.

(* the full statement, for all text formats *)
Theorem C20_all : forall (raises : string -> list string),
  forallb (handler_total raises) text_types = true ->
  forall ft, In ft text_types -> forall e path pos, In (e_class e) (raises ft) ->
  exists m st err,
    handler ft path e = Message m
    /\ contains (basename path) m = true
    /\ main_on_error pos (Message m) = Exit st "" err
    /\ st <> 0%Z
    /\ err = render_writes m (me_writes (main_err_of pos))
    /\ contains (basename path) err = true
    /\ reported path (main_on_error pos (handler ft path e)) = true.
Proof. exact HandlersProofs.C20_all. Qed.

(* main()'s two error blocks write the message to stderr, return non-zero, and return before any diff *)
Theorem C20_main_path : main_ok = true.
Proof. exact main_path_ok. Qed.

(* whatever message a handler returns, main() reports it: stderr contains what the message contains *)
Theorem C20_message_names_file : forall pos path m, contains (basename path) m = true ->
  reported path (main_on_error pos (Message m)) = true.
Proof. exact reported_message. Qed.

(* an exception that escapes the handler and is not caught by main() is a crash *)
Theorem C20_escape : forall ft path pos e x,
  handler ft path e = Escapes x -> main_catch x = None ->
  main_on_error pos (handler ft path e) = Crash x /\
  reported path (main_on_error pos (handler ft path e)) = false.
Proof. exact escape_not_reported. Qed.

(* handler_total is exact about escapes: a listed failure (c, SEscapes x) means every exception of
   class c crashes main() *)
Theorem C20_total_sound : forall (raises : string -> list string) ft c x,
  In (c, SEscapes x) (failures raises ft) -> main_catch x = None ->
  In c (raises ft) /\
  forall e path pos, e_class e = c ->
    main_on_error pos (handler ft path e) = Crash x /\
    reported path (main_on_error pos (handler ft path e)) = false.
Proof. exact total_false_escape. Qed.

(* THE PROPERTY, unconditional: for every text format, every exception class its loader raises on
   malformed bytes, either file position and every path: the handler of the current source returns
   a message containing the file's name, main() writes it to standard error, writes nothing to
   standard output (no diff), returns a non-zero status, and nothing escapes *)
Theorem C20_full : forall ft e path pos, In ft text_types -> In (e_class e) (raises_table ft) ->
  exists m st err,
    handler ft path e = Message m
    /\ contains (basename path) m = true
    /\ main_on_error pos (Message m) = Exit st "" err
    /\ st <> 0%Z
    /\ err = render_writes m (me_writes (main_err_of pos))
    /\ contains (basename path) err = true
    /\ reported path (main_on_error pos (handler ft path e)) = true.
Proof. exact HandlersProofs.C20_full. Qed.

(* its premise, on its own: the translated handlers cover the whole table *)
Theorem C20_table_total : forallb (handler_total raises_table) text_types = true.
Proof. exact table_total. Qed.

(* transfer to the observed runs: a case whose loader exception is tabulated and on which main() did
   what the model says satisfies the executable statement of the property *)
Theorem C20_transfer : forall c, In (c_ft c) text_types -> corr_C20 c = true -> holds_C20 c = true.
Proof. exact HandlersProofs.C20_transfer. Qed.

Print Assumptions C20_class.
Print Assumptions C20_ft.
Print Assumptions C20_all.
Print Assumptions C20_full.
Print Assumptions C20_table_total.
Print Assumptions C20_transfer.
Print Assumptions C20_main_path.
Print Assumptions C20_escape.
Print Assumptions C20_message_names_file.
Print Assumptions C20_total_sound.
