(* C13 - any input type can be rendered in any output format and mode (statements only).
   it : input type, ds : dictionary strategy (auto / match / none = -k), of : output format, m : mode. *)
From Coq Require Import String List Bool.
Require Import GT.PyBase GT.DispatchSpec GT.DispatchModel GT.DispatchProofs.
Import ListNotations.
Open Scope string_scope.

(* reachability of (formatter instance, class) covers every tree produced by an input type, of any size *)
Theorem C13_cover : forall it ds of m t c x,
  In it input_types -> In of input_types -> renders it ds of m t c x ->
  In c (reach TB (grammar_o TB it ds) (root_class TB of) m) /\ fits (grammar_o TB it ds) c x = true.
Proof. exact DispatchProofs.C13_cover. Qed.

(* dispatch totality *)
Theorem C13_dispatch_total : forall it ds of m t c x,
  In it input_types -> In of input_types -> renders it ds of m t c x ->
  exists f meth ow, resolve TB (mro_of TB (c_cls c)) (Some (c_f c)) = RFound f meth /\
                    has_print TB (fcls f) meth = Some ow.
Proof. exact DispatchProofs.C13_dispatch_total. Qed.

(* no unbounded re-dispatch of the same item *)
Theorem C13_no_loop : forall it ds of m t c x,
  In it input_types -> In of input_types -> renders it ds of m t c x -> sloop TB c = false.
Proof. exact DispatchProofs.C13_no_loop. Qed.

(* the property outside the known-finding classes (delimited by the model itself) *)
Theorem C13_partial : forall it ds of m,
  In it input_types -> In of input_types ->
  kf_reparent_cfg TB (grammar_o TB it ds) (root_class TB of) m = false ->
  kf_emit_cfg TB (grammar_o TB it ds) (root_class TB of) m = false ->
  forall t c x, renders it ds of m t c x -> node_ok TB (grammar_o TB it ds) c x = true.
Proof. exact DispatchProofs.C13_partial. Qed.

Theorem C13_edits_mode : forall it ds of t c x, ~ renders it ds of MEdits t c x.
Proof. exact DispatchProofs.C13_edits_mode. Qed.

(* the full-strength statement is false on this tree: D9 and D19 *)
Theorem C13_refuted :
  (exists c x, renders "xml" DSAuto "json" MDiff xml_doc c x /\ node_ok TB (grammar_o TB "xml" DSAuto) c x = false) /\
  (exists c x, renders "json" DSAuto "plist" MDiff null_doc c x /\ node_ok TB (grammar_o TB "json" DSAuto) c x = false) /\
  (exists c x, renders "json" DSAuto "yaml" MDigest kvp_doc c x /\ node_ok TB (grammar_o TB "json" DSAuto) c x = false).
Proof. exact DispatchProofs.C13_refuted. Qed.

Print Assumptions C13_cover.
Print Assumptions C13_dispatch_total.
Print Assumptions C13_no_loop.
Print Assumptions C13_partial.
Print Assumptions C13_edits_mode.
Print Assumptions C13_refuted.
