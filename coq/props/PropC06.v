(* C06 - placeholder while the proofs are being written *)
Require Import GT.RenderSpec GT.RenderModel.
