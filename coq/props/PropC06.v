(* C06 - both documents can be read back from the rendered diff.
   Statements only; proofs live in GT.RenderProofs (all scripts) and GT.RenderScriptProofs (the model's scripts).
   jrender / tprint / nproj: GT.RenderModel (model of JSONFormatter's annotated output, tied to the code by
   byte-exact correspondence on every run); erase / marks / no_marks / toks / sim ("~": equal token lists, commas
   and whitespace outside strings only separate) / reads_as (the lenient reader's result equals the document up
   to the order of mapping members) / holds_C06: GT.RenderSpec; script: GT.ScriptModel (the model of the diff);
   valid (C01), additive (C03): GT.ScriptSpec; priced, typed, nozero, numtext_ok: GT.EqualSpec (C02). *)
From Coq Require Import List Bool ZArith.
Require Import GT.PyBase GT.Data GT.ScriptSpec GT.ScriptModel GT.EqualSpec GT.EqualProofs GT.JsonSpec GT.JsonModel
               GT.RenderSpec GT.RenderModel GT.RenderProofs GT.RenderScriptProofs.
Import ListNotations.
Open Scope Z_scope.

(* ================================================================== the model's own scripts
   For every oracle, every pair of well-formed documents json.loads can produce (jdoc: JSON-shaped tree, JSON-domain
   value as in C12) and every layout: if the model of the diff produces the script e, then in the model's rendering
   of e deleting the inserted characters leaves text that reads as the first document, deleting the removed ones
   leaves text that reads as the second, and there are no change marks exactly when the cost is 0.
   The ONLY other hypotheses are the classes of the three open findings:
     typed a b          no scalar of a is Python-== to a scalar of b without being equal as data      (D4)
     nozero a, nozero b no list consisting of leaves only contains "" or null                          (D16)
     clean false a e    no mapping that is an element of a list is replaced by the script              (D33)
   each necessary: C06_model_refuted_D4 / _D16 / _D33 below (model scripts; the same inputs are in corpus/C06.jsonl
   and are reported as KNOWN-FINDING by the run). *)
Theorem C06_model : forall O pa pb lay a b e,
  wf a = true -> wf b = true -> jdoc a -> jdoc b -> numtext_ok a = true -> numtext_ok b = true ->
  script O pa pb a b = OK e ->
  typed a b = true -> nozero a = true -> nozero b = true -> clean false a e = true ->
  reads_as (erase Inserted (jrender lay a b e)) a = true /\
  reads_as (erase Removed (jrender lay a b e)) b = true /\
  (no_marks (jrender lay a b e) = true <-> cost e = 0).
Proof. exact C06_model_all. Qed.

(* with the D33 carve-out stated on the first document alone (nomil a: no mapping is an element of a list) *)
Theorem C06_model_docs : forall O pa pb lay a b e,
  wf a = true -> wf b = true -> jdoc a -> jdoc b -> numtext_ok a = true -> numtext_ok b = true ->
  script O pa pb a b = OK e ->
  typed a b = true -> nozero a = true -> nozero b = true -> nomil a = true ->
  reads_as (erase Inserted (jrender lay a b e)) a = true /\
  reads_as (erase Removed (jrender lay a b e)) b = true /\
  (no_marks (jrender lay a b e) = true <-> cost e = 0).
Proof. exact C06_model_docs_all. Qed.

(* the first two clauses need only the D4 and D33 carve-outs, the third only the D16 carve-out *)
Theorem C06_model_text : forall O pa pb lay a b e,
  wf a = true -> wf b = true -> jdoc a -> jdoc b -> script O pa pb a b = OK e ->
  typed a b = true -> clean false a e = true ->
  reads_as (erase Inserted (jrender lay a b e)) a = true /\
  reads_as (erase Removed (jrender lay a b e)) b = true.
Proof. exact C06_model_text_all. Qed.

Theorem C06_model_marks : forall O pa pb lay a b e,
  wf a = true -> wf b = true -> jdoc a -> jdoc b -> numtext_ok a = true -> numtext_ok b = true ->
  script O pa pb a b = OK e -> nozero a = true -> nozero b = true ->
  (no_marks (jrender lay a b e) = true <-> cost e = 0).
Proof. exact C06_model_marks_all. Qed.

(* the executable statement the harness evaluates on the implementation's decoded output (holds_C06: both
   projections read as the documents, no marks iff equal as data) is true of the model's output *)
Theorem C06_model_holds : forall O pa pb lay a b e ft ec obs,
  wf a = true -> wf b = true -> jdoc a -> jdoc b -> numtext_ok a = true -> numtext_ok b = true -> consistent a b = true ->
  script O pa pb a b = OK e ->
  typed a b = true -> nozero a = true -> nozero b = true -> clean false a e = true ->
  classify obs = Some (jrender lay a b e) ->
  holds_C06 {| rc_lay := lay;
               rc_script := {| sc_a := a; sc_b := b; sc_edit := e; sc_flat_total := ft; sc_edited_cost := ec |};
               rc_obs := obs |} = true.
Proof. exact C06_model_holds_all. Qed.

Theorem C06_model_refuted_D4 : exists a b e,
  hyps_C06 a b = true /\ script no_oracle [] [] a b = OK e /\ nozero a = true /\ nozero b = true /\
  clean false a e = true /\ typed a b = false /\
  reads_as (erase Removed (jrender (true, true) a b e)) b = false.
Proof. exact RenderScriptProofs.C06_model_refuted_D4. Qed.

Theorem C06_model_refuted_D16 : exists a b e,
  hyps_C06 a b = true /\ script no_oracle [] [] a b = OK e /\ typed a b = true /\ clean false a e = true /\
  nozero a = false /\ cost e = 0 /\ no_marks (jrender (true, true) a b e) = false.
Proof. exact RenderScriptProofs.C06_model_refuted_D16. Qed.

Theorem C06_model_refuted_D33 : exists a b e,
  hyps_C06 a b = true /\ script no_oracle [] [] a b = OK e /\ typed a b = true /\ nozero a = true /\ nozero b = true /\
  clean false a e = false /\
  reads_as (erase Inserted (jrender (true, true) a b e)) a = false /\
  reads_as (erase Removed (jrender (true, true) a b e)) b = false.
Proof. exact RenderScriptProofs.C06_model_refuted_D33. Qed.

(* the hypotheses are satisfiable by a non-trivial pair: {"a": [1, "x"], "b": null} against {"b": null, "a": [1, "y"]}
   (a mapping edit with reordered members) *)
Example C06_model_example : forall lay, exists e,
  script no_oracle [] [] (ex_doc true 120) (ex_doc false 121) = OK e /\ cost e = 2 /\
  reads_as (erase Inserted (jrender lay (ex_doc true 120) (ex_doc false 121) e)) (ex_doc true 120) = true /\
  reads_as (erase Removed (jrender lay (ex_doc true 120) (ex_doc false 121) e)) (ex_doc false 121) = true /\
  no_marks (jrender lay (ex_doc true 120) (ex_doc false 121) e) = false.
Proof. exact RenderScriptProofs.C06_model_example. Qed.

(* ================================================================== every well-priced script
   The same for ANY script e for (a, b) - in particular the implementation's - that is valid (C01), additive (C03),
   priced as the edit classes price their edits (EqualSpec.priced: what C02 evaluates on every implementation
   script) and shaped (string edits are between strings, a KeyValuePairEdit lists its key edit and its value edit). *)
Theorem C06_priced_text : forall lay a b e,
  jdoc a -> jdoc b -> valid a b e = true -> priced a b e = true -> shaped a b e = true ->
  typed a b = true -> clean false a e = true ->
  reads_as (erase Inserted (jrender lay a b e)) a = true /\
  reads_as (erase Removed (jrender lay a b e)) b = true.
Proof. exact C06_priced_text_all. Qed.

Theorem C06_priced_marks : forall lay a b e,
  jdoc a -> jdoc b -> numtext_ok a = true -> numtext_ok b = true ->
  valid a b e = true -> additive e = true -> priced a b e = true -> shaped a b e = true ->
  nozero a = true -> nozero b = true ->
  (no_marks (jrender lay a b e) = true <-> cost e = 0).
Proof. exact C06_priced_marks_all. Qed.

(* The bridge to the implementation.  thm_C06 c (RenderModel, evaluated on every case of every run; the count is in
   the evidence) = the documents are JSON documents, the implementation's own script is valid, additive, priced and
   shaped, and the case is outside the D4 / D16 / D33 classes; corr_C06 c = the decoded output of the real
   JSONFormatter equals the model's rendering of that script.  For such a case the clauses of holds_C06 are theorems. *)
Theorem C06_bridge : forall c, thm_C06 c = true -> corr_C06 c = true ->
  holds_C06_first c = true /\ holds_C06_second c = true /\
  exists st, classify (rc_obs c) = Some st /\ (no_marks st = true <-> cost (sc_edit (rc_script c)) = 0).
Proof. exact C06_bridge_all. Qed.

(* ... and for any valid script, mapping edits included, whose zero-cost matches pair members that are alike (same
   key, same document up to member order) and whose string edits are between strings (Fair) *)
Theorem C06_text : forall lay a b e,
  tok_ok a = true -> tok_ok b = true -> clean false a e = true ->
  valid a b e = true -> Fair a b e -> kvp2 e = true -> jdoc a -> jdoc b ->
  reads_as (erase Inserted (jrender lay a b e)) a = true /\
  reads_as (erase Removed (jrender lay a b e)) b = true.
Proof. exact C06_text_all. Qed.

(* ================================================================== all scripts, token level
   For all trees, all scripts (valid or not) outside the D33 shape, and all layouts: deleting the inserted characters
   leaves, token for token, the plain print of the document  nproj false a b e  that the script spells for the
   first side (a's children where matched at a cost or removed, in script order); deleting the removed ones leaves
   the print of  nproj true a b e.  Hypotheses: numbers print as non-empty atoms, string characters are non-negative
   code points (tok_ok, edit_ok; edit_ok follows from valid and Fair / Faithful: C06_edit_ok). *)
Theorem C06_first : forall lay a b e, tok_ok a = true -> tok_ok b = true -> edit_ok e = true ->
  clean false a e = true ->
  toks (erase Inserted (jrender lay a b e)) = ttoks (nproj false a b e).
Proof. exact C06_first_all. Qed.

Theorem C06_second : forall lay a b e, tok_ok a = true -> tok_ok b = true -> edit_ok e = true ->
  clean false a e = true ->
  toks (erase Removed (jrender lay a b e)) = ttoks (nproj true a b e).
Proof. exact C06_second_all. Qed.

Theorem C06_edit_ok : forall R e a b, tok_ok a = true -> tok_ok b = true -> valid a b e = true -> FaithG R a b e ->
  edit_ok e = true.
Proof. exact valid_edit_ok. Qed.

(* the projection is the document up to the order of mapping members (same key, same canonical value, JSON-shaped) *)
Theorem C06_nproj : forall side a b e, good a -> good b -> valid a b e = true -> Fair a b e -> kvp2 e = true ->
  same (nproj side a b e) (if side then b else a).
Proof. exact nproj_same. Qed.

(* ttoks is the token list of the plain print, in every layout and at every indentation *)
Theorem C06_ttoks : forall lay n t, tok_ok t = true -> toks (tprint lay n t) = ttoks t.
Proof. exact toks_tprint. Qed.

(* The rendering carries no change marks exactly when the script shows nothing (qn), and for a valid (C01),
   additive (C03) script whose removals and insertions cost something: exactly when its cost is 0. *)
Theorem C06_marks : forall lay a b e, tok_ok a = true -> tok_ok b = true ->
  (marks (jrender lay a b e) = [] <-> qn a e = true).
Proof. exact C06_marks_all. Qed.

Theorem C06_marks_cost : forall lay a b e, tok_ok a = true -> tok_ok b = true ->
  valid a b e = true -> kvp2 e = true -> additive e = true -> pos_costs e = true ->
  (marks (jrender lay a b e) = [] <-> cost e = 0).
Proof. exact C06_marks_cost_all. Qed.

(* Ordered containers (lists, leaves, strings, key/value pairs): both projections are the plain prints of the documents
   TOKEN FOR TOKEN ("~"), for every valid script whose zero-cost matches pair nodes that print alike.  (The name is
   kept from the first round; the statement is complete for ordered scripts and no longer assumes edit_ok.  With
   mapping edits the members appear in script order, so "~" is replaced by reads_as: C06_text / C06_model above.) *)
Theorem C06_text_partial : forall lay a b e,
  tok_ok a = true -> tok_ok b = true -> clean false a e = true ->
  valid a b e = true -> Faithful a b e -> ordered_only e = true -> kvp2 e = true ->
  sim (erase Inserted (jrender lay a b e)) (tprint lay 0 a) /\
  sim (erase Removed (jrender lay a b e)) (tprint lay 0 b).
Proof. exact C06_ordered_valid_all. Qed.

(* The corollaries through C12 (jparse_lenient = C12's strict reader on the comma-repaired token list):
   every projection reads as the document the script spells for that side; for valid scripts over ordered
   containers that is the document itself, member for member. *)
Theorem C06_reads : forall side lay a b e, tok_ok a = true -> tok_ok b = true -> edit_ok e = true ->
  clean false a e = true ->
  jshape (nproj side a b e) = true -> is_kvp (nproj side a b e) = false ->
  jwfb false (value_of (nproj side a b e)) = true ->
  jparse_lenient (erase (em side) (jrender lay a b e)) = Some (value_of (nproj side a b e)).
Proof. exact C06_reads_all. Qed.

Theorem C06_reads_ordered_partial : forall lay a b e,
  tok_ok a = true -> tok_ok b = true -> clean false a e = true ->
  valid a b e = true -> Faithful a b e -> ordered_only e = true -> kvp2 e = true ->
  (jshape a = true -> is_kvp a = false -> jwfb false (value_of a) = true ->
   jparse_lenient (erase Inserted (jrender lay a b e)) = Some (value_of a)) /\
  (jshape b = true -> is_kvp b = false -> jwfb false (value_of b) = true ->
   jparse_lenient (erase Removed (jrender lay a b e)) = Some (value_of b)).
Proof. exact C06_reads_ordered_valid_all. Qed.

(* necessity of the hypotheses at the script level = the open findings: D33 (a mapping replaced as an element of a
   list is printed from -> to -> to), D4 (zero-cost match of 1 and 1.0) and D16 (zero-cost removal) *)
Theorem C06_text_refuted_D23 :
  exists lay a b e, tok_ok a = true /\ tok_ok b = true /\ edit_ok e = true /\ valid a b e = true /\
                    Faithful a b e /\ ordered_only e = true /\ kvp2 e = true /\ additive e = true /\
                    ~ sim (erase Inserted (jrender lay a b e)) (tprint lay 0 a) /\
                    ~ sim (erase Removed (jrender lay a b e)) (tprint lay 0 b) /\
                    jparse_lenient (erase Inserted (jrender lay a b e)) = None.
Proof. exact C06_mapping_replaced_refuted. Qed.

Theorem C06_text_refuted_D4 :
  exists lay a b e, tok_ok a = true /\ tok_ok b = true /\ edit_ok e = true /\ valid a b e = true /\
                    ordered_only e = true /\ kvp2 e = true /\
                    ~ sim (erase Removed (jrender lay a b e)) (tprint lay 0 b).
Proof. exact C06_zero_cost_match_refuted. Qed.

Theorem C06_marks_cost_refuted_D16 :
  exists lay a b e, tok_ok a = true /\ tok_ok b = true /\ valid a b e = true /\ kvp2 e = true /\ additive e = true /\
                    cost e = 0 /\ marks (jrender lay a b e) <> [].
Proof. exact C06_marks_cost_refuted. Qed.

Example C06_hypotheses_example :
  tok_ok ex_a = true /\ tok_ok ex_b = true /\ edit_ok ex_e = true /\ valid ex_a ex_b ex_e = true /\
  Faithful ex_a ex_b ex_e /\ ordered_only ex_e = true /\ kvp2 ex_e = true /\ additive ex_e = true /\
  pos_costs ex_e = true /\ clean false ex_a ex_e = true /\
  cost ex_e <> 0 /\ marks (jrender (false, false) ex_a ex_b ex_e) <> [].
Proof. exact C06_hypotheses_inhabited. Qed.

Print Assumptions C06_model.
Print Assumptions C06_model_docs.
Print Assumptions C06_model_text.
Print Assumptions C06_model_marks.
Print Assumptions C06_model_holds.
Print Assumptions C06_priced_text.
Print Assumptions C06_priced_marks.
Print Assumptions C06_bridge.
Print Assumptions C06_text.
Print Assumptions C06_first.
Print Assumptions C06_second.
Print Assumptions C06_marks.
Print Assumptions C06_marks_cost.
Print Assumptions C06_text_partial.
Print Assumptions C06_reads.
Print Assumptions C06_reads_ordered_partial.
