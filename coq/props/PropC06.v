(* C06 - both documents can be read back from the rendered diff.
   Statements only; proofs live in GT.RenderProofs.  jrender / tprint / nproj: GT.RenderModel (model of
   JSONFormatter's annotated output, tied to the code by byte-exact correspondence on every run);
   erase / marks / toks / sim ("~": equal token lists, commas and whitespace outside strings only separate):
   GT.RenderSpec. *)
From Coq Require Import List Bool ZArith.
Require Import GT.PyBase GT.Data GT.ScriptSpec GT.JsonSpec GT.JsonModel GT.RenderSpec GT.RenderModel GT.RenderProofs.
Import ListNotations.
Open Scope Z_scope.

(* For all trees, all scripts (valid or not) outside the D33 shape, and all layouts: deleting the inserted characters leaves, token
   for token, the plain print of the document  nproj false a b e  that the script spells for the first side
   (a's children where matched at a cost or removed, in script order); deleting the removed ones leaves the
   print of  nproj true a b e.  Hypotheses: numbers print as non-empty atoms, string characters are
   non-negative code points (tok_ok, edit_ok); no list element that is a mapping is replaced (clean: the
   carve-out of finding D33, see C06_text_refuted_D23). *)
Theorem C06_first : forall lay a b e, tok_ok a = true -> tok_ok b = true -> edit_ok e = true ->
  clean false a e = true ->
  toks (erase Inserted (jrender lay a b e)) = ttoks (nproj false a b e).
Proof. exact C06_first_all. Qed.

Theorem C06_second : forall lay a b e, tok_ok a = true -> tok_ok b = true -> edit_ok e = true ->
  clean false a e = true ->
  toks (erase Removed (jrender lay a b e)) = ttoks (nproj true a b e).
Proof. exact C06_second_all. Qed.

(* ttoks is the token list of the plain print, in every layout and at every indentation *)
Theorem C06_ttoks : forall lay n t, tok_ok t = true -> toks (tprint lay n t) = ttoks t.
Proof. exact toks_tprint. Qed.

(* The rendering carries no change marks exactly when the script shows nothing (qn), and for a valid (C01),
   additive (C03) script whose removals and insertions cost something: exactly when its cost is 0. *)
Theorem C06_marks : forall lay a b e, tok_ok a = true -> tok_ok b = true ->
  (marks (jrender lay a b e) = [] <-> qn a e = true).
Proof. exact C06_marks_all. Qed.

Theorem C06_marks_cost : forall lay a b e, tok_ok a = true -> tok_ok b = true ->
  valid a b e = true -> kvp2 e = true -> additive e = true -> pos_costs e = true ->
  (marks (jrender lay a b e) = [] <-> cost e = 0).
Proof. exact C06_marks_cost_all. Qed.

(* Both projections ARE the documents (up to "~"), for every valid script over ordered containers (lists,
   leaves, strings, key/value pairs) whose zero-cost matches pair nodes that print alike.
   PARTIAL: for scripts containing mapping edits (KMultiSet / KFixedDict) C06_first / C06_second / C06_reads give
   the exact document each projection spells and reads as (members in script order); that this document equals
   a resp. b up to the order of mapping members (jv_equiv (value_of (nproj side a b e)) (value_of a)) is not
   proved - it is evaluated on every implementation output by holds_C06. *)
Theorem C06_text_partial : forall lay a b e,
  tok_ok a = true -> tok_ok b = true -> edit_ok e = true -> clean false a e = true ->
  valid a b e = true -> Faithful a b e -> ordered_only e = true -> kvp2 e = true ->
  sim (erase Inserted (jrender lay a b e)) (tprint lay 0 a) /\
  sim (erase Removed (jrender lay a b e)) (tprint lay 0 b).
Proof. exact C06_ordered_partial_all. Qed.

(* The corollaries through C12 (jparse_lenient = C12's strict reader on the comma-repaired token list):
   every projection reads as the document the script spells for that side; for valid scripts over ordered
   containers that is the document itself.  json-shaped trees (jshape), JSON-domain values (jwfb false). *)
Theorem C06_reads : forall side lay a b e, tok_ok a = true -> tok_ok b = true -> edit_ok e = true ->
  clean false a e = true ->
  jshape (nproj side a b e) = true -> is_kvp (nproj side a b e) = false ->
  jwfb false (value_of (nproj side a b e)) = true ->
  jparse_lenient (erase (em side) (jrender lay a b e)) = Some (value_of (nproj side a b e)).
Proof. exact C06_reads_all. Qed.

Theorem C06_reads_ordered_partial : forall lay a b e,
  tok_ok a = true -> tok_ok b = true -> edit_ok e = true -> clean false a e = true ->
  valid a b e = true -> Faithful a b e -> ordered_only e = true -> kvp2 e = true ->
  (jshape a = true -> is_kvp a = false -> jwfb false (value_of a) = true ->
   jparse_lenient (erase Inserted (jrender lay a b e)) = Some (value_of a)) /\
  (jshape b = true -> is_kvp b = false -> jwfb false (value_of b) = true ->
   jparse_lenient (erase Removed (jrender lay a b e)) = Some (value_of b)).
Proof. exact C06_reads_ordered_all. Qed.

(* necessity of the hypotheses = the open findings: D33 (a mapping replaced as an element of a list is printed
   from -> to -> to), D4 (zero-cost match of 1 and 1.0) and D16 (zero-cost removal) *)
Theorem C06_text_refuted_D23 :
  exists lay a b e, tok_ok a = true /\ tok_ok b = true /\ edit_ok e = true /\ valid a b e = true /\
                    Faithful a b e /\ ordered_only e = true /\ kvp2 e = true /\ additive e = true /\
                    ~ sim (erase Inserted (jrender lay a b e)) (tprint lay 0 a) /\
                    ~ sim (erase Removed (jrender lay a b e)) (tprint lay 0 b) /\
                    jparse_lenient (erase Inserted (jrender lay a b e)) = None.
Proof. exact C06_mapping_replaced_refuted. Qed.

Theorem C06_text_refuted_D4 :
  exists lay a b e, tok_ok a = true /\ tok_ok b = true /\ edit_ok e = true /\ valid a b e = true /\
                    ordered_only e = true /\ kvp2 e = true /\
                    ~ sim (erase Removed (jrender lay a b e)) (tprint lay 0 b).
Proof. exact C06_zero_cost_match_refuted. Qed.

Theorem C06_marks_cost_refuted_D16 :
  exists lay a b e, tok_ok a = true /\ tok_ok b = true /\ valid a b e = true /\ kvp2 e = true /\ additive e = true /\
                    cost e = 0 /\ marks (jrender lay a b e) <> [].
Proof. exact C06_marks_cost_refuted. Qed.

Example C06_hypotheses_example :
  tok_ok ex_a = true /\ tok_ok ex_b = true /\ edit_ok ex_e = true /\ valid ex_a ex_b ex_e = true /\
  Faithful ex_a ex_b ex_e /\ ordered_only ex_e = true /\ kvp2 ex_e = true /\ additive ex_e = true /\
  pos_costs ex_e = true /\ clean false ex_a ex_e = true /\
  cost ex_e <> 0 /\ marks (jrender (false, false) ex_a ex_b ex_e) <> [].
Proof. exact C06_hypotheses_inhabited. Qed.

Print Assumptions C06_first.
Print Assumptions C06_second.
Print Assumptions C06_marks.
Print Assumptions C06_marks_cost.
Print Assumptions C06_text_partial.
Print Assumptions C06_reads.
Print Assumptions C06_reads_ordered_partial.
