(* C04 - cost bounds only tighten, stay sound, and converge.
   `ContractV true M s v` (MachineSpec.v): there is an invariant containing the state s, closed under
   tighten_bounds(), such that from every state of it: the interval does not widen, it contains the final value v,
   a call that returns True has changed (hence strictly shrunk) it, a call returns False only on an interval that
   already is a single value and leaves it unchanged.  Termination within `width` True steps and the executable
   statement holds_events on the observer's trace follow (C04_terminates, C04_trace).
   Machines (MachineModel.v) mirror bounds()/tighten_bounds() of each class as written, parameterised by the
   children's machines.  `ContractV false` is the weak reading of the last clause (False => single value afterwards);
   every class lemma only needs it of the children.
   Classes with a machine-checked contract: ConstantCostEdit, the component-wise sum (KeyValuePairEdit; XMLElementEdit,
   DataClassEdit, PyObjEdit are the same combinator), repeat_until_tightened + FixedLengthSequenceEdit, EditDistance
   (StringEdit is a pure delegation to an EditDistance over constant children), EditCollection / FixedKeyDictNodeEdit
   (C04_collection), WeightedBipartiteMatcher (C04_matcher; bracket lemmas C04_bracket_lo, C04_bracket_hi), MultiSetEdit (C04_multiset),
   matching.Edge (a pure delegation: edgeM C is C), and their arbitrary nesting over documents (C04_docs).
   make_distinct and the assignment solver are oracles (any number of tighten_bounds() calls per edge; any assignment, used
   if it is a full matching, else the diagonal): the theorems hold for ALL answers.
   Multisets with repeated elements are outside the domain (open finding D36: the matcher's node-keyed dictionaries
   collapse duplicates); so are FixedKeyDictNodeEdits whose children's initial upper bounds exceed the edit's own
   cost_upper_bound (a computed guard inside initO).  For documents without multisets (dictionary strategy none) the guard
   is PROVED to pass for ALL well-formed documents on the current source (C04_docs_none_all; it rests on LeafNode.edits
   capping the cost of a Match of two leaves by the cost of a Replace - the repair of defect D41 - which enters as the
   translated constant leaf_match_cost_capped, discharged here by reflexivity: reverting the source breaks THIS file).
   Independently of the cap it passes when the target holds no null leaf or every list has the default options
   (C04_docs_none); the former counter-example outside both conditions now initialises (C04_guard_witness_repaired).
   For mappings under auto / match (MultiSetEdit as a child of a FixedKeyDictNodeEdit cannot come from files; a
   MultiSetEdit's initial upper bound, the sum of the largest row maxima of its matcher, is not bounded by the sizes of the
   two nodes) C04_docs stays conditional on the computed guard.
   IterativeTighteningSearch (C04_search): the contract for the model of search.py in SearchModel.v (tied to the code by
   C17's trace correspondence), over any finite collection of items whose own bounds are sound and strictly shrink on
   every True (schedules), for all heap tie-break hints.  PossibleEdits delegates bounds()/tighten_bounds() to its search;
   the pruning of invalid alternatives in its `valid` property is not modelled (validated by trace only). *)
From Coq Require Import ZArith List Bool.
Require Import GT.Data GT.EdEngine GT.ScriptModel GT.MachineSpec GT.MachineGuardSpec GT.MachineModel GT.MachinePlist GT.MachineCore GT.MachineColl
               GT.MachineMatch GT.MachineProofs GT.MachineGuard.
Import ListNotations.
Open Scope Z_scope.

Theorem C04_trace : forall M s v fuel, ContractV true M s v -> (Z.to_nat (width (bnd M s)) < fuel)%nat ->
  holds_events (trace_of M fuel s) = true.
Proof. exact contract_trace_holds. Qed.

Theorem C04_terminates : forall k M s v, ContractV k M s v ->
  exists n, (n <= Z.to_nat (width (bnd M s)))%nat /\
            snd (tig M (steps M n s)) = false /\ bnd M (fst (tig M (steps M n s))) = (v, v) /\
            forall i, (i < n)%nat -> snd (tig M (steps M i s)) = true.
Proof. exact contract_terminates. Qed.

Theorem C04_const : forall c, ContractV true constM c c.
Proof. exact const_contract. Qed.

Theorem C04_sum : forall k C l vs, Forall2 (fun s v => ContractV k C s v) l vs -> ContractV k (sumM C) l (zsum vs).
Proof. exact sum_contract. Qed.

Theorem C04_fixed_len : forall k C l vs x, Forall2 (fun s v => ContractV k C s v) l vs ->
  ContractV true (fixedM C) (l, x) (zsum vs + x).
Proof. exact fixed_contract. Qed.

(* EditDistance as constructed by __init__ from the full remove / insert cost lists frc / fic, the trimmed prefix p and
   suffix q and the matrix of child edits: if every child satisfies the (weak) contract with a non-negative lower
   bound, and a lower right child that can still be tightened belongs to elements of positive remove + insert cost,
   the edit satisfies the STRICT contract; its final value is the lower right cell of the final cost matrix
   (EdEngine.matrix, the matrix of the big-step script model) over the children's final values. *)
Theorem C04_edit_distance : forall C frc fic p q (kids : list (list (St C))),
  let rc := middle p q frc in
  let ic := middle p q fic in
  (p + q <= length frc)%nat -> (p + q <= length fic)%nat ->
  Forall (fun x => 0 <= x) frc -> Forall (fun x => 0 <= x) fic ->
  length kids = length ic -> Forall (fun row => length row = length rc) kids ->
  Forall (Forall (kid_ok C)) kids ->
  ((1 <= length ic)%nat -> (1 <= length rc)%nat ->
   forall x, nth_error (nth (length ic - 1) kids []) (length rc - 1) = Some x -> ~ zdefinitive (bnd C x) ->
             0 < nth (length ic - 1) ic 0 + nth (length rc - 1) rc 0) ->
  ContractV true (edM C) (ed_init frc fic p q kids)
            (cc rc ic (map (map (finv C)) kids) (length ic) (length rc)).
Proof. exact ed_init_contract. Qed.

(* StringEdit = EditDistance over the one-character edits of the two strings *)
Theorem C04_string : forall s t d, exists v, ContractV true (UM (S d)) (str_state s t) v.
Proof. exact str_contract. Qed.

(* The closing induction over trees: for every pair of trees whose edit lies in the modelled fragment (initU a b = Some s:
   scalars, strings, nested lists under all three list options, key/value pairs; mappings are outside), the state s of
   a.edits(b) satisfies the strict contract on the universal machine, and the executable statement holds on the trace
   the observer records from it.  (initU = initO []: kept from the first version; C04_docs below is the general statement.) *)
Theorem C04_lists : forall a b s, initU a b = Some s -> Contract (UM (sheight s)) s.
Proof. exact initU_contract. Qed.

Theorem C04_lists_trace : forall a b s, initU a b = Some s ->
  holds_events (trace_of (UM (sheight s)) (S (S (Z.to_nat (width (bndU s))))) s) = true.
Proof. intros a b s H. exact (model_trace_holds [] a b s H). Qed.

(* EditCollection / FixedKeyDictNodeEdit over children under the strict contract with non-negative lower bounds whose
   initial upper bounds fit cost_upper_bound: strict contract, final value = sum of the children's *)
Theorem C04_collection : forall C U kids vs, Forall2 (kid_okc C) kids vs -> PUs C kids <= U ->
  ContractV true (collM C) (coll_init (bnd C) U kids) (zsum vs).
Proof. exact coll_contract. Qed.

(* the brackets of the matcher: for values g(p) attached to pairs p with pairwise different rows, each at least the row's
   minimum (at most its maximum): sum of the |mt| smallest row minima <= total <= sum of the |mt| largest row maxima *)
Theorem C04_bracket_lo : forall (rm : list Z) {P} (mt : list P) (row : P -> nat) (g : P -> Z),
  NoDup (map row mt) -> (forall p, In p mt -> (row p < length rm)%nat /\ nth (row p) rm 0 <= g p) ->
  sum_smallest (length mt) rm <= zsum (map g mt).
Proof. exact bracket_lo. Qed.
Theorem C04_bracket_hi : forall (rM : list Z) {P} (mt : list P) (row : P -> nat) (g : P -> Z),
  NoDup (map row mt) -> (forall p, In p mt -> (row p < length rM)%nat /\ g p <= nth (row p) rM 0) ->
  zsum (map g mt) <= sum_largest (length mt) rM.
Proof. exact bracket_hi. Qed.
(* ... on the matcher's state: before the matching is known its bounds contain the bounds it has afterwards *)
Theorem C04_bracket_matcher : forall C rem ins asg vv E, EOK C rem ins vv E ->
  zcontains (MB C rem ins E None) (MB C rem ins E (Some (ch rem ins asg))).
Proof. intros C rem ins asg vv E H. apply (MB_solve C rem ins asg vv E H). Qed.

(* WeightedBipartiteMatcher and MultiSetEdit from any state of the invariant MInv (edges and pre-matched edits under the
   strict contract; the solver's answer and make_distinct's call counts arbitrary): strict contract *)
Theorem C04_matcher : forall C rem ins cnt asg vv kvs s, MInv C rem ins cnt asg vv kvs s ->
  ContractV true (matcherM C) (fst (mt_bounds (bnd C) s)) (F rem ins asg vv).
Proof. exact matcher_contract. Qed.
Theorem C04_multiset : forall C rem ins cnt asg vv kvs s, MInv C rem ins cnt asg vv kvs s ->
  ContractV true (msetM C) (fst (ms_bounds (bnd C) s)) (FIN rem ins asg vv kvs).
Proof. exact mset_contract. Qed.

(* The closing induction over documents: for every oracle and every pair of trees in the domain of initO (all node kinds;
   multisets without repeated elements; the FixedKeyDictNodeEdit budget guard), the edit's state satisfies the strict
   contract and the executable statement holds on the trace the observer records from it. *)
Theorem C04_docs : forall orc a b s, initO orc a b = Some s -> Contract (UM (sheight s)) s.
Proof. exact initO_contract. Qed.
Theorem C04_docs_trace : forall orc a b s, initO orc a b = Some s ->
  holds_events (trace_of (UM (sheight s)) (S (S (Z.to_nat (width (bndU s))))) s) = true.
Proof. exact model_trace_holds. Qed.

(* Documents whose mappings are all FixedKeyDictNodes (no_mset): the budget guard of every FixedKeyDictNodeEdit passes,
   i.e. initO is total, and the initial upper bound of a.edits(b) is within  size a + size b + const, under either
   sufficient condition (MachineGuardSpec.v): text_slack 0 b - no leaf of the target prints longer than its total_size,
   i.e. the target holds no null - or lists_default a && text_slack 4 b - default list options, null prints as "None". *)
Theorem C04_guard_bound_no_null : forall orc a b, wf a = true -> wf b = true -> no_mset a = true -> no_mset b = true ->
  is_kvp a = is_kvp b -> text_slack 0 b = true ->
  exists s, initO orc a b = Some s /\ snd (bndU s) <= size a + size b + 1.
Proof. exact guard_none_nonull. Qed.
Theorem C04_guard_bound_default_lists : forall orc a b, wf a = true -> wf b = true -> no_mset a = true -> no_mset b = true ->
  is_kvp a = is_kvp b -> lists_default a = true -> text_slack 4 b = true ->
  exists s, initO orc a b = Some s /\ snd (bndU s) <= size a + size b + 4.
Proof. exact guard_none_default_lists. Qed.

(* ... hence the contract without the computed guard, whatever LeafNode.edits charges; budget_safe a b = text_slack 0 b || (lists_default a && text_slack 4 b) *)
Theorem C04_docs_none : forall orc a b, wf a = true -> wf b = true -> no_mset a = true -> no_mset b = true ->
  is_kvp a = is_kvp b -> budget_safe a b = true ->
  exists s, initO orc a b = Some s /\ Contract (UM (sheight s)) s /\ snd (bndU s) <= size a + size b + 4.
Proof. exact docs_none_contract. Qed.

(* The current source (LeafNode.edits caps the cost of matching two leaves by max(total_size) + 1): no condition on the
   documents.  `eq_refl` is the proof of  GTgen.EdGen.leaf_match_cost_capped = true  for the constant the translator reads
   off /repo/graphtage/graphtage.py on every run. *)
Theorem C04_guard_bound_all : forall orc a b, wf a = true -> wf b = true -> no_mset a = true -> no_mset b = true ->
  is_kvp a = is_kvp b ->
  exists s, initO orc a b = Some s /\ snd (bndU s) <= size a + size b + 1.
Proof. exact (guard_none_capped eq_refl). Qed.
Theorem C04_docs_none_all : forall orc a b, wf a = true -> wf b = true -> no_mset a = true -> no_mset b = true ->
  is_kvp a = is_kvp b ->
  exists s, initO orc a b = Some s /\ Contract (UM (sheight s)) s /\ snd (bndU s) <= size a + size b + 1.
Proof. exact (docs_none_contract_capped eq_refl). Qed.

(* The former counter-example of the guard (defect D41, repaired): {"": ["","","",""]} -> {"": [null,null,null,null]} as
   FixedKeyDictNodes with allow_list_edits = False lies outside both document conditions; before the repair the key/value
   pair edit cost 16 against cost_upper_bound = 7 + 1 + 7 = 15 and diff() raised ValueError; now it initialises. *)
Theorem C04_guard_witness_repaired :
  wf ex_guard_a = true /\ wf ex_guard_b = true /\ no_mset ex_guard_a = true /\ no_mset ex_guard_b = true /\
  is_kvp ex_guard_a = is_kvp ex_guard_b /\ null_as_None ex_guard_b = true /\
  budget_safe ex_guard_a ex_guard_b = false /\
  size ex_guard_a + 1 + size ex_guard_b = 15 /\
  (forall orc, exists s, initO orc ex_guard_a ex_guard_b = Some s /\ Contract (UM (sheight s)) s /\ snd (bndU s) <= 15).
Proof. exact (guard_witness_repaired eq_refl). Qed.

(* Apple plist documents: PLISTNode(a).edits(PLISTNode(b)) is an EditCollection over [Match(self, node, 0); a.edits(b)] with
   cost_upper_bound = size a + 1 + size b.  initP (MachinePlist.v) = the collection machine over [SConst 0; initO orc a b]
   when the root pair is in the domain of initO and the root edit's initial upper bound fits cost_upper_bound. *)
Theorem C04_plist_root : forall orc a b s, initP orc a b = Some s ->
  Contract (UM (sheight s)) s /\
  holds_events (trace_of (UM (sheight s)) (S (S (Z.to_nat (width (bndU s))))) s) = true.
Proof. exact plist_root_contract. Qed.

(* IterativeTighteningSearch as a machine: bounds() = sbounds s m, tighten_bounds() = search_tighten fuel s m.
   search_step_ok V Inv measure s m r s' m'  (MachineSearch.v) =  Inv s' m'  /\  contains (sbounds s m) (sbounds s' m')
   /\  lo (sbounds s m) <= V <= hi (sbounds s m)  /\  (r = true -> sbounds s' m' <> sbounds s m)
   /\  (r = false -> sbounds s m = point V /\ sbounds s' m' = sbounds s m)  /\  (r = true -> measure s' m' < measure s m).
   Items are schedules (SearchSpec.v): wf_sched = proper ranges, each contained in the previous, the last one a single
   value; strict_sched = consecutive ranges differ (the item itself never answers True without a change).  V is the
   minimum of the items' final values; hints = the adversary's heap tie-breaks: arbitrary. *)
Require Import GT.BoundsSpec GT.SearchSpec GT.SearchModel GT.MachineSearch.
Theorem C04_search : forall (items : list schedule) (hints : list nat),
  items <> [] -> Forall (fun s => wf_sched s = true) items -> Forall strict_sched items ->
  exists (Inv : sst -> ms -> Prop) (V : Z) (measure : sst -> ms -> nat),
    Inv (mkS (Some (seq 0 (length items))) [] [] hints) (mkMs items []) /\
    (exists b, (b < length items)%nat /\ fin_at items b = V /\
               forall i, (i < length items)%nat -> V <= fin_at items i) /\
    forall s m, Inv s m -> forall fuel, (fuel_for items <= fuel)%nat ->
      exists r s' m', search_tighten fuel s m = Done (r, s', m') /\
                      search_step_ok V Inv measure s m r s' m'.
Proof. exact search_contract. Qed.

Print Assumptions C04_trace.
Print Assumptions C04_terminates.
Print Assumptions C04_const.
Print Assumptions C04_sum.
Print Assumptions C04_fixed_len.
Print Assumptions C04_edit_distance.
Print Assumptions C04_string.
Print Assumptions C04_lists.
Print Assumptions C04_lists_trace.
Print Assumptions C04_collection.
Print Assumptions C04_bracket_lo.
Print Assumptions C04_bracket_hi.
Print Assumptions C04_bracket_matcher.
Print Assumptions C04_matcher.
Print Assumptions C04_multiset.
Print Assumptions C04_docs.
Print Assumptions C04_docs_trace.
Print Assumptions C04_guard_bound_no_null.
Print Assumptions C04_guard_bound_default_lists.
Print Assumptions C04_docs_none.
Print Assumptions C04_guard_bound_all.
Print Assumptions C04_docs_none_all.
Print Assumptions C04_guard_witness_repaired.
Print Assumptions C04_search.
Print Assumptions C04_plist_root.
