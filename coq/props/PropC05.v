(* C05 - results do not depend on how the edit API is driven or on status settings.

   ApiSpec.v: the public operations of an edit (bounds, tighten_bounds, is_complete, valid, edits, has_non_zero_cost),
   API machines (every operation may change the state), the contract AContract (an invariant closed under the
   operations in any order on which nothing raises, with a measure bounding the tighten_bounds() calls that can still
   return True), generic runs of histories (g_run) and the completion idiom + serialiser reading (g_final_cost).
   ApiModel.v: the machines of MachineModel.v (C04) refined to single method calls: EditDistance.bounds() with its side
   effects (edits(), back-trace, _cleanup()), the state "matrix complete, not yet finalised", the reads of the fringe
   cells' bounds selected by DEFAULT_PRINTER.quiet, listings, sub-edits addressed through listings.

   Proved, for ALL histories (unbounded length):
     C05_history        any machine under AContract, calls on the edit itself: no call raises and completion yields the
                        contract's value (C05_history_model: the universal machine's run is that generic run)
     C05_const/_sum/_fixed_len/_edit_distance   the class lemmas: ConstantCostEdit; KeyValuePairEdit (component-wise
                        sum); FixedLengthSequenceEdit under repeat_until_tightened; EditDistance and StringEdit over
                        sub-edits that satisfy the contract (nested lists of lists included), for BOTH settings of the
                        status flag; the final value is the lower right cell of the big-step cost matrix
                        (EdEngine.final_cost, the matrix of the script model) over the sub-edits' final values
     C05_invariant      the structural invariant SI (every sub-edit at every level is in the invariant of its class) is
                        closed under every call of a history - on the edit AND on sub-edits addressed through listings -
                        and no such call raises
     C05_model_partial  closing induction over trees: for every pair of the modelled fragment (scalars, strings, nested
                        lists under all list options, key/value pairs) there is ONE value v such that for every history
                        (calls on the edit and on listed sub-edits, any order) and both flag settings no call raises,
                        every call is answered and completion yields v
     C05_final_cost_partial   ... and v is the cost of the big-step script of the pair (ScriptModel.script) whenever
                        that yields one
     C05_quiet_irrelevant_partial   hence the two flag settings agree, whatever the two histories
   Mapping edits: ApiModel.v models MultiSetEdit + WeightedBipartiteMatcher (AMSet) and EditCollection /
   FixedKeyDictNodeEdit (AColl) call by call - every bounds() read of an edge / pre-matched pair / sub-edit is a step of that
   edit, the `matching` property (forced by edits(), by tighten_bounds() and by MultiSetEdit.tighten_bounds()) runs
   _make_edges_distinct() itself when that has not happened, the lazy _edit_iter / _sub_edits / _cost memo / valid, listings,
   sub-edits addressed through listings, the final nested script.  make_distinct's call counts and the solver's assignment
   are oracle inputs keyed by (from_nodes, to_nodes) (initA orc), as for C04; every theorem quantifies over orc.
     C05_multiset       class lemma: MultiSetEdit with its matcher over pre-matched edits and edges under the contract (any
                        predicate PC closed under the operations): the invariant MI is closed under every public call, nothing
                        raises, the measure strictly decreases on a tighten_bounds() that returns True, bounds() contains the
                        value Vv = (sum over the matching `ch` the oracle answer stands for) + pre-matched values + unmatched
                        nodes and is idempotent, False only at (Vv, Vv)
     C05_collection     class lemma: EditCollection / FixedKeyDictNodeEdit over sub-edits under the contract whose initial
                        upper bounds fit cost_upper_bound: the invariant CI (lazy iterator, _cost memo, valid) likewise;
                        value = sum of the sub-edits' values; the edit never invalidates itself
     C05_model          closing induction over ALL documents (scalars, strings, nested lists under all list options, key/value
                        pairs, DictNode / MultiSetNode, FixedKeyDictNode): for every oracle and every pair in the domain of
                        initA there is ONE value v such that for every history (calls on the edit and on listed sub-edits, any
                        order) and both settings of the status flag no call raises, every call is answered and completion
                        yields v.  Domain of initA (computed conditions, as for C04): the elements of a multiset are pairwise
                        different (D36 is outside), mixed mapping classes do not occur, and a FixedKeyDictNodeEdit's children's
                        initial upper bounds fit its cost_upper_bound.
     C05_quiet_irrelevant   hence the two flag settings agree, whatever the two histories
     C05_final_cost_partial   v is the cost of the big-step script (ScriptModel.script) - proved for documents without
                        DictNode / MultiSetNode (`msetfree`: scalars, strings, lists, key/value pairs, FixedKeyDictNodes, i.e. what
                        the loaders build under the dictionary strategy `none`); for MultiSetEdit the script model keys its matching
                        oracle by tree paths and the API machine by node lists: no bridge between the two oracles is proved.
   Not proved: search (IterativeTighteningSearch / PossibleEdits) has no model; the theorems are about the final COST, the
   final SCRIPT is compared call by call and as a whole by the correspondence run (corr_C05) only. *)
From Coq Require Import ZArith List Bool.
Require Import GT.Data GT.EdEngine GT.ScriptSpec GT.ScriptModel GT.MachineSpec GT.MachineModel GT.ApiSpec GT.ApiModel GT.ApiProofs.
Import ListNotations.
Open Scope Z_scope.

Theorem C05_history : forall M s v, AContract M s v ->
  forall h, a_err M (g_run M h s) = false /\ g_final_cost M (g_run M h s) = Some v.
Proof. exact contract_history. Qed.

Theorem C05_history_model : forall q d s v, AContract (AM q d) s v -> forall h : list bop,
  fst (run_hist q d (map root h) s) = g_run (AM q d) h s /\
  existsb is_err (snd (run_hist q d (map root h) s)) = false /\
  length (snd (run_hist q d (map root h) s)) = length h /\
  finish_cost q d (fst (run_hist q d (map root h) s)) = Some v.
Proof. exact model_root_history. Qed.

Theorem C05_const : forall q c t, Good q (AConst c t) c.
Proof. exact good_const. Qed.

Theorem C05_sum : forall q l vs, Forall2 (Good q) l vs -> Good q (ASum l) (zsum vs).
Proof. exact good_sum. Qed.

Theorem C05_fixed_len : forall q l vs rems inss, Forall2 (Good q) l vs ->
  Good q (AFixed l rems inss false) (zsum vs + zsum rems + zsum inss).
Proof. exact good_fixed. Qed.

Theorem C05_edit_distance : forall q sk p0 q0 frc fic (kids : list (list ast)) (mcs : list (list Z)),
  let rc := middle p0 q0 frc in
  let ic := middle p0 q0 fic in
  (p0 + q0 <= length frc)%nat -> (p0 + q0 <= length fic)%nat ->
  Forall (fun x => 0 <= x) frc -> Forall (fun x => 0 <= x) fic ->
  length kids = length ic -> Forall (fun row => length row = length rc) kids ->
  Forall2 (Forall2 (fun x v => 0 <= v /\ Good q x v)) kids mcs ->
  Good q (AED sk p0 q0 (ed_init frc fic p0 q0 kids)) (final_cost rc ic mcs).
Proof. exact good_ed. Qed.

Theorem C05_invariant : forall q d v (h : history) s, SI q d s v ->
  SI q d (fst (run_hist q d h s)) v /\ existsb is_err (snd (run_hist q d h s)) = false /\
  length (snd (run_hist q d h s)) = length h /\ finish_cost q d (fst (run_hist q d h s)) = Some v.
Proof. exact si_history. Qed.

Theorem C05_multiset : forall q d (PC : ast -> Z -> Prop),
  (forall x v, PC x v -> astep_ok (AM q d) (fun t => PC t v) v x) ->
  forall rem ins cnt asg kvs evs, length evs = length rem -> Forall (fun r => length r = length ins) evs ->
  forall ix m, MI PC rem ins cnt asg kvs evs m ->
  astep_ok (AM q (S d)) (fun t => exists m', t = AMSet ix m' false /\ MI PC rem ins cnt asg kvs evs m')
           (Vv rem ins asg kvs evs) (AMSet ix m false).
Proof. exact mset_step. Qed.

Theorem C05_collection : forall q d (PC : ast -> Z -> Prop),
  (forall x v, PC x v -> astep_ok (AM q d) (fun t => PC t v) v x) ->
  forall U vs, Forall (fun x => 0 <= x) vs ->
  forall ks s, CI PC U vs s ->
  astep_ok (AM q (S d)) (fun t => exists s', t = toA ks s' /\ CI PC U vs s') (zsum vs) (toA ks s).
Proof. exact coll_step. Qed.

Theorem C05_model : forall orc a b s, initA orc a b = Some s -> exists v, 0 <= v /\
  forall (quiet : bool) (h : history),
    existsb is_err (snd (run_hist quiet (aheight s) h s)) = false /\
    length (snd (run_hist quiet (aheight s) h s)) = length h /\
    finish_cost quiet (aheight s) (fst (run_hist quiet (aheight s) h s)) = Some v.
Proof. exact ApiProofs.C05_model. Qed.

(* ... and v is the cost of the big-step script (ScriptModel.script, the model of C01/C03) whenever that yields one *)
Theorem C05_final_cost_partial : forall orc a b s O pa pb e, msetfree a = true -> initA orc a b = Some s -> script O pa pb a b = OK e ->
  forall (quiet : bool) (h : history),
    existsb is_err (snd (run_hist quiet (aheight s) h s)) = false /\
    length (snd (run_hist quiet (aheight s) h s)) = length h /\
    finish_cost quiet (aheight s) (fst (run_hist quiet (aheight s) h s)) = Some (cost e).
Proof. exact C05_model_cost. Qed.

Theorem C05_quiet_irrelevant : forall orc a b s, initA orc a b = Some s -> forall (h1 h2 : history),
  finish_cost true (aheight s) (fst (run_hist true (aheight s) h1 s)) =
  finish_cost false (aheight s) (fst (run_hist false (aheight s) h2 s)).
Proof. exact C05_quiet. Qed.

Print Assumptions C05_history.
Print Assumptions C05_history_model.
Print Assumptions C05_const.
Print Assumptions C05_sum.
Print Assumptions C05_fixed_len.
Print Assumptions C05_edit_distance.
Print Assumptions C05_invariant.
Print Assumptions C05_multiset.
Print Assumptions C05_collection.
Print Assumptions C05_model.
Print Assumptions C05_final_cost_partial.
Print Assumptions C05_quiet_irrelevant.
