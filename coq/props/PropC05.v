(* C05 - results do not depend on how the edit API is driven or on status settings. (work in progress header) *)
From Coq Require Import ZArith List Bool.
Require Import GT.Data GT.ScriptSpec GT.MachineSpec GT.ApiSpec GT.ApiModel GT.ApiProofs.
Import ListNotations.
Open Scope Z_scope.

Theorem C05_history : forall M s v, AContract M s v ->
  forall h, a_err M (g_run M h s) = false /\ g_final_cost M (g_run M h s) = Some v.
Proof. exact contract_history. Qed.

Print Assumptions C05_history.
