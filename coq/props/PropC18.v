(* C18 - Python objects are converted faithfully and cycles never hang.
   Statements only; proofs live in GT.BuilderProofs.  The model (GT.BuilderModel: the explicit-stack machine
   `run` of Builder.build_tree, its big-step reading `bigs`, json.build_tree, to_obj, copy) is hand-written
   and tied to /repo by the correspondence harness (harness/pC18.py: corr_C18 / holds_C18 by vm_compute).

   Domain of the faithfulness theorems: dictionary keys are scalars and set elements are scalars or sets
   (`hashable_positions`; outside it: D18, D28 - refutation witnesses below), no instances of custom
   classes (`has_objects g = false`: the proofs do not cover PObj, hence the suffix _partial; the model does,
   and the harness checks it), Python's own invariants (`python_wf`: keys of one dict pairwise unequal).
   That json.build_tree / BasicBuilder / pydiff build the same tree is proved on an example and checked on
   every generated case by clause ClSameTree of holds_C18, not proved in general. *)
From Coq Require Import String List Bool ZArith.
Require Import GT.PyBase GT.BuilderSpec GT.BuilderModel GT.BuilderProofs.
Import ListNotations.
Open Scope string_scope.

(* the machine computes the big-step result, for every graph, option set and builder, errors included *)
Theorem C18_machine_refines : forall b o g d root r n,
  bigs b o g d [] (IId root) = (r, n) -> r <> OutOfFuel ->
  forall fuel, (n <= fuel)%nat -> run_builder b o g fuel root = r.
Proof. exact BuilderProofs.machine_refines. Qed.

(* (d) termination: with the cycle check on, the machine halts on EVERY finite graph (cyclic or not) within
   fuel_bound = the step count of the big-step run at depth |g|+3 *)
Theorem C18_terminates : forall b o g, check_cycles o = true -> forall root fuel,
  (fuel_bound b o g root <= fuel)%nat ->
  run_builder b o g fuel root = fst (bigs b o g (big_depth g) [] (IId root))
  /\ run_builder b o g fuel root <> OutOfFuel.
Proof. exact BuilderProofs.machine_terminates. Qed.

(* (a) acyclic graphs (any size, depth, sharing), every builder, every option set: the machine halts with a
   tree t, to_obj t is the plain value of the graph, copy t = t (structurally, and for Python's ==: tree_pyeq),
   no placeholder *)
Theorem C18_acyclic_partial : forall b o g,
  hashable_positions g = true -> python_wf g = true -> has_objects g = false ->
  forall d root v, unfold d g root = Some v ->
  exists t n v',
    (forall fuel, (n <= fuel)%nat -> run_builder b o g fuel root = Built t)
    /\ to_obj t = ROk v' /\ norm v' = v /\ copy t = t /\ tree_pyeq (copy t) t = true
    /\ has_placeholder t = false.
Proof. exact BuilderProofs.acyclic_faithful. Qed.

(* (b) sharing without cycles: never a cycle error, never a placeholder, whatever the fuel *)
Theorem C18_shared_partial : forall b o g,
  hashable_positions g = true -> python_wf g = true -> has_objects g = false ->
  forall root, acyclic g root ->
  forall fuel, run_builder b o g fuel root <> Raised ECycle
               /\ (forall t, run_builder b o g fuel root = Built t -> has_placeholder t = false).
Proof. exact BuilderProofs.shared_not_cycle. Qed.

(* (c) cycle checking on, a cycle is reachable: cycle error, or (cycles ignored) a tree with a placeholder,
   which is its own deep copy (structurally, and for Python's ==) *)
Theorem C18_cyclic_partial : forall b o g,
  check_cycles o = true ->
  hashable_positions g = true -> python_wf g = true -> has_objects g = false -> closed g = true ->
  forall root, lookup g root <> None -> reaches_cycle g root ->
  forall fuel, (fuel_bound b o g root <= fuel)%nat ->
    (ignore_cycles o = false -> run_builder b o g fuel root = Raised ECycle)
    /\ (ignore_cycles o = true ->
        exists t, run_builder b o g fuel root = Built t /\ has_placeholder t = true
                  /\ copy t = t /\ tree_pyeq (copy t) t = true).
Proof. exact BuilderProofs.cyclic_detected. Qed.

(* an acyclic graph reaches no cycle (the two hypotheses above exclude each other) *)
Theorem C18_acyclic_no_cycle : forall g root, acyclic g root -> ~ reaches_cycle g root.
Proof. exact BuilderProofs.acyclic_no_cycle. Qed.

(* BasicBuilder().build_tree and pydiff.build_tree agree on every graph without custom objects: same outcome
   for every fuel, cyclic inputs and exceptions included *)
Theorem C18_builders_agree : forall o g, has_objects g = false -> forall fuel root,
  run_builder BasicB o g fuel root = run_builder PyObjB o g fuel root.
Proof. exact BuilderProofs.builders_agree. Qed.

(* non-vacuity *)
Theorem C18_shared_example :
  hashable_positions g_shared = true /\ python_wf g_shared = true /\ has_objects g_shared = false
  /\ acyclic g_shared 0
  /\ (edge g_shared 0 1 /\ edge g_shared 2 1 /\ edge g_shared 5 1)
  /\ exists t, run_builder BasicB o_default g_shared (fuel_bound BasicB o_default g_shared 0) 0 = Built t
               /\ has_placeholder t = false.
Proof. exact BuilderProofs.shared_example. Qed.

Theorem C18_cyclic_example :
  hashable_positions g_mutual = true /\ python_wf g_mutual = true /\ has_objects g_mutual = false
  /\ closed g_mutual = true /\ lookup g_mutual 0 <> None /\ reaches_cycle g_mutual 0
  /\ run_builder BasicB o_default g_mutual (fuel_bound BasicB o_default g_mutual 0) 0 = Raised ECycle
  /\ exists t, run_builder BasicB o_ignore g_mutual (fuel_bound BasicB o_ignore g_mutual 0) 0 = Built t
               /\ has_placeholder t = true.
Proof. exact BuilderProofs.cyclic_example. Qed.

Theorem C18_entry_points_example :
  json_supported g_json_shared = true /\
  exists t, json_run o_default g_json_shared 0 = Built t
    /\ run_builder BasicB o_default g_json_shared (fuel_bound BasicB o_default g_json_shared 0) 0 = Built t
    /\ run_builder PyObjB o_default g_json_shared (fuel_bound PyObjB o_default g_json_shared 0) 0 = Built t.
Proof. exact BuilderProofs.entry_points_example. Qed.

(* refutation witnesses of the full statement (the known findings) *)
Theorem C18_refuted_tuple_key :                      (* D18 *)
  python_wf g_tuple_key = true /\ has_objects g_tuple_key = false /\ acyclic g_tuple_key 0
  /\ hashable_positions g_tuple_key = false
  /\ exists t, run_builder BasicB o_default g_tuple_key (fuel_bound BasicB o_default g_tuple_key 0) 0 = Built t
               /\ to_obj t = RErr "TypeError".
Proof. exact BuilderProofs.acyclic_refuted_tuple_key. Qed.

Theorem C18_refuted_container_keys :                 (* D28 *)
  acyclic g_set_keys 0 /\ hashable_positions g_set_keys = false
  /\ run_builder BasicB o_default g_set_keys (fuel_bound BasicB o_default g_set_keys 0) 0 = Raised ETypeError.
Proof. exact BuilderProofs.acyclic_refuted_container_keys. Qed.

(* formerly D29 / D30, repaired in /repo: copies of trees with custom objects / placeholders are equal *)
Theorem C18_copy_pyobj_example :
  acyclic g_obj 0 /\
  exists t, run_builder PyObjB o_default g_obj (fuel_bound PyObjB o_default g_obj 0) 0 = Built t
            /\ copy t = t /\ tree_pyeq (copy t) t = true.
Proof. exact BuilderProofs.copy_pyobj_example. Qed.

Theorem C18_copy_placeholder_example :
  exists t, run_builder BasicB o_ignore g_self (fuel_bound BasicB o_ignore g_self 0) 0 = Built t
            /\ has_placeholder t = true /\ copy t = t /\ tree_pyeq (copy t) t = true.
Proof. exact BuilderProofs.copy_placeholder_example. Qed.

Theorem C18_refuted_json_bytes :                     (* D31 *)
  json_run o_default g_bytes 0 = Built (TList [TLeaf KStr (SStr "ab")])
  /\ run_builder BasicB o_default g_bytes (fuel_bound BasicB o_default g_bytes 0) 0
     = Built (TList [TLeaf KStr (SBytes "ab")]).
Proof. exact BuilderProofs.json_refuted_bytes. Qed.

Theorem C18_refuted_json_cycle : json_run o_default g_self 0 = Raised ERecursion.   (* D32 *)
Proof. exact BuilderProofs.json_refuted_cycle. Qed.

Print Assumptions C18_machine_refines.
Print Assumptions C18_terminates.
Print Assumptions C18_acyclic_partial.
Print Assumptions C18_shared_partial.
Print Assumptions C18_cyclic_partial.
Print Assumptions C18_acyclic_no_cycle.
Print Assumptions C18_builders_agree.
Print Assumptions C18_refuted_tuple_key.
