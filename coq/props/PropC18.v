(* C18 - Python objects are converted faithfully and cycles never hang.
   Statements only; proofs live in GT.BuilderProofs.  The model (GT.BuilderModel: the explicit-stack machine
   `run` of Builder.build_tree, its big-step reading `bigs`, json.build_tree, to_obj, copy) is hand-written
   and tied to /repo by the correspondence harness (harness/pC18.py: corr_C18 / holds_C18 by vm_compute).

   Domain of the faithfulness theorems (a), (b): dictionary keys and set elements are scalars or (frozen)sets,
   and under the strategies that sort the pairs only the first key may be a set (`key_positions o g`); by
   C18_domain_boundary this is exactly "outside the classes of the open findings D18 and D28" (refutation
   witnesses below); Python's own invariants (`python_wf_keys`: keys of one dict pairwise unequal, attribute
   names distinct; `python_hashable`: no list/dict as key or element); instances of custom classes only with
   pydiff's builder (`has_objects g = false \/ b = PyObjB`: BasicBuilder raises NotImplementedError on them,
   json.build_tree ValueError).  They keep the suffix _partial because of the D18/D28 carve-out.
   The cycle theorem (c) is proved on the smaller domain `hashable_positions` / `python_wf` (keys are
   scalars; contained in the former: C18_domain_contains): for cyclic graphs with frozenset keys it is missing.
   json.build_tree = BasicBuilder = pydiff is proved on json.build_tree's domain (C18_entry_points). *)
From Coq Require Import String List Bool ZArith.
Require Import GT.PyBase GT.BuilderSpec GT.BuilderModel GT.BuilderProofs.
Import ListNotations.
Open Scope string_scope.

(* the machine computes the big-step result, for every graph, option set and builder, errors included *)
Theorem C18_machine_refines : forall b o g d root r n,
  bigs b o g d [] (IId root) = (r, n) -> r <> OutOfFuel ->
  forall fuel, (n <= fuel)%nat -> run_builder b o g fuel root = r.
Proof. exact BuilderProofs.machine_refines. Qed.

(* (d) termination: with the cycle check on, the machine halts on EVERY finite graph (cyclic or not) within
   fuel_bound = the step count of the big-step run at depth |g|+3 *)
Theorem C18_terminates : forall b o g, check_cycles o = true -> forall root fuel,
  (fuel_bound b o g root <= fuel)%nat ->
  run_builder b o g fuel root = fst (bigs b o g (big_depth g) [] (IId root))
  /\ run_builder b o g fuel root <> OutOfFuel.
Proof. exact BuilderProofs.machine_terminates. Qed.

(* (a) acyclic graphs (any size, depth, sharing; instances of classes with pydiff's builder), every option
   set: the machine halts with a tree t, to_obj t is the plain value of the graph (norm v' = v literally, hence
   the executable clause same_value of holds_C18), copy t = t (structurally, and for Python's ==: tree_pyeq),
   no placeholder *)
Theorem C18_acyclic_partial : forall b o g,
  key_positions o g = true -> python_wf_keys g = true -> (has_objects g = false \/ b = PyObjB) ->
  forall d root v, unfold d g root = Some v ->
  exists t n v',
    (forall fuel, (n <= fuel)%nat -> run_builder b o g fuel root = Built t)
    /\ to_obj t = ROk v' /\ norm v' = v /\ same_value v' v = true
    /\ copy t = t /\ tree_pyeq (copy t) t = true
    /\ has_placeholder t = false.
Proof. exact BuilderProofs.acyclic_faithful. Qed.

(* the same with the finding classes as carve-outs (the executable predicates the harness classifies with) *)
Theorem C18_acyclic_outside_findings : forall c b,
  python_hashable (c_graph c) = true -> python_wf_keys (c_graph c) = true ->
  kf_unhashable_key c = false -> kf_container_key_sort c = false ->
  (has_objects (c_graph c) = false \/ b = PyObjB) ->
  forall d v, unfold d (c_graph c) (c_root c) = Some v ->
  exists t n v',
    (forall fuel, (n <= fuel)%nat -> run_builder b (c_opts c) (c_graph c) fuel (c_root c) = Built t)
    /\ to_obj t = ROk v' /\ same_value v' v = true
    /\ copy t = t /\ tree_pyeq (copy t) t = true /\ has_placeholder t = false.
Proof. exact BuilderProofs.acyclic_faithful_outside_findings. Qed.

(* the domain is bounded exactly by the two findings, and contains the scalar-keys domain *)
Theorem C18_domain_boundary : forall c,
  python_hashable (c_graph c) = true -> kf_unhashable_key c = false -> kf_container_key_sort c = false ->
  key_positions (c_opts c) (c_graph c) = true.
Proof. exact BuilderProofs.key_positions_boundary. Qed.

Theorem C18_domain_contains : forall o g, hashable_positions g = true ->
  key_positions o g = true /\ (python_wf g = true -> python_wf_keys g = true).
Proof.
  intros o g H. split; [exact (BuilderProofs.key_positions_of_hashable o g H)
                       |exact (BuilderProofs.python_wf_keys_of g H)].
Qed.

(* (b) sharing without cycles: never a cycle error, never a placeholder, whatever the fuel *)
Theorem C18_shared_partial : forall b o g,
  key_positions o g = true -> python_wf_keys g = true -> (has_objects g = false \/ b = PyObjB) ->
  forall root, acyclic g root ->
  forall fuel, run_builder b o g fuel root <> Raised ECycle
               /\ (forall t, run_builder b o g fuel root = Built t -> has_placeholder t = false).
Proof. exact BuilderProofs.shared_not_cycle. Qed.

(* (c) cycle checking on, a cycle is reachable: cycle error, or (cycles ignored) a tree with a placeholder,
   which is its own deep copy (structurally, and for Python's ==).  With pydiff's builder this includes cycles
   that run through instances of classes only (C18_obj_cycle_example): the all-grandchildren-are-leaves
   shortcut of build_tree is modelled through the expander (is_leaf_item), as the code does. *)
Theorem C18_cyclic_partial : forall b o g,
  check_cycles o = true ->
  hashable_positions g = true -> python_wf g = true -> (has_objects g = false \/ b = PyObjB) -> closed g = true ->
  forall root, lookup g root <> None -> reaches_cycle g root ->
  forall fuel, (fuel_bound b o g root <= fuel)%nat ->
    (ignore_cycles o = false -> run_builder b o g fuel root = Raised ECycle)
    /\ (ignore_cycles o = true ->
        exists t, run_builder b o g fuel root = Built t /\ has_placeholder t = true
                  /\ copy t = t /\ tree_pyeq (copy t) t = true).
Proof. exact BuilderProofs.cyclic_detected. Qed.

(* an acyclic graph reaches no cycle (the two hypotheses above exclude each other) *)
Theorem C18_acyclic_no_cycle : forall g root, acyclic g root -> ~ reaches_cycle g root.
Proof. exact BuilderProofs.acyclic_no_cycle. Qed.

(* BasicBuilder().build_tree and pydiff.build_tree agree on every graph without custom objects: same outcome
   for every fuel, cyclic inputs and exceptions included *)
Theorem C18_builders_agree : forall o g, has_objects g = false -> forall fuel root,
  run_builder BasicB o g fuel root = run_builder PyObjB o g fuel root.
Proof. exact BuilderProofs.builders_agree. Qed.

(* all entry points build the same tree on the domain where json.build_tree is defined and no open finding
   applies: no sets, no instances, keys int/float/bool/str (json_supported), no bytes (D31), acyclic (D32);
   every option set, every builder, every sufficient fuel *)
Theorem C18_entry_points : forall o g,
  json_supported g = true -> has_bytes g = false ->
  forall root, acyclic g root ->
  exists t n, json_run o g root = Built t
    /\ forall b fuel, (n <= fuel)%nat -> run_builder b o g fuel root = json_run o g root.
Proof. exact BuilderProofs.entry_points_agree. Qed.

(* the same for the function the correspondence check evaluates for each entry point (model_run) *)
Theorem C18_entry_points_model : forall o g,
  json_supported g = true -> has_bytes g = false ->
  forall root, acyclic g root ->
  exists t, forall ep, model_run ep o g root = Built t.
Proof. exact BuilderProofs.entry_points_model. Qed.

(* (a') with exactly the fuel the correspondence check gives the model *)
Theorem C18_acyclic_model_partial : forall b o g,
  key_positions o g = true -> python_wf_keys g = true -> (has_objects g = false \/ b = PyObjB) ->
  forall d root v, unfold d g root = Some v ->
  exists t v',
    run_builder b o g (fuel_bound b o g root) root = Built t
    /\ to_obj t = ROk v' /\ norm v' = v /\ same_value v' v = true
    /\ copy t = t /\ tree_pyeq (copy t) t = true
    /\ has_placeholder t = false.
Proof. exact BuilderProofs.acyclic_faithful_model. Qed.

(* the executable statement (fails_entry: what holds_C18 evaluates on the implementation's output) has no
   violated clause on the model's prediction: acyclic inputs of the domain, all option sets; inputs reaching
   a cycle when cycles are checked (scalar-keys domain).  Together with corr_C18 (implementation = model,
   checked per case) this is the whole argument for the two builder entry points. *)
Theorem C18_model_holds_acyclic_partial : forall ep o g root,
  ep <> EJson -> defined_on ep g = true ->
  key_positions o g = true -> python_wf_keys g = true -> acyclic g root ->
  fails_entry o g root ep (observe (model_run ep o g root)) = [].
Proof. exact BuilderProofs.model_holds_acyclic. Qed.

Theorem C18_model_holds_cyclic_partial : forall ep o g root,
  ep <> EJson -> defined_on ep g = true -> check_cycles o = true ->
  hashable_positions g = true -> python_wf g = true -> closed g = true ->
  lookup g root <> None -> reaches_cycle g root ->
  fails_entry o g root ep (observe (model_run ep o g root)) = [].
Proof. exact BuilderProofs.model_holds_cyclic. Qed.

(* the depth |g|+1 used by the executable statement (fails_entry) decides acyclicity: if any depth unfolds the
   graph, that one does, to the same value *)
Theorem C18_unfold_depth_complete : forall g d root v,
  unfold d g root = Some v -> unfold (unfold_depth g) g root = Some v.
Proof. exact BuilderProofs.unfold_depth_complete. Qed.

(* the executable comparison of values is reflexive (links `norm v' = v` to clause ClValue) *)
Theorem C18_same_value_refl : forall read original, norm read = original -> same_value read original = true.
Proof. exact BuilderProofs.same_value_of_norm. Qed.

(* non-vacuity *)
Theorem C18_shared_example :
  hashable_positions g_shared = true /\ python_wf g_shared = true /\ has_objects g_shared = false
  /\ key_positions o_default g_shared = true /\ python_wf_keys g_shared = true
  /\ acyclic g_shared 0
  /\ (edge g_shared 0 1 /\ edge g_shared 2 1 /\ edge g_shared 5 1)
  /\ exists t, run_builder BasicB o_default g_shared (fuel_bound BasicB o_default g_shared 0) 0 = Built t
               /\ has_placeholder t = false.
Proof. exact BuilderProofs.shared_example. Qed.

(* {frozenset({1, 2}): 3, "a": frozenset()}: inside the domain, outside the scalar-keys domain *)
Theorem C18_fset_key_example :
  key_positions o_default g_fset_key = true /\ key_positions o_ignore g_fset_key = true
  /\ python_wf_keys g_fset_key = true /\ hashable_positions g_fset_key = false /\ acyclic g_fset_key 0
  /\ exists t v, run_builder BasicB o_default g_fset_key (fuel_bound BasicB o_default g_fset_key 0) 0 = Built t
       /\ to_obj t = ROk v
       /\ v = VDict [(VMSet [VScalar (SInt 1); VScalar (SInt 2)], VScalar (SInt 3)); (VScalar (SStr "a"), VMSet [])]
       /\ unfold 3 g_fset_key 0 = Some v.
Proof. exact BuilderProofs.fset_key_example. Qed.

Theorem C18_cyclic_example :
  hashable_positions g_mutual = true /\ python_wf g_mutual = true /\ has_objects g_mutual = false
  /\ closed g_mutual = true /\ lookup g_mutual 0 <> None /\ reaches_cycle g_mutual 0
  /\ run_builder BasicB o_default g_mutual (fuel_bound BasicB o_default g_mutual 0) 0 = Raised ECycle
  /\ exists t, run_builder BasicB o_ignore g_mutual (fuel_bound BasicB o_ignore g_mutual 0) 0 = Built t
               /\ has_placeholder t = true.
Proof. exact BuilderProofs.cyclic_example. Qed.

Theorem C18_obj_cycle_example :
  hashable_positions g_obj_ring = true /\ python_wf g_obj_ring = true /\ has_objects g_obj_ring = true
  /\ closed g_obj_ring = true /\ lookup g_obj_ring 0 <> None /\ reaches_cycle g_obj_ring 0
  /\ run_builder PyObjB o_default g_obj_ring (fuel_bound PyObjB o_default g_obj_ring 0) 0 = Raised ECycle
  /\ (exists t, run_builder PyObjB o_ignore g_obj_ring (fuel_bound PyObjB o_ignore g_obj_ring 0) 0 = Built t
                /\ has_placeholder t = true)
  /\ hashable_positions g_obj_self = true /\ python_wf g_obj_self = true /\ closed g_obj_self = true
  /\ reaches_cycle g_obj_self 0
  /\ run_builder PyObjB o_default g_obj_self (fuel_bound PyObjB o_default g_obj_self 0) 0 = Raised ECycle
  /\ (exists t, run_builder PyObjB o_ignore g_obj_self (fuel_bound PyObjB o_ignore g_obj_self 0) 0 = Built t
                /\ has_placeholder t = true).
Proof. exact BuilderProofs.obj_cycle_example. Qed.

Theorem C18_acyclic_obj_example :
  key_positions o_default g_obj_shared = true /\ python_wf_keys g_obj_shared = true /\ has_objects g_obj_shared = true
  /\ acyclic g_obj_shared 0 /\ (edge g_obj_shared 0 1 /\ edge g_obj_shared 4 1)
  /\ exists t v, run_builder PyObjB o_default g_obj_shared (fuel_bound PyObjB o_default g_obj_shared 0) 0 = Built t
               /\ has_placeholder t = false /\ to_obj t = ROk v
               /\ unfold 5 g_obj_shared 0 = Some (norm v).
Proof. exact BuilderProofs.acyclic_obj_example. Qed.

Theorem C18_entry_points_domain_example :
  json_supported g_json_shared = true /\ has_bytes g_json_shared = false /\ acyclic g_json_shared 0.
Proof. exact BuilderProofs.entry_points_domain_example. Qed.

Theorem C18_entry_points_example :
  json_supported g_json_shared = true /\
  exists t, json_run o_default g_json_shared 0 = Built t
    /\ run_builder BasicB o_default g_json_shared (fuel_bound BasicB o_default g_json_shared 0) 0 = Built t
    /\ run_builder PyObjB o_default g_json_shared (fuel_bound PyObjB o_default g_json_shared 0) 0 = Built t.
Proof. exact BuilderProofs.entry_points_example. Qed.

(* refutation witnesses of the full statement (the known findings) *)
Theorem C18_refuted_tuple_key :                      (* D18 *)
  python_wf g_tuple_key = true /\ has_objects g_tuple_key = false /\ acyclic g_tuple_key 0
  /\ hashable_positions g_tuple_key = false
  /\ python_wf_keys g_tuple_key = true /\ python_hashable g_tuple_key = true
  /\ key_positions o_default g_tuple_key = false /\ key_positions o_ignore g_tuple_key = false
  /\ exists t, run_builder BasicB o_default g_tuple_key (fuel_bound BasicB o_default g_tuple_key 0) 0 = Built t
               /\ to_obj t = RErr "TypeError".
Proof. exact BuilderProofs.acyclic_refuted_tuple_key. Qed.

Theorem C18_refuted_container_keys :                 (* D28 *)
  acyclic g_set_keys 0 /\ hashable_positions g_set_keys = false
  /\ python_wf_keys g_set_keys = true /\ python_hashable g_set_keys = true
  /\ key_positions o_default g_set_keys = false
  /\ run_builder BasicB o_default g_set_keys (fuel_bound BasicB o_default g_set_keys 0) 0 = Raised ETypeError
  /\ key_positions o_ignore g_set_keys = true
  /\ exists t, run_builder BasicB o_ignore g_set_keys (fuel_bound BasicB o_ignore g_set_keys 0) 0 = Built t.
Proof. exact BuilderProofs.acyclic_refuted_container_keys. Qed.

(* formerly D29 / D30, repaired in /repo: copies of trees with custom objects / placeholders are equal *)
Theorem C18_copy_pyobj_example :
  acyclic g_obj 0 /\
  exists t, run_builder PyObjB o_default g_obj (fuel_bound PyObjB o_default g_obj 0) 0 = Built t
            /\ copy t = t /\ tree_pyeq (copy t) t = true.
Proof. exact BuilderProofs.copy_pyobj_example. Qed.

Theorem C18_copy_placeholder_example :
  exists t, run_builder BasicB o_ignore g_self (fuel_bound BasicB o_ignore g_self 0) 0 = Built t
            /\ has_placeholder t = true /\ copy t = t /\ tree_pyeq (copy t) t = true.
Proof. exact BuilderProofs.copy_placeholder_example. Qed.

Theorem C18_refuted_json_bytes :                     (* D31 *)
  json_run o_default g_bytes 0 = Built (TList [TLeaf KStr (SStr "ab")])
  /\ run_builder BasicB o_default g_bytes (fuel_bound BasicB o_default g_bytes 0) 0
     = Built (TList [TLeaf KStr (SBytes "ab")]).
Proof. exact BuilderProofs.json_refuted_bytes. Qed.

Theorem C18_refuted_json_cycle : json_run o_default g_self 0 = Raised ERecursion.   (* D32 *)
Proof. exact BuilderProofs.json_refuted_cycle. Qed.

Print Assumptions C18_machine_refines.
Print Assumptions C18_terminates.
Print Assumptions C18_acyclic_partial.
Print Assumptions C18_shared_partial.
Print Assumptions C18_cyclic_partial.
Print Assumptions C18_acyclic_no_cycle.
Print Assumptions C18_builders_agree.
Print Assumptions C18_acyclic_outside_findings.
Print Assumptions C18_domain_boundary.
Print Assumptions C18_domain_contains.
Print Assumptions C18_refuted_container_keys.
Print Assumptions C18_entry_points.
Print Assumptions C18_entry_points_model.
Print Assumptions C18_acyclic_model_partial.
Print Assumptions C18_model_holds_acyclic_partial.
Print Assumptions C18_model_holds_cyclic_partial.
Print Assumptions C18_unfold_depth_complete.
Print Assumptions C18_same_value_refl.
Print Assumptions C18_obj_cycle_example.
Print Assumptions C18_refuted_tuple_key.
