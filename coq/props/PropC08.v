(* C08 - mappings are unordered, lists are ordered.

   `doc` is a plain document with the members of its mappings in FILE order; `build o d` (GT.BuildModel) the tree
   graphtage.json.build_tree builds for it under the four build options o; `dperm d d'` (GT.BuildProofs): d' is d with
   the members of any of its mappings listed in another order, at any depth; `doc_ok d`: mapping keys are strings,
   pairwise different within one mapping (every JSON document), numbers well-formed.  `script O pa pb a b` is the
   big-step model of the final edit script (GT.ScriptModel), `res_cost` its total cost (None: no script).

   Proved for ALL documents, key permutations, build options, oracles:
     C08_build_canonical  strategies auto/match: the permuted document builds the IDENTICAL tree (DictNode sorts),
     C08_dict_script      so the complete scripts (cost, pairing, removals, insertions) are identical;
     C08_tree_perm        strategy none: the trees differ by a permutation of the children of every FixedKeyDictNode (tperm);
     C08_tperm_cost       for trees related by tperm the final cost is the same - for any two oracles and positions
                          (FixedKeyDictNode never consults one) - and a script exists for one pair iff for the other;
     C08_fixed_cost       hence, strategy none: permuting keys in either document does not change the cost;
     C08_cost             all strategies, same oracle;
     C08_pairing          strategy none, top level of a mapping: the members that are paired (with the cost of their
                          sub-edit), removed and inserted are the same up to tperm, in both directions;
     C08_equal            a document and its key-permuted copy are equal as data (data_eqb), C08_node_equal: and under
                          the implementation's ==, C08_copy_zero: and their edit script exists and costs 0;
     C08_swap_partial     swapping two elements of a list that are unequal as data costs more than 0 - corollary of
                          C02_partial, inheriting its two carve-outs `typed` (open finding D4) and `nozero` (open finding
                          D16).  What is missing for the full statement is exactly the repair of D4 and D16:
     C08_swap_refuted_D4  [1, 1.0] -> [1.0, 1] costs 0;   C08_swap_refuted_D16  ["", 1] -> [1, ""] costs 0.
   Not covered by a theorem: which items are paired/removed/inserted BELOW the top level of a mapping under strategy
   none (checked on every run on the implementation by BuildSpec.holds_C08 / same_items), and mappings with keys of
   mixed type (YAML files, Python objects), where sorted() falls back to comparing str() and the order need not be
   total: every theorem here keeps the string-key hypothesis (keys_ok / doc_ok).  The property itself does not, so the
   harness JUDGES such mappings with the same holds_C08 (through the yaml Filetype, BasicBuilder and pydiff): cost
   invariance and copy-equality must hold; that the PAIRING among equal-cost alternatives follows the key order there
   is open finding D40 (class BuildSpec.kf_C08_mixed_key_pairing). *)
From Coq Require Import ZArith List Bool Permutation.
Require Import GT.Data GT.ScriptSpec GT.BuildModel GT.BuildSpec GT.ScriptModel GT.EqualSpec GT.EqualProofs GT.BuildProofs
               GT.FixedPermProofs.
Import ListNotations.
Open Scope Z_scope.

Theorem C08_build_canonical_ : forall o d d', o_ake o = true -> keys_ok d = true -> dperm d d' -> build o d = build o d'.
Proof. exact C08_build_canonical. Qed.

Theorem C08_dict_script_ : forall o O pa pb a a' b b', o_ake o = true -> doc_ok a = true -> doc_ok b = true ->
  dperm a a' -> dperm b b' ->
  script O pa pb (build o a) (build o b) = script O pa pb (build o a') (build o b').
Proof. exact C08_dict_script. Qed.

Theorem C08_tree_perm : forall o d d', o_ake o = false -> dperm d d' -> tperm (build o d) (build o d').
Proof. intros o d d' H. exact (proj1 (build_tperm o H) d d'). Qed.

Theorem C08_tperm_cost : forall a O O' pa pb pa' pb' a' b b',
  tperm a a' -> tperm b b' -> wf a = true -> wf a' = true -> wf b = true -> wf b' = true ->
  res_cost (script O pa pb a b) = res_cost (script O' pa' pb' a' b').
Proof. exact tperm_cost. Qed.

Theorem C08_fixed_cost_ : forall o O O' pa pb pa' pb' a a' b b', o_ake o = false -> doc_ok a = true -> doc_ok b = true ->
  dperm a a' -> dperm b b' ->
  res_cost (script O pa pb (build o a) (build o b)) = res_cost (script O' pa' pb' (build o a') (build o b')).
Proof. exact C08_fixed_cost. Qed.

Theorem C08_cost_ : forall o O pa pb a a' b b', doc_ok a = true -> doc_ok b = true -> dperm a a' -> dperm b b' ->
  res_cost (script O pa pb (build o a) (build o b)) = res_cost (script O pa pb (build o a') (build o b')).
Proof. exact C08_cost. Qed.

Theorem C08_pairing : forall O O' pa pb pa' pb' cs cs' ds ds' k t subs k' t' subs',
  tperm (FDict cs) (FDict cs') -> tperm (FDict ds) (FDict ds') ->
  wf (FDict cs) = true -> wf (FDict cs') = true -> wf (FDict ds) = true -> wf (FDict ds') = true ->
  script O pa pb (FDict cs) (FDict ds) = OK (EComp k t subs) ->
  script O' pa' pb' (FDict cs') (FDict ds') = OK (EComp k' t' subs') ->
  same_pairing cs ds subs cs' ds' subs'.
Proof. exact fixed_pairing. Qed.

Theorem C08_equal_ : forall o d d', doc_ok d = true -> dperm d d' -> data_eqb (build o d) (build o d') = true.
Proof. exact C08_equal. Qed.

Theorem C08_node_equal_ : forall o d d', doc_ok d = true -> dperm d d' -> node_eqb (build o d) (build o d') = true.
Proof. exact C08_node_equal. Qed.

Theorem C08_copy_zero_ : forall o O pa pb d d', doc_ok d = true -> dperm d d' ->
  res_cost (script O pa pb (build o d) (build o d')) = Some 0.
Proof. exact C08_copy_zero. Qed.

Theorem C08_swap_partial_ : forall O pa pb p q l i j e,
  let a := Lst p q l in
  let b := Lst p q (swap i j l dummy) in
  (i < j < length l)%nat -> data_eqb (nth i l dummy) (nth j l dummy) = false ->
  wf a = true -> wf b = true -> numtext_ok a = true -> numtext_ok b = true -> consistent a b = true ->
  typed a b = true -> nozero a = true -> nozero b = true ->
  script O pa pb a b = OK e -> 0 < cost e.
Proof. exact C08_swap_partial. Qed.

Theorem C08_swap_refuted_D4 : exists p q l i j e,
  swap_hyps p q l i j = true /\ nozero (Lst p q l) = true /\ nozero (Lst p q (swap i j l dummy)) = true /\
  typed (Lst p q l) (Lst p q (swap i j l dummy)) = false /\
  script no_oracle [] [] (Lst p q l) (Lst p q (swap i j l dummy)) = OK e /\ cost e = 0.
Proof. exact swap_refuted_cross_type. Qed.

Theorem C08_swap_refuted_D16 : exists p q l i j e,
  swap_hyps p q l i j = true /\ typed (Lst p q l) (Lst p q (swap i j l dummy)) = true /\
  nozero (Lst p q l) = false /\
  script no_oracle [] [] (Lst p q l) (Lst p q (swap i j l dummy)) = OK e /\ cost e = 0.
Proof. exact swap_refuted_zero_size. Qed.

(* the hypotheses are satisfiable by non-trivial values *)
Example C08_perm_example :
  doc_ok ex_a = true /\ doc_ok ex_b = true /\ dperm ex_a ex_a' /\ dperm ex_b ex_b' /\
  tree_exact_eqb (build opts_none ex_a) (build opts_none ex_a') = false /\
  res_cost (script no_oracle [] [] (build opts_none ex_a) (build opts_none ex_b)) = Some 17 /\
  res_cost (script no_oracle [] [] (build opts_none ex_a') (build opts_none ex_b')) = Some 17 /\
  build opts_auto ex_a = build opts_auto ex_a' /\
  res_cost (script no_oracle [] [] (build opts_none ex_a) (build opts_none ex_a')) = Some 0.
Proof. exact perm_example. Qed.

Example C08_swap_example : exists e,
  swap_hyps true true l_ok 0 2 = true /\ typed (Lst true true l_ok) (Lst true true (swap 0 2 l_ok dummy)) = true /\
  nozero (Lst true true l_ok) = true /\ nozero (Lst true true (swap 0 2 l_ok dummy)) = true /\
  script no_oracle [] [] (Lst true true l_ok) (Lst true true (swap 0 2 l_ok dummy)) = OK e /\ 0 < cost e.
Proof. exact swap_example. Qed.

Print Assumptions C08_build_canonical_.
Print Assumptions C08_dict_script_.
Print Assumptions C08_tree_perm.
Print Assumptions C08_tperm_cost.
Print Assumptions C08_fixed_cost_.
Print Assumptions C08_cost_.
Print Assumptions C08_pairing.
Print Assumptions C08_equal_.
Print Assumptions C08_node_equal_.
Print Assumptions C08_copy_zero_.
Print Assumptions C08_swap_partial_.
Print Assumptions C08_swap_refuted_D4.
Print Assumptions C08_swap_refuted_D16.
