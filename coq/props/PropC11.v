(* C11 - string changes are minimal.  Statements only; proofs live in GT.LcsProofs (on top of
   GT.EdEngineProofs).  str_script is the model of graphtage.string_edit_distance (ScriptModel.v over the
   matrix engine EdEngine.v); kept = the characters shown as unchanged, n_del / n_add = the numbers of
   characters marked removed / inserted, lcs = textbook longest-common-subsequence length (StrSpec.v). *)
From Coq Require Import ZArith List Bool.
Require Import GT.Data GT.ScriptSpec GT.ScriptModel GT.StrSpec GT.LcsProofs.
Import ListNotations.
Open Scope Z_scope.

(* for ALL pairs of strings (any length; the uint16 wrap of the path-length cells is part of the model) *)
Theorem C11_minimal : forall s t, let ops := snd (str_script s t) in
  subseq (kept ops) s /\ subseq (kept ops) t /\
  (forall w, subseq w s -> subseq w t -> (length w <= length (kept ops))%nat) /\
  no_sub ops = true /\
  Z.of_nat (n_del ops + n_add ops) = Z.of_nat (length s) + Z.of_nat (length t) - 2 * Z.of_nat (length (kept ops)) /\
  fst (str_script s t) = Z.of_nat (n_del ops + n_add ops).
Proof. exact LcsProofs.C11_minimal. Qed.

Theorem C11_cost : forall s t,
  fst (str_script s t) = Z.of_nat (length s) + Z.of_nat (length t) - 2 * Z.of_nat (lcs s t).
Proof. exact LcsProofs.C11_cost. Qed.

Theorem C11_kept_lcs : forall s t, length (kept (snd (str_script s t))) = lcs s t.
Proof. exact LcsProofs.C11_kept_lcs. Qed.

(* no other script of the same pair that pairs only equal characters marks fewer characters *)
Theorem C11_fewest_marks : forall s t ops',
  flat_map sop_from ops' = s -> flat_map sop_to ops' = t -> no_sub ops' = true ->
  (n_del (snd (str_script s t)) + n_add (snd (str_script s t)) <= n_del ops' + n_add ops')%nat.
Proof. exact LcsProofs.C11_fewest_marks. Qed.

(* lcs is what its name says, and the table evaluation used by holds_C11 computes it *)
Theorem C11_lcs_upper : forall l m w, subseq w l -> subseq w m -> (length w <= lcs l m)%nat.
Proof. exact lcs_upper. Qed.

Theorem C11_lcs_witness : forall l m, exists w, subseq w l /\ subseq w m /\ length w = lcs l m.
Proof. exact lcs_witness. Qed.

Theorem C11_lcs_fast : forall l m, lcs_fast l m = lcs l m.
Proof. exact lcs_fast_correct. Qed.

(* the executable statement evaluated by the harness: true on the model's output for all pairs, and what it
   means for any observed script *)
Theorem C11_holds : forall s t, holds_C11 (model_case s t) = true.
Proof. exact LcsProofs.C11_holds. Qed.

Theorem C11_holds_sound : forall c, holds_C11 c = true ->
  let ops := st_ops c in let s := st_s c in let t := st_t c in
  flat_map sop_from ops = s /\ flat_map sop_to ops = t /\
  subseq (kept ops) s /\ subseq (kept ops) t /\
  (forall w, subseq w s -> subseq w t -> (length w <= length (kept ops))%nat) /\
  no_sub ops = true /\
  Z.of_nat (n_del ops + n_add ops) = Z.of_nat (length s) + Z.of_nat (length t) - 2 * Z.of_nat (length (kept ops)) /\
  st_lo c = st_hi c /\ st_hi c = Z.of_nat (n_del ops + n_add ops).
Proof. exact holds_C11_sound. Qed.

(* a script that passes the exact correspondence check is the model's, so it satisfies the statement *)
Theorem C11_corr_holds : forall c, corr_C11 c = true -> holds_C11 c = true.
Proof. exact corr_C11_holds. Qed.

(* equal strings (the class of the fixed defect D21: their cost never became definitive): the model keeps
   every character at cost 0 *)
Theorem C11_equal_strings : forall s, fst (str_script s s) = 0 /\ kept (snd (str_script s s)) = s.
Proof. exact kf_class_model. Qed.

Print Assumptions C11_minimal.
Print Assumptions C11_cost.
Print Assumptions C11_kept_lcs.
Print Assumptions C11_fewest_marks.
Print Assumptions C11_lcs_upper.
Print Assumptions C11_lcs_witness.
Print Assumptions C11_lcs_fast.
Print Assumptions C11_holds.
Print Assumptions C11_holds_sound.
Print Assumptions C11_corr_holds.
Print Assumptions C11_equal_strings.
