(* C17 - bound-driven search, ordering and separation are correct.
   Statements only; proofs live in GT.SearchProofs.  Items are schedules (SearchSpec.v): "cost intervals that
   tighten soundly at arbitrary rates" is `Forall wf_sched`.  `ties`, `ops`, `hints` are the address-, hash- and
   heap-structure-dependent choices of the implementation: universally quantified adversary inputs.  Every model
   function runs on explicit fuel; `fuel_for items` = total schedule length + 2 per item + 4 suffices, so each
   statement includes termination (the answer is `Done`, never `OutOfFuel`/`Crash`/`Unmodelled`). *)
From Coq Require Import List Bool ZArith.
Require Import GT.BoundsSpec GT.SearchSpec GT.SearchModel GT.SearchProofs.
Import ListNotations.
Open Scope Z_scope.

(* BoundedComparator.__lt__ / __le__ terminate and agree with the order of the final values *)
Theorem C17_lt : forall s1 s2 tie fuel,
  wf_sched s1 = true -> wf_sched s2 = true -> (fuel_for [s1; s2] <= fuel)%nat ->
  exists r m', cmp_lt fuel (mkMs [s1; s2] []) 0 1 tie = Done (r, m') /\ holds_lt [s1; s2] (OBool r) = true.
Proof. exact C17_lt_model. Qed.

Theorem C17_le : forall s1 s2 tie fuel,
  wf_sched s1 = true -> wf_sched s2 = true -> (fuel_for [s1; s2] <= fuel)%nat ->
  exists r m', cmp_le fuel (mkMs [s1; s2] []) 0 1 tie = Done (r, m') /\ holds_le [s1; s2] (OBool r) = true.
Proof. exact C17_le_model. Qed.

(* min_bounded returns an item of minimum final value (None exactly for the empty collection) *)
Theorem C17_min : forall items ties fuel,
  Forall (fun s => wf_sched s = true) items -> (fuel_for items <= fuel)%nat ->
  exists r m', min_bounded fuel (mkMs items []) (seq 0 (length items)) ties = Done (r, m') /\
               holds_min items (OItem r) = true.
Proof. exact C17_min_model. Qed.

(* sort: partial - the Fibonacci heap is a validated oracle (see SearchProofs.v).  For every sequence of key
   comparisons and pops the heap may perform, the auto-tightening comparisons terminate and, unless a pop is not
   justified by the comparison outcomes so far or the heap stops early (BadTrace), the output is a permutation of
   the input in non-decreasing order of final value. *)
Theorem C17_sort_partial : forall items ops fuel,
  Forall (fun s => wf_sched s = true) items -> (fuel_for items <= fuel)%nat ->
  match sort_model fuel (mkMs items []) (seq 0 (length items)) ops with
  | Done (l, m') => holds_sort items (OList l) = true
  | BadTrace => True
  | _ => False
  end.
Proof. exact C17_sort_partial_model. Qed.

(* make_distinct terminates (no ValueError on its documented domain) and leaves every pair of items with disjoint
   ranges or both definitive; the ranges it leaves are sound tightenings of the inputs (evolves) *)
Theorem C17_distinct : forall items hints fuel,
  Forall (fun s => wf_sched s = true) items ->
  forallb md_admissible_sched items = true ->
  (fuel_for items <= fuel)%nat ->
  exists m', make_distinct fuel (mkMs items []) (seq 0 (length items)) hints = Done m' /\
             evolves (mkMs items []) m' /\
             holds_distinct items (ORanges (map cur (its m'))) = true.
Proof. exact C17_distinct_model. Qed.

(* IterativeTighteningSearch.search() on a non-empty collection terminates with an item of minimum final value,
   and bounds() is then the single value equal to it *)
Theorem C17_search : forall items hints fuel,
  Forall (fun s => wf_sched s = true) items -> items <> [] -> (fuel_for items <= fuel)%nat ->
  exists b r rets m', search fuel (mkMs items []) (seq 0 (length items)) hints = Done (Some b, r, rets, m') /\
                 evolves (mkMs items []) m' /\ holds_search items (OSearch (Some b) r rets) = true.
Proof. exact C17_search_model. Qed.

Print Assumptions C17_lt.
Print Assumptions C17_le.
Print Assumptions C17_min.
Print Assumptions C17_sort_partial.
Print Assumptions C17_distinct.
Print Assumptions C17_search.
