(* C17 - bound-driven search, ordering and separation are correct.
   Statements only; proofs live in GT.SearchProofs.  Items are schedules (SearchSpec.v): "cost intervals that
   tighten soundly at arbitrary rates" is `Forall wf_sched`.  `ties`, `ops`, `hints` are the address-, hash- and
   heap-structure-dependent choices of the implementation: universally quantified adversary inputs (bounds.sort has
   only the id() order left: its heap is modelled in full).  Every model
   function runs on explicit fuel; `fuel_for items` = total schedule length + 2 per item + 4 suffices, so each
   statement includes termination (the answer is `Done`, never `OutOfFuel`/`Crash`/`Unmodelled`). *)
From Coq Require Import List Bool ZArith Permutation.
Require Import GT.BoundsSpec GT.SearchSpec GT.SearchModel GT.SearchProofs GT.SortModel GT.SortProofs.
Import ListNotations.
Open Scope Z_scope.

(* BoundedComparator.__lt__ / __le__ terminate and agree with the order of the final values *)
Theorem C17_lt : forall s1 s2 tie fuel,
  wf_sched s1 = true -> wf_sched s2 = true -> (fuel_for [s1; s2] <= fuel)%nat ->
  exists r m', cmp_lt fuel (mkMs [s1; s2] []) 0 1 tie = Done (r, m') /\ holds_lt [s1; s2] (OBool r) = true.
Proof. exact C17_lt_model. Qed.

Theorem C17_le : forall s1 s2 tie fuel,
  wf_sched s1 = true -> wf_sched s2 = true -> (fuel_for [s1; s2] <= fuel)%nat ->
  exists r m', cmp_le fuel (mkMs [s1; s2] []) 0 1 tie = Done (r, m') /\ holds_le [s1; s2] (OBool r) = true.
Proof. exact C17_le_model. Qed.

(* min_bounded returns an item of minimum final value (None exactly for the empty collection) *)
Theorem C17_min : forall items ties fuel,
  Forall (fun s => wf_sched s = true) items -> (fuel_for items <= fuel)%nat ->
  exists r m', min_bounded fuel (mkMs items []) (seq 0 (length items)) ties = Done (r, m') /\
               holds_min items (OItem r) = true.
Proof. exact C17_min_model. Qed.

(* sort, unconditional: the full model of bounds.sort - graphtage's Fibonacci heap (the structure-exact model of C16,
   restated over a comparison oracle with state, SortModel.v) driven by the auto-tightening BoundedComparator.__lt__ -
   terminates without error for every collection of sound items and every id() order `ties`, and returns a
   permutation of the input in non-decreasing order of final value.  `hops` is the model's log of key comparisons
   and pops, `m'` the item states afterwards (sound tightenings of the inputs). *)
Theorem C17_sort : forall items ties fuel,
  Forall (fun s => wf_sched s = true) items -> (fuel_for items <= fuel)%nat ->
  exists l m' hops, heap_sort fuel (mkMs items []) (seq 0 (length items)) ties = Done (l, m', hops) /\
                    evolves (mkMs items []) m' /\ holds_sort items (OList l) = true.
Proof. exact C17_sort_model. Qed.

(* the step that makes C17_sort possible: C16's push/pop fragment generalised from "a fixed strict total order on the
   keys" to a key comparison that is an oracle with side effects.  `le s a b` = "in state s, a is established to be at
   most b"; a True answer to `a < b` establishes le a b, a False answer le b a; established facts survive later states
   and are confirmed when asked again; nothing else (no antisymmetry, no stable answers, self-comparisons allowed).
   Then "push 0..n-1, pop until empty" never crashes or runs out of fuel and returns a permutation of the items in
   non-decreasing order of any valuation F that le respects. *)
Theorem C17_heap_oracle :
  forall (St : Type) (cmp : St -> nat -> nat -> outcome (bool * St)) (tick : St -> nat -> St) (n : nat)
         (good : St -> Prop) (ext : St -> St -> Prop) (le : St -> nat -> nat -> Prop) (F : nat -> Z),
  (forall s, ext s s) ->
  (forall a b c, ext a b -> ext b c -> ext a c) ->
  (forall s s', good s -> ext s s' -> good s') ->
  (forall s a, le s a a) ->
  (forall s a b c, good s -> le s a b -> le s b c -> le s a c) ->
  (forall s s' a b, good s -> ext s s' -> le s a b -> le s' a b) ->
  (forall s a b, good s -> (a < n)%nat -> (b < n)%nat -> le s a b -> F a <= F b) ->
  (forall s a b, good s -> (a < n)%nat -> (b < n)%nat ->
     exists r s', cmp s a b = Done (r, s') /\ ext s s' /\
                  (if r then le s' a b else le s' b a) /\ (le s a b -> r = true)) ->
  (forall s i, good s -> ext s (tick s i)) ->
  forall s, good s ->
  exists l s', osort St cmp tick s (seq 0 n) = Done (l, s') /\ ext s s' /\
               Permutation l (seq 0 n) /\ nondecreasing (map F l) = true.
Proof. exact osort_spec. Qed.

(* a sort run of the implementation that corresponds to the full model (same output, same tighten_bounds() calls, same
   comparisons and pops) satisfies the property *)
Theorem C17_sort_corr : forall c, c_op c = OpSort -> corr_sort c = true -> holds_C17 c = true.
Proof. exact C17_sort_corr_holds. Qed.

(* kept from the first version (no longer needed for C17_sort): soundness of trace validation - whatever sequence of
   key comparisons and pops a heap performs, if every pop is justified by the comparison outcomes so far and
   everything is popped, the output is sorted; otherwise the trace is rejected (BadTrace) *)
Theorem C17_sort_trace : forall items ops fuel,
  Forall (fun s => wf_sched s = true) items -> (fuel_for items <= fuel)%nat ->
  match sort_model fuel (mkMs items []) (seq 0 (length items)) ops with
  | Done (l, m') => holds_sort items (OList l) = true
  | BadTrace => True
  | _ => False
  end.
Proof. exact C17_sort_partial_model. Qed.

(* make_distinct terminates (no ValueError on its documented domain) and leaves every pair of items with disjoint
   ranges or both definitive; the ranges it leaves are sound tightenings of the inputs (evolves) *)
Theorem C17_distinct : forall items hints fuel,
  Forall (fun s => wf_sched s = true) items ->
  forallb md_admissible_sched items = true ->
  (fuel_for items <= fuel)%nat ->
  exists m', make_distinct fuel (mkMs items []) (seq 0 (length items)) hints = Done m' /\
             evolves (mkMs items []) m' /\
             holds_distinct items (ORanges (map cur (its m'))) = true.
Proof. exact C17_distinct_model. Qed.

(* IterativeTighteningSearch.search() on a non-empty collection terminates with an item of minimum final value,
   and bounds() is then the single value equal to it *)
Theorem C17_search : forall items hints fuel,
  Forall (fun s => wf_sched s = true) items -> items <> [] -> (fuel_for items <= fuel)%nat ->
  exists b r rets m', search fuel (mkMs items []) (seq 0 (length items)) hints = Done (Some b, r, rets, m') /\
                 evolves (mkMs items []) m' /\ holds_search items (OSearch (Some b) r rets) = true.
Proof. exact C17_search_model. Qed.

(* `for node in list(self._untightened.min_node)` - modelling only the first node is without loss of generality: let
   the rest of that loop be ANY function `alt` of the state reached when heap._min's tighten_bounds() returns False
   (search_g); for sound items the result is the one of C17_search for every `alt`: the continuation is dead code *)
Theorem C17_search_first_node : forall alt items hints fuel,
  Forall (fun s => wf_sched s = true) items -> items <> [] -> (fuel_for items <= fuel)%nat ->
  exists b r rets m', search_g alt fuel (mkMs items []) (seq 0 (length items)) hints = Done (Some b, r, rets, m') /\
                 search fuel (mkMs items []) (seq 0 (length items)) hints = Done (Some b, r, rets, m') /\
                 evolves (mkMs items []) m' /\ holds_search items (OSearch (Some b) r rets) = true.
Proof. exact C17_search_general. Qed.

Print Assumptions C17_lt.
Print Assumptions C17_le.
Print Assumptions C17_min.
Print Assumptions C17_sort.
Print Assumptions C17_heap_oracle.
Print Assumptions C17_sort_corr.
Print Assumptions C17_sort_trace.
Print Assumptions C17_distinct.
Print Assumptions C17_search.
Print Assumptions C17_search_first_node.
