(* C01 - the edit script turns the first document into the second.
   `script` is the big-step model of the edit engine (GT.ScriptModel, assembled from code translated from /repo on
   every run: GTgen.EdGen), tied to the implementation by exact script correspondence on every run.
   `valid a b e` (GT.ScriptSpec): every child of a is accounted for exactly once (paired or removed) and every
   child of b exactly once (paired or inserted), in order for lists, recursively at every nesting level, and a
   string edit spells both strings: discarding what is inserted reproduces a, discarding what is removed
   reproduces b. *)
From Coq Require Import ZArith List Bool.
Require Import GT.Data GT.ScriptSpec GT.ScriptModel GT.ScriptProofs GT.MSetProofs.
Import ListNotations.

(* for every matching oracle O (any answer the assignment solver may give, any hash order), every pair of
   positions and every pair of well-formed trees (JSON path: leaves, lists, mappings under all three strategies) *)
Theorem C01 : forall O pa pb a b e,
  wf a = true -> wf b = true -> script O pa pb a b = OK e -> valid a b e = true.
Proof. intros O pa pb a b e Ha Hb H. exact (script_valid a O pa pb b e Ha Hb H). Qed.

(* the executable statement evaluated on the implementation's scripts is the one proved *)
Corollary C01_holds : forall O a b e ft ec,
  wf a = true -> wf b = true -> script O [] [] a b = OK e ->
  holds_C01 {| sc_a := a; sc_b := b; sc_edit := e; sc_flat_total := ft; sc_edited_cost := ec |} = true.
Proof. intros. unfold holds_C01. cbn. eapply C01; eauto. Qed.

Print Assumptions C01.
Print Assumptions C01_holds.
