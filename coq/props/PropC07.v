(* C07 - diffing is a pure, deterministic function of its inputs.   Level: proof, PARTIAL.

   A theorem cannot exhibit CPython's hash randomisation or allocation order.  In the models every place where the
   implementation consults a hash order, the insertion history of a hash container or an object address is an
   explicit adversary argument (GT.DetModel.declared_adversaries); the theorems below prove independence from the
   adversaries of the script model, the translator pass (GTgen.DetGen, re-run on every check) together with
   C07_sites_audited checks that the declaration is complete for the current source, and the multi-seed /
   perturbed-allocation runs of harness/pC07.py observe the runtime (GT.DetSpec.holds_C07).
   Purity: the model's inputs are values (GT.DetModel, header comment); for the implementation it is observed
   (DetSpec.inputs_unchanged, repeats_equal). *)
From Coq Require Import ZArith List Bool.
Require Import GT.PyBase GT.Data GT.ScriptSpec GT.ScriptModel GTgen.EdGen GT.DetSpec GTgen.DetGen GT.DetModel GT.DetProofs.
Import ListNotations.
Open Scope Z_scope.

(* pi: on a source that collects the removed pairs in a list, the set-order adversary has no influence at all *)
Theorem C07_order_irrelevant :
  fixed_dict_removals_in_hash_order = false ->
  forall O O', o_match O = o_match O' -> forall pa pb a b, script O pa pb a b = script O' pa pb a b.
Proof. exact order_irrelevant. Qed.

(* ... and the current source is such a source (the flag is translated from graphtage/graphtage.py on every run) *)
Theorem C07_order_irrelevant_now :
  forall O O', o_match O = o_match O' -> forall pa pb a b, script O pa pb a b = script O' pa pb a b.
Proof. exact order_irrelevant_now. Qed.

Example C07_order_irrelevant_example :
  o_match w_O = o_match w_O' /\ o_order w_O <> o_order w_O' /\
  exists c c0 c1 c2, script w_O [] [] w_a w_b = OK (EComp KFixedDict c [SRem 0 c0; SRem 1 c1; SIns 0 c2]).
Proof. exact order_irrelevant_example. Qed.

(* when the removed pairs are collected in a set the dependence is real *)
Theorem C07_hash_order_refuted_if :
  fixed_dict_removals_in_hash_order = true ->
  exists O O' a b, o_match O = o_match O' /\ script O [] [] a b <> script O' [] [] a b.
Proof. exact hash_order_refuted_if. Qed.

(* tau: the script depends on which assignment the matcher returns ... *)
Example C07_match_script_depends :
  script m_O [] [] m_a m_b <> script m_O' [] [] m_a m_b /\
  res_cost (script m_O [] [] m_a m_b) = res_cost (script m_O' [] [] m_a m_b) /\
  res_cost (script m_O [] [] m_a m_b) = Some 2.
Proof. exact match_script_depends. Qed.

(* ... its cost, hence the exit status, does not, as long as the two answers are equally good at every multiset
   edit.  PARTIAL: that two answers of the solver are equally good follows from their optimality, which is the
   contract of C15 (scipy) and is not proved here. *)
Theorem C07_match_cost_partial :
  forall O O', o_order O = o_order O' -> equally_good O O' ->
  forall pa pb a b, res_cost (script O pa pb a b) = res_cost (script O' pa pb a b).
Proof. exact match_cost_partial. Qed.

Theorem C07_match_status_partial :
  forall O O', o_order O = o_order O' -> equally_good O O' ->
  forall a b, model_status (script O [] [] a b) = model_status (script O' [] [] a b).
Proof. exact match_status_partial. Qed.

Example C07_equally_good_example :
  let O1 := {| o_match := [([], [], [(0, 0); (1, 1)]%nat)]; o_order := [] |} in
  let O2 := {| o_match := [([], [], [(0, 0); (1, 1)]%nat); ([], [], [(1, 0); (0, 1)]%nat)]; o_order := [] |} in
  o_match O1 <> o_match O2 /\ o_order O1 = o_order O2 /\ equally_good O1 O2.
Proof. exact equally_good_example. Qed.

(* completeness of the declared adversaries for the current source (regenerated on every run) *)
Theorem C07_sites_audited : forallb site_is_audited nondeterminism_sites = true.
Proof. exact sites_audited. Qed.

(* what the executable statement evaluated on the observations means *)
Theorem C07_holds_spec : forall c, holds_C07 c = true ->
  forall r r', In r (dc_runs c) -> In r' (dc_runs c) ->
    ro_status r = ro_status r' /\ ro_len r = ro_len r' /\ ro_digest r = ro_digest r'.
Proof. exact holds_C07_spec. Qed.

Print Assumptions C07_order_irrelevant.
Print Assumptions C07_order_irrelevant_now.
Print Assumptions C07_hash_order_refuted_if.
Print Assumptions C07_match_cost_partial.
Print Assumptions C07_match_status_partial.
Print Assumptions C07_sites_audited.
Print Assumptions C07_holds_spec.
