(* C19 - match expressions cannot reach private attributes.
   Statements only; proofs live in GT.ExprProofs.  `eval` is the stack-machine model of
   Expression.eval / get_value / get_member over ARBITRARY RPN token lists; `member_allowed`, `whitelist`
   and `operators` are translated from /repo/graphtage/expressions.py on every run (GTgen.ExprGen).
   Assumptions named in the trusted base (not axioms): the capability table ExprModel.fmt_methods
   (only str.format / str.format_map read attributes named by data) and, in the statements that need
   it, the data-environment hypothesis clean_heap / clean_env. *)
From Coq Require Import String List Bool ZArith.
Require Import GT.PyBase GT.ExprSpec GTgen.ExprGen GT.ExprModel GT.ExprProofs.
Import ListNotations.
Open Scope string_scope.

(* always: every attribute read the evaluator performs itself passed the guard and is not private;
   every name it resolves is one of the given variables or whitelisted - for every RPN, heap, locals *)
Theorem C19_direct : forall rpn h locals ev, In ev (log (eval rpn h locals)) ->
  match ev with
  | ReadAttr ByMember v n => member_allowed n = true /\ is_private n = false
  | ReadAttr ByOffset v n => n = "offset"
  | Resolve n => In n (dom locals) \/ In n whitelist
  | _ => True
  end.
Proof. exact C19_direct_thm. Qed.

(* the full property, once the translated guard refuses format / format_map (false on the pinned tree: D12) *)
Theorem C19_full_if_guard_denies_format : guard_denies_format = true ->
  forall rpn h locals, clean_heap h = true -> clean_env locals = true ->
  forall ev, In ev (log (eval rpn h locals)) ->
    match ev with
    | ReadAttr o v n => is_private n = false /\ (o = ByMember -> member_allowed n = true)
    | Resolve n => In n (dom locals) \/ In n whitelist
    | Call _ _ => True
    | ReadAny => False
    end.
Proof. exact C19_full_if_guard_denies_format_thm. Qed.

(* ... and its refutation while the guard lets one of them through: '{0._x}'.format(o) *)
Theorem C19_refuted_if_not : guard_denies_format = false ->
  exists rpn h locals, clean_heap h = true /\ clean_env locals = true /\
  exists ev, In ev (log (eval rpn h locals)) /\ ~ safe_event member_allowed locals ev.
Proof. exact C19_refuted_if_not_thm. Qed.

(* carve-out of D12: expressions that do not mention format / format_map *)
Theorem C19_partial : forall rpn h locals, mentions_format rpn = false ->
  clean_heap h = true -> clean_env locals = true ->
  forall ev, In ev (log (eval rpn h locals)) -> safe_event member_allowed locals ev.
Proof. exact C19_partial_thm. Qed.

(* the repair considered for D12 is sufficient in the model *)
Theorem C19_repair : forall rpn h locals, clean_heap h = true -> clean_env locals = true ->
  forall ev, In ev (log (eval_g repaired_guard rpn h locals)) -> safe_event repaired_guard locals ev.
Proof. exact C19_repair_sufficient. Qed.

(* the data-environment hypothesis cannot be dropped (D20: objects exposing Python functions / generators) *)
Theorem C19_needs_clean_env :
  exists rpn h locals, mentions_format rpn = false /\ clean_env locals = true /\
  In ReadAny (log (eval rpn h locals)).
Proof. exact C19_needs_clean_env_thm. Qed.

(* the translated guard refuses every private name; the translated table of globals is the documented one *)
Theorem C19_guard_sound : forall n, member_allowed n = true -> is_private n = false.
Proof. exact guard_sound. Qed.
Theorem C19_whitelist_documented : forall n, In n whitelist <-> In n documented_whitelist.
Proof. exact whitelist_documented. Qed.

Print Assumptions C19_direct.
Print Assumptions C19_full_if_guard_denies_format.
Print Assumptions C19_refuted_if_not.
Print Assumptions C19_partial.
Print Assumptions C19_repair.
Print Assumptions C19_needs_clean_env.
Print Assumptions C19_guard_sound.
Print Assumptions C19_whitelist_documented.
