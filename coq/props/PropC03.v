(* C03 - the reported cost equals the sum of its parts, in every view.
   `additive e`: every compound's OWN reported cost is the sum of the own costs of the sub-edits it lists, at every
   nesting level (string edits: the sum of their character operations); `flat_costs e`: the flat list of all
   non-zero, non-compound edits (the get_all_edits view).  The model's own costs are each class's bounds() formula
   at completion (EditDistance: the lower right matrix cell; MultiSetEdit: matcher + pre-matched pairs + unmatched
   nodes as the CURRENT source computes them - GTgen.EdGen.multiset_counts_actual_leftovers). *)
From Coq Require Import ZArith List Bool.
Require Import GT.Data GT.ScriptSpec GT.ScriptModel GT.CostProofs.
Import ListNotations.
Open Scope Z_scope.

Theorem C03 : forall O pa pb a b e, script O pa pb a b = OK e ->
  additive e = true /\ zsum (flat_costs e) = cost e.
Proof.
  intros O pa pb a b e H. pose proof (script_additive a O pa pb b e H) as Ha.
  split; [exact Ha|apply flat_view_total; exact Ha].
Qed.

(* the third view (EditedTreeNode.edited_cost of the annotated diff tree) is not modelled: it is compared with the
   top-level cost on every implementation run by holds_C03 (evidence: correspondence only) *)
Theorem C03_partial_views : forall O a b e, script O [] [] a b = OK e ->
  holds_C03 {| sc_a := a; sc_b := b; sc_edit := e; sc_flat_total := zsum (flat_costs e); sc_edited_cost := cost e |} = true.
Proof.
  intros O a b e H. destruct (C03 _ _ _ _ _ _ H) as [Ha Hf]. unfold holds_C03.
  cbn [sc_a sc_b sc_edit sc_flat_total sc_edited_cost]. rewrite Ha, Hf, !Z.eqb_refl. reflexivity.
Qed.

Print Assumptions C03.
Print Assumptions C03_partial_views.
