(* C09: in the model every loader builds the same tree from the same data, the same data diffs to cost 0 between
   any two formats that carry the same wrapper (and from plist into anything), and the cost against a third
   document does not depend on the formats - except INTO a plist from a non-plist (open finding D8b), which the
   model exhibits. *)
From Coq Require Import ZArith List Bool Lia.
Require Import GT.PyBase GT.Data GT.ScriptSpec GT.BuildModel GT.LoadSpec GT.EdEngine GT.LevModel GT.LevProofs GT.EdTypes
               GTgen.EdGen GT.EdParams GT.ScriptModel GT.ScriptProofs GT.LoadModel.
Import ListNotations.
Open Scope Z_scope.

Lemma load_same_tree : forall f1 f2 o d, r_tree (load f1 o d) = r_tree (load f2 o d).
Proof. reflexivity. Qed.

Lemma str_eqb_refl' : forall s, str_eqb s s = true.
Proof. induction s as [|x s IH]; cbn; [reflexivity|]. rewrite Z.eqb_refl. exact IH. Qed.

Lemma py_eqb_refl : forall x, py_eqb x x = true.
Proof.
  intro x. unfold py_eqb. destruct (lk x); try reflexivity; try apply str_eqb_refl'; unfold num_eqb; apply Z.eqb_refl.
Qed.

Lemma node_eqb_refl : forall a, node_eqb a a = true.
Proof.
  apply tree_rect'.
  - intro x. cbn. apply py_eqb_refl.
  - intros p q cs IH. cbn. induction IH as [|c cs Hc _ IHcs]; [reflexivity|]. rewrite Hc. exact IHcs.
  - intros p k v Hk Hv. cbn. rewrite Hk, Hv. reflexivity.
  - intros p cs IH. cbn. rewrite Nat.eqb_refl. cbn [andb].
    assert (H : forall ys, incl cs ys ->
      (fix all (xs : list tree) : bool :=
         match xs with [] => true | x :: xs' => existsb (fun y => node_eqb x y) ys && all xs' end) cs = true).
    { induction IH as [|c cs Hc _ IHcs]; intros ys Hi; [reflexivity|].
      apply andb_true_intro. split.
      - apply existsb_exists. exists c. split; [apply Hi; left; reflexivity|exact Hc].
      - apply IHcs. intros z Hz. apply Hi. right. exact Hz. }
    apply H. apply incl_refl.
  - intros cs IH. cbn. rewrite Nat.eqb_refl. cbn [andb].
    assert (H : forall ys, incl cs ys ->
      (fix all (xs : list tree) : bool :=
         match xs with [] => true | x :: xs' => existsb (fun y => node_eqb x y) ys && all xs' end) cs = true).
    { induction IH as [|c cs Hc _ IHcs]; intros ys Hi; [reflexivity|].
      apply andb_true_intro. split.
      - apply existsb_exists. exists c. split; [apply Hi; left; reflexivity|exact Hc].
      - apply IHcs. intros z Hz. apply Hi. right. exact Hz. }
    apply H. apply incl_refl.
Qed.

Lemma lev_refl' : forall s, lev s s = 0.
Proof. intro s. unfold lev. destruct lev_returns_loop_var_cell; [destruct s; [reflexivity|]|]; apply lev_dp_refl. Qed.

Lemma list_eq_refl : forall cs,
  (fix go (xs ys : list tree) : bool :=
     match xs, ys with
     | [], [] => true
     | x :: xs', y :: ys' => node_eqb x y && go xs' ys'
     | _, _ => false
     end) cs cs = true.
Proof. induction cs as [|c cs IH]; [reflexivity|]. rewrite node_eqb_refl. exact IH. Qed.

(* a tree diffed against itself costs nothing, whatever the oracle and the options *)
Theorem self_zero : forall O pa pb a e, script O pa pb a a = OK e -> cost e = 0.
Proof.
  intros O pa pb a e H. destruct a as [x|p q cs|p k v|p cs|cs].
  - cbn in H. unfold leaf_script in H.
    assert (Hm : leaf_match_cost x x = 0).
    { unfold leaf_match_cost, leaf_match_cost_raw. rewrite lev_refl', py_eqb_refl, andb_false_r. apply leaf_cap_zero. }
    destruct (lk x) eqn:Ek; rewrite ?Ek in H; try (inversion H; subst e; cbn; exact Hm).
    + rewrite str_eqb_refl' in H. inversion H; reflexivity.
    + inversion H; reflexivity.
  - cbn [script] in H. rewrite list_eq_refl in H. cbn in H. inversion H; reflexivity.
  - cbn [script] in H. rewrite !node_eqb_refl, orb_true_r in H. inversion H; reflexivity.
  - cbn [script] in H. rewrite node_eqb_refl, orb_true_r in H. inversion H; reflexivity.
  - cbn [script] in H.
    assert (H1 : forallb (fun c => existsb (fun d => node_eqb c d) cs) cs = true).
    { apply forallb_forall. intros c Hc. apply existsb_exists. exists c. split; [exact Hc|apply node_eqb_refl]. }
    assert (H2 : forallb (fun d => existsb (fun c => node_eqb c d) cs) cs = true).
    { apply forallb_forall. intros c Hc. apply existsb_exists. exists c. split; [exact Hc|apply node_eqb_refl]. }
    rewrite H1, H2, orb_true_r in H. inversion H; reflexivity.
Qed.

(* the script of a tree against itself always exists (no oracle is consulted) *)
Lemma self_script : forall O pa pb a, exists e, script O pa pb a a = OK e.
Proof.
  intros O pa pb a. destruct a as [x|p q cs|p k v|p cs|cs].
  - cbn. unfold leaf_script. destruct (lk x) eqn:Ek; rewrite ?Ek; eauto. rewrite str_eqb_refl'. eauto.
  - cbn [script]. rewrite list_eq_refl. cbn. eauto.
  - cbn [script]. rewrite !node_eqb_refl, orb_true_r. eauto.
  - cbn [script]. rewrite node_eqb_refl, orb_true_r. eauto.
  - cbn [script].
    assert (H1 : forallb (fun c => existsb (fun d => node_eqb c d) cs) cs = true).
    { apply forallb_forall. intros c Hc. apply existsb_exists. exists c. split; [exact Hc|apply node_eqb_refl]. }
    assert (H2 : forallb (fun d => existsb (fun c => node_eqb c d) cs) cs = true).
    { apply forallb_forall. intros c Hc. apply existsb_exists. exists c. split; [exact Hc|apply node_eqb_refl]. }
    rewrite H1, H2, orb_true_r. eauto.
Qed.

(* C09, first half: the same data in any two formats outside D8b's class is a zero-cost edit, in both
   directions, and the documents are equal under the implementation's == when they carry the same wrapper *)
Theorem C09_same_data_zero : forall O f1 f2 o d, kf_into_plist f1 f2 = false ->
  exists r, root_script O (load f1 o d) (load f2 o d) = Some r /\ rcost r = 0.
Proof.
  intros O f1 f2 o d Hk. unfold root_script, load. cbn [r_plist r_tree].
  destruct (self_script O [] [] (build o d)) as [e He]. pose proof (self_zero _ _ _ _ _ He) as Hz.
  unfold kf_into_plist in Hk.
  destruct (is_plist f1), (is_plist f2); try discriminate; rewrite He; eexists; (split; [reflexivity|exact Hz]).
Qed.

Theorem C09_same_data_equal : forall f1 f2 o d, kf_wrapper_mismatch f1 f2 = false ->
  root_node_eqb (load f1 o d) (load f2 o d) = true.
Proof.
  intros f1 f2 o d Hk. unfold root_node_eqb, load. cbn [r_plist r_tree]. rewrite node_eqb_refl, andb_true_r.
  unfold kf_wrapper_mismatch in Hk. destruct (is_plist f1), (is_plist f2); try discriminate; reflexivity.
Qed.

(* second half: the cost against a third document does not depend on the formats (outside D8b's class) *)
Theorem C09_third_document : forall O f1 f2 f3 f4 o d x,
  kf_into_plist f1 f3 = false -> kf_into_plist f2 f4 = false ->
  match root_script O (load f1 o d) (load f3 o x), root_script O (load f2 o d) (load f4 o x) with
  | Some r, Some r' => rcost r = rcost r'
  | None, None => True
  | _, _ => False
  end.
Proof.
  intros O f1 f2 f3 f4 o d x H1 H2. unfold root_script, load, kf_into_plist in *. cbn [r_plist r_tree].
  destruct (is_plist f1), (is_plist f3); try discriminate; destruct (is_plist f2), (is_plist f4); try discriminate;
    destruct (script O [] [] (build o d) (build o x)); cbn; auto.
Qed.

(* D8b: INTO a plist from a non-plist the same data is a wholesale Replace of positive cost *)
Lemma size_nonneg : forall t, 0 <= size t.
Proof.
  apply tree_rect'.
  - intro x. cbn. unfold leaf_size. destruct (lk x); unfold zlen; lia.
  - intros p q cs IH. cbn. induction IH as [|c cs Hc _ IHcs]; cbn; [lia|]. fold (zsum (map (fun c => size c + 1) cs)). lia.
  - intros p k v Hk Hv. cbn. lia.
  - intros p cs IH. cbn. induction IH as [|c cs Hc _ IHcs]; cbn; [lia|]. fold (zsum (map (fun c => size c + 1) cs)). lia.
  - intros cs IH. cbn. induction IH as [|c cs Hc _ IHcs]; cbn; [lia|]. fold (zsum (map (fun c => size c + 1) cs)). lia.
Qed.

Theorem C09_into_plist_refuted : forall O f1 f2 o d, kf_into_plist f1 f2 = true ->
  exists c, root_script O (load f1 o d) (load f2 o d) = Some (RReplace c) /\ 0 < c.
Proof.
  intros O f1 f2 o d Hk. unfold kf_into_plist in Hk. apply andb_prop in Hk as [H1 H2].
  unfold root_script, load. cbn [r_plist r_tree]. rewrite H2. destruct (is_plist f1); [discriminate|].
  eexists. split; [reflexivity|]. unfold replace_cost, replace_cost_gen. pose proof (size_nonneg (build o d)). lia.
Qed.

(* the statement evaluated by the harness holds of the model's own observations *)
Definition model_case (O : oracle) (o : bopts) (d x : doc) : load_case :=
  let pairs := list_prod all_fmts all_fmts in
  let cst := fun a b => match root_script O a b with Some r => rcost r | None => -1 end in
  {| lc_opts := o; lc_d := d; lc_x := x;
     lc_roots_d := map (fun f => (f, load f o d)) all_fmts;
     lc_roots_x := map (fun f => (f, load f o x)) all_fmts;
     lc_dd := map (fun p => (fst p, snd p, root_node_eqb (load (fst p) o d) (load (snd p) o d),
                             cst (load (fst p) o d) (load (snd p) o d))) pairs;
     lc_dx := map (fun p => (fst p, snd p, cst (load (fst p) o d) (load (snd p) o x))) pairs;
     lc_exits := [] |}.

Theorem C09_model_holds_partial : forall O o d x, holds_C09_partial (model_case O o d x) = true.
Proof.
  intros O o d x. unfold holds_C09_partial, holds_C09_gen, model_case. cbn [lc_dd lc_exits lc_dx forallb andb].
  rewrite andb_true_r. apply andb_true_intro. split.
  - apply forallb_forall. intros t Ht. apply in_map_iff in Ht. destruct Ht as [[f1 f2] [<- _]]. cbn [fst snd dd_ok andb].
    destruct (kf_into_plist f1 f2) eqn:Ek; [reflexivity|].
    destruct (C09_same_data_zero O f1 f2 o d Ek) as [r [Hr Hz]]. rewrite Hr, Hz. cbn [Z.eqb andb].
    destruct (kf_wrapper_mismatch f1 f2) eqn:Em; [reflexivity|]. apply C09_same_data_equal. exact Em.
  - unfold dx_ok.
    set (l := filter _ _).
    assert (Hl : forall t, In t l -> let '(f1, f3, c) := t in
              kf_into_plist f1 f3 = false /\
              c = match root_script O (load f1 o d) (load f3 o x) with Some r => rcost r | None => -1 end).
    { intros [[f1 f3] c] Ht. unfold l in Ht. apply filter_In in Ht. destruct Ht as [Hin Hf].
      apply in_map_iff in Hin. destruct Hin as [[g1 g3] [Heq _]]. cbn [fst snd] in Heq. inversion Heq; subst.
      cbn [andb] in Hf. split; [|reflexivity]. destruct (kf_into_plist f1 f3); [discriminate|reflexivity]. }
    destruct l as [|[[g1 g3] c0] l']; [reflexivity|].
    apply forallb_forall. intros [[f1 f3] c] Ht.
    pose proof (Hl _ (or_introl eq_refl)) as [Hk0 Hc0]. pose proof (Hl _ Ht) as [Hk Hc]. cbn beta iota in *.
    pose proof (C09_third_document O f1 g1 f3 g3 o d x Hk Hk0) as H3. subst c c0.
    destruct (root_script O (load f1 o d) (load f3 o x)), (root_script O (load g1 o d) (load g3 o x)); try contradiction.
    + rewrite H3. apply Z.eqb_refl.
    + reflexivity.
Qed.

(* ... and the full statement fails on the model for every document (D8b is not an artefact of some input) *)
Theorem C09_refuted : forall O o d x, holds_C09 (model_case O o d x) = false.
Proof.
  intros O o d x. unfold holds_C09, holds_C09_gen, model_case. cbn [lc_dd lc_exits lc_dx].
  apply andb_false_iff. left. apply andb_false_iff. left.
  apply not_true_is_false. intro H. rewrite forallb_forall in H.
  specialize (H (FJson, FPlist, root_node_eqb (load FJson o d) (load FPlist o d),
                 match root_script O (load FJson o d) (load FPlist o d) with Some r => rcost r | None => -1 end)).
  assert (Hin : In (FJson, FPlist) (list_prod all_fmts all_fmts)) by (cbn; auto 20).
  specialize (H (in_map (fun p => (fst p, snd p, root_node_eqb (load (fst p) o d) (load (snd p) o d),
                   match root_script O (load (fst p) o d) (load (snd p) o d) with Some r => rcost r | None => -1 end)) _ _ Hin)).
  destruct (C09_into_plist_refuted O FJson FPlist o d eq_refl) as [c [Hc Hpos]].
  unfold dd_ok in H. cbn [andb] in H. rewrite Hc in H. cbn [rcost] in H.
  apply andb_prop in H as [H _]. apply Z.eqb_eq in H. lia.
Qed.

(* hypotheses are satisfiable / the theorems say something: a concrete non-trivial instance *)
Definition sl (s : list Z) : leaf := {| lk := KStr; ltext := s; lnum := 0; lexp := 0 |}.
Definition il (z : Z) (t : list Z) : leaf := {| lk := KInt; ltext := t; lnum := z; lexp := 0 |}.
Definition ex_doc : doc := DObj [(sl [98], DArr [DLeaf (il 1 [49]); DLeaf (sl [120])]); (sl [97], DLeaf (il 2 [50]))].
Definition ex_doc' : doc := DObj [(sl [98], DArr [DLeaf (il 1 [49]); DLeaf (sl [121])]); (sl [97], DLeaf (il 2 [50]))].
Definition ex_opts : bopts := {| o_ake := false; o_amk := false; o_ale := true; o_alsl := true |}.
Example C09_example :
  keys_ok ex_doc = true /\
  (exists r, root_script (Build_oracle [] []) (load FPlist ex_opts ex_doc) (load FYaml ex_opts ex_doc') = Some r /\ rcost r = 2) /\
  (exists r, root_script (Build_oracle [] []) (load FJson ex_opts ex_doc) (load FJson5 ex_opts ex_doc') = Some r /\ rcost r = 2).
Proof. split; [reflexivity|]. split; eexists; split; vm_compute; reflexivity. Qed.
