(* C08, builder half: DictNode.from_dict sorts its pairs, so the tree json.build_tree makes under the 'auto' and
   'match' strategies does not depend on the order of the keys in the file, at any depth.  For the 'none'
   strategy (FixedKeyDictNode keeps file order) see FixedPermProofs.v. *)
From Coq Require Import ZArith List Bool Lia Permutation Sorted.
Require Import GT.Data GT.BuildModel.
Import ListNotations.
Open Scope Z_scope.

(* ---------------------------------------------------------------- Python's < on str is a strict total order *)
Lemma str_ltb_irrefl : forall a, str_ltb a a = false.
Proof. induction a as [|x a IH]; cbn; [reflexivity|]. rewrite Z.ltb_irrefl, Z.eqb_refl, IH. reflexivity. Qed.

Lemma str_ltb_trans : forall a b c, str_ltb a b = true -> str_ltb b c = true -> str_ltb a c = true.
Proof.
  induction a as [|x a IH]; intros [|y b] [|z c] H1 H2; cbn in *; try discriminate; try reflexivity.
  destruct (Z.ltb_spec x y) as [Hxy|Hxy]; cbn in H1.
  - destruct (Z.ltb_spec y z) as [Hyz|Hyz]; cbn in H2.
    + destruct (Z.ltb_spec x z); [reflexivity|lia].
    + destruct (Z.eqb_spec y z) as [->|]; [|discriminate]. destruct (Z.ltb_spec x z); [reflexivity|lia].
  - destruct (Z.eqb_spec x y) as [->|]; [|discriminate]. cbn in H1.
    destruct (Z.ltb_spec y z) as [Hyz|Hyz]; cbn in H2; [reflexivity|].
    destruct (Z.eqb_spec y z) as [->|]; [|discriminate]. cbn in H2. cbn. apply (IH b c H1 H2).
Qed.

Lemma str_ltb_asym : forall a b, str_ltb a b = true -> str_ltb b a = false.
Proof.
  intros a b H. destruct (str_ltb b a) eqn:E; [|reflexivity].
  pose proof (str_ltb_trans _ _ _ H E) as Hc. rewrite str_ltb_irrefl in Hc. discriminate.
Qed.

Lemma str_ltb_total : forall a b, str_ltb a b = false -> str_ltb b a = false -> a = b.
Proof.
  induction a as [|x a IH]; intros [|y b] H1 H2; cbn in *; try discriminate; [reflexivity|].
  destruct (Z.ltb_spec x y); [discriminate|]. destruct (Z.ltb_spec y x); [discriminate|]. cbn in *.
  assert (x = y) by lia. subst y. rewrite Z.eqb_refl in *. cbn in *. f_equal. apply IH; assumption.
Qed.

(* ---------------------------------------------------------------- sorted() on pairs with distinct string keys *)
Definition ktext (c : tree) : str := match kvp_key c with Leaf x => ltext x | _ => [] end.
Definition key_leaf (c : tree) : Prop := exists x, kvp_key c = Leaf x.
Definition klt (c d : tree) : Prop := kvp_ltb c d = true.

Lemma kvp_ltb_text : forall c d, key_leaf c -> key_leaf d -> kvp_ltb c d = str_ltb (ktext c) (ktext d).
Proof. intros c d [x Hx] [y Hy]. unfold kvp_ltb, key_ltb, ktext. rewrite Hx, Hy. reflexivity. Qed.

Lemma ins_kvp_perm : forall c l, Permutation (c :: l) (ins_kvp c l).
Proof.
  induction l as [|d l IH]; cbn; [reflexivity|]. destruct (kvp_ltb d c); [|reflexivity].
  rewrite perm_swap. apply perm_skip. exact IH.
Qed.

Lemma sort_kvps_perm : forall l, Permutation l (sort_kvps l).
Proof. induction l as [|c l IH]; cbn; [reflexivity|]. rewrite <- ins_kvp_perm. apply perm_skip. exact IH. Qed.

Lemma ins_kvp_sorted : forall c l, key_leaf c -> Forall key_leaf l -> ~ In (ktext c) (map ktext l) ->
  StronglySorted klt l -> StronglySorted klt (ins_kvp c l).
Proof.
  induction l as [|d l IH]; intros Hc Hl Hn Hs; cbn; [repeat constructor|].
  inversion Hl as [|? ? Hd Hl']; subst. inversion Hs as [|? ? Hs' Hall]; subst.
  assert (Hne : ktext c <> ktext d) by (intro E; apply Hn; left; symmetry; exact E).
  destruct (kvp_ltb d c) eqn:Edc.
  - constructor.
    + apply IH; [exact Hc|exact Hl'|intro Hi; apply Hn; right; exact Hi|exact Hs'].
    + rewrite <- ins_kvp_perm. constructor; [exact Edc|exact Hall].
  - assert (Hcd : klt c d).
    { unfold klt. rewrite kvp_ltb_text in * by assumption.
      destruct (str_ltb (ktext c) (ktext d)) eqn:E; [reflexivity|]. exfalso. apply Hne. apply str_ltb_total; assumption. }
    constructor; [exact Hs|]. constructor; [exact Hcd|].
    rewrite Forall_forall in *. intros e He. specialize (Hall e He). specialize (Hl' e He).
    unfold klt in *. rewrite kvp_ltb_text in * by assumption. eapply str_ltb_trans; eassumption.
Qed.

Lemma sort_kvps_sorted : forall l, Forall key_leaf l -> NoDup (map ktext l) -> StronglySorted klt (sort_kvps l).
Proof.
  induction l as [|c l IH]; intros Hl Hn; cbn; [constructor|].
  inversion Hl; subst. inversion Hn as [|? ? Hni Hn']; subst.
  apply ins_kvp_sorted; [assumption| | |apply IH; assumption].
  - rewrite <- sort_kvps_perm. assumption.
  - intro Hi. apply Hni. eapply Permutation_in; [|exact Hi]. apply Permutation_map. symmetry. apply sort_kvps_perm.
Qed.

Lemma klt_sorted_perm_eq : forall l l', Forall key_leaf l ->
  StronglySorted klt l -> StronglySorted klt l' -> Permutation l l' -> l = l'.
Proof.
  intros l l' Hk Hl. revert l' Hk. induction Hl as [|x l Hs IH Hall]; intros l' Hk Hl' Hp.
  - apply Permutation_nil in Hp. congruence.
  - destruct Hl' as [|y l' Hs' Hall'].
    + apply Permutation_sym, Permutation_nil in Hp. discriminate.
    + inversion Hk as [|? ? Hkx Hkl]; subst.
      assert (Hky : key_leaf y).
      { assert (Hin : In y (x :: l)) by (eapply Permutation_in; [apply Permutation_sym; exact Hp|left; reflexivity]).
        rewrite Forall_forall in Hk. apply Hk. exact Hin. }
      assert (x = y).
      { assert (Hx : In x (y :: l')) by (eapply Permutation_in; [exact Hp|left; reflexivity]).
        assert (Hy : In y (x :: l)) by (eapply Permutation_in; [apply Permutation_sym; exact Hp|left; reflexivity]).
        rewrite Forall_forall in Hall, Hall'.
        destruct Hx as [->|Hx]; [reflexivity|]. destruct Hy as [->|Hy]; [reflexivity|].
        specialize (Hall _ Hy). specialize (Hall' _ Hx). unfold klt in *.
        rewrite kvp_ltb_text in Hall, Hall' by assumption. rewrite (str_ltb_asym _ _ Hall) in Hall'. discriminate. }
      subst y. f_equal. apply IH; [exact Hkl|exact Hs'|]. eapply Permutation_cons_inv. exact Hp.
Qed.

(* sorted() gives the same list for every arrangement of the same pairs *)
Theorem sort_kvps_perm_eq : forall l l', Forall key_leaf l -> NoDup (map ktext l) -> Permutation l l' ->
  sort_kvps l = sort_kvps l'.
Proof.
  intros l l' Hk Hn Hp.
  assert (Hk' : Forall key_leaf l').
  { rewrite Forall_forall in *. intros x Hx. apply Hk. eapply Permutation_in; [apply Permutation_sym; exact Hp|exact Hx]. }
  assert (Hn' : NoDup (map ktext l')) by (eapply Permutation_NoDup; [apply Permutation_map; exact Hp|exact Hn]).
  apply klt_sorted_perm_eq.
  - rewrite Forall_forall in *. intros x Hx. apply Hk. eapply Permutation_in; [apply Permutation_sym; apply sort_kvps_perm|exact Hx].
  - apply sort_kvps_sorted; assumption.
  - apply sort_kvps_sorted; assumption.
  - rewrite <- (sort_kvps_perm l), <- (sort_kvps_perm l'). exact Hp.
Qed.

(* ---------------------------------------------------------------- build, unfolded *)
Lemma build_arr : forall o l, build o (DArr l) = Lst (o_ale o) (o_alsl o) (map (build o) l).
Proof. intros o l. reflexivity. Qed.

Lemma build_obj : forall o kvs, build o (DObj kvs) =
  if o_ake o then MSet (o_amk o) (sort_kvps (build_pairs o kvs)) else FDict (build_pairs o kvs).
Proof.
  intros o kvs.
  assert (E : (fix go (l : list (leaf * doc)) : list tree :=
                 match l with [] => [] | (k, v) :: r => Kvp (o_ake o) (Leaf k) (build o v) :: go r end) kvs
              = build_pairs o kvs).
  { unfold build_pairs. induction kvs as [|[k v] r IH]; [reflexivity|]. cbn [map fst snd]. rewrite <- IH. reflexivity. }
  cbn [build]. rewrite E. reflexivity.
Qed.

(* ---------------------------------------------------------------- the same document with permuted keys *)
Inductive dperm : doc -> doc -> Prop :=
  | dp_leaf : forall l, dperm (DLeaf l) (DLeaf l)
  | dp_arr : forall l l', dperm_list l l' -> dperm (DArr l) (DArr l')
  | dp_obj : forall kvs kvs' kvs'', dperm_kvs kvs kvs' -> Permutation kvs' kvs'' -> dperm (DObj kvs) (DObj kvs'')
with dperm_list : list doc -> list doc -> Prop :=
  | dpl_nil : dperm_list [] []
  | dpl_cons : forall x y l l', dperm x y -> dperm_list l l' -> dperm_list (x :: l) (y :: l')
with dperm_kvs : list (leaf * doc) -> list (leaf * doc) -> Prop :=
  | dpk_nil : dperm_kvs [] []
  | dpk_cons : forall k x y l l', dperm x y -> dperm_kvs l l' -> dperm_kvs ((k, x) :: l) ((k, y) :: l').

Scheme dperm_mind := Minimality for dperm Sort Prop
  with dperm_list_mind := Minimality for dperm_list Sort Prop
  with dperm_kvs_mind := Minimality for dperm_kvs Sort Prop.
Combined Scheme dperm_mutind from dperm_mind, dperm_list_mind, dperm_kvs_mind.

Lemma keys_ok_arr : forall l, keys_ok (DArr l) = forallb keys_ok l.
Proof. intro l. cbn [keys_ok]. induction l as [|x l IH]; [reflexivity|]. cbn [forallb]. rewrite <- IH. reflexivity. Qed.

Lemma keys_ok_obj : forall kvs, keys_ok (DObj kvs) = str_keys_distinct (map fst kvs) && forallb (fun kv => keys_ok (snd kv)) kvs.
Proof.
  intro kvs. cbn [keys_ok]. f_equal. induction kvs as [|[k v] r IH]; [reflexivity|]. cbn [forallb snd]. rewrite <- IH. reflexivity.
Qed.

Lemma str_keys_distinct_spec : forall ks, str_keys_distinct ks = true ->
  Forall (fun k => is_str_leaf k = true) ks /\ NoDup (map ltext ks).
Proof.
  induction ks as [|k r IH]; cbn; intro H; [split; constructor|].
  apply andb_prop in H as [H H3]. apply andb_prop in H as [H1 H2]. destruct (IH H3) as [Hf Hn].
  split; [constructor; assumption|]. constructor; [|exact Hn].
  intro Hi. apply in_map_iff in Hi. destruct Hi as [k' [Ht Hk']].
  apply negb_true_iff in H2. rewrite <- not_true_iff_false in H2. apply H2.
  apply existsb_exists. exists k'. split; [exact Hk'|]. rewrite Ht.
  clear. induction (ltext k) as [|x s IH]; cbn; [reflexivity|]. rewrite Z.eqb_refl. exact IH.
Qed.

Lemma build_pairs_keys : forall o kvs, Forall key_leaf (build_pairs o kvs) /\ map ktext (build_pairs o kvs) = map ltext (map fst kvs).
Proof.
  intros o kvs. unfold build_pairs. split.
  - apply Forall_forall. intros c Hc. apply in_map_iff in Hc. destruct Hc as [kv [<- _]]. eexists. reflexivity.
  - rewrite !map_map. apply map_ext. intros [k v]. reflexivity.
Qed.

Lemma dperm_kvs_fst : forall kvs kvs', dperm_kvs kvs kvs' -> map fst kvs = map fst kvs'.
Proof. intros kvs kvs' H. induction H as [|k x y l l' _ _ IH]; [reflexivity|]. cbn. f_equal. exact IH. Qed.

(* C08 (builder): under the DictNode strategies the built tree is the same for every order of the keys, at every depth *)
Theorem build_dperm : forall o, o_ake o = true ->
  (forall d d', dperm d d' -> keys_ok d = true -> build o d = build o d') /\
  (forall l l', dperm_list l l' -> forallb keys_ok l = true -> map (build o) l = map (build o) l') /\
  (forall kvs kvs', dperm_kvs kvs kvs' -> forallb (fun kv => keys_ok (snd kv)) kvs = true ->
     build_pairs o kvs = build_pairs o kvs').
Proof.
  intros o Hake. apply dperm_mutind.
  - reflexivity.
  - intros l l' _ IH Hk. rewrite !build_arr. f_equal. apply IH. rewrite <- keys_ok_arr. exact Hk.
  - intros kvs kvs' kvs'' Hkv IH Hp Hk. rewrite keys_ok_obj in Hk. apply andb_prop in Hk as [Hd Hk].
    rewrite !build_obj, Hake. f_equal. rewrite (IH Hk).
    destruct (build_pairs_keys o kvs') as [Hkl Hkt].
    apply sort_kvps_perm_eq.
    + exact Hkl.
    + rewrite Hkt, <- (dperm_kvs_fst _ _ Hkv). apply str_keys_distinct_spec. exact Hd.
    + unfold build_pairs. apply Permutation_map. exact Hp.
  - reflexivity.
  - intros x y l l' _ IHx _ IHl Hk. cbn in Hk. apply andb_prop in Hk as [H1 H2]. cbn. f_equal; auto.
  - reflexivity.
  - intros k x y l l' _ IHx _ IHl Hk. cbn in Hk. apply andb_prop in Hk as [H1 H2]. unfold build_pairs in *. cbn. f_equal; auto.
    f_equal. auto.
Qed.

Theorem C08_build_canonical : forall o d d', o_ake o = true -> keys_ok d = true -> dperm d d' -> build o d = build o d'.
Proof. intros o d d' Hake Hk Hp. destruct (build_dperm o Hake) as [H _]. apply H; assumption. Qed.

(* dperm is reflexive, so "a document and a copy with permuted keys" includes the document itself *)
Lemma dperm_refl : forall d, dperm d d.
Proof.
  fix IH 1. intros [l|l|kvs].
  - constructor.
  - constructor. induction l as [|x l IHl]; constructor; [apply IH|exact IHl].
  - apply dp_obj with (kvs' := kvs); [|reflexivity]. induction kvs as [|[k v] r IHr]; constructor; [apply IH|exact IHr].
Qed.
