(* Edit scripts as observed (from the implementation) and as produced by the model, and the executable
   statements of C01 (validity), C03 (cost additivity), C10 (option restrictions), C02 (zero iff equal).
   Independent of the model: these predicates are evaluated on the IMPLEMENTATION's scripts. *)
From Coq Require Import ZArith List Bool Lia.
Require Import GT.Data.
Import ListNotations.
Open Scope Z_scope.

Inductive kind := KEditDist | KFixedLen | KMultiSet | KFixedDict | KKvp.
Definition kind_eqb (a b : kind) : bool :=
  match a, b with
  | KEditDist, KEditDist | KFixedLen, KFixedLen | KMultiSet, KMultiSet | KFixedDict, KFixedDict | KKvp, KKvp => true
  | _, _ => false
  end.

(* character-level operation of a StringEdit (graphtage.StringEdit over string_edit_distance) *)
Inductive sop := SKeep (c : Z) | SSub (c d : Z) (* unequal characters "matched" at cost 1 *) | SDel (c : Z) | SAdd (c : Z).

(* An edit for the pair (a, b) given by its context.  Costs are the edit's OWN reported final cost.
   Sub-edits of a compound name the children they act on by position (children a / children b). *)
Inductive edit :=
  | EMatch (c : Z)
  | EReplace (c : Z)
  | EStr (c : Z) (ops : list sop)
  | EComp (k : kind) (c : Z) (subs : list sub)
with sub :=
  | SPair (i j : nat) (e : edit)      (* child i of a is turned into child j of b by e *)
  | SRem (i : nat) (c : Z)            (* child i of a is removed *)
  | SIns (j : nat) (c : Z).           (* child j of b is inserted *)

Definition cost (e : edit) : Z :=
  match e with EMatch c | EReplace c | EStr c _ | EComp _ c _ => c end.
Definition sub_cost (s : sub) : Z :=
  match s with SPair _ _ e => cost e | SRem _ c | SIns _ c => c end.

Definition sop_cost (o : sop) : Z := match o with SKeep _ => 0 | _ => 1 end.
Definition sop_from (o : sop) : list Z := match o with SKeep c | SSub c _ | SDel c => [c] | SAdd _ => [] end.
Definition sop_to (o : sop) : list Z := match o with SKeep c | SSub _ c | SAdd c => [c] | SDel _ => [] end.

Definition from_idx (s : sub) : list nat := match s with SPair i _ _ | SRem i _ => [i] | SIns _ _ => [] end.
Definition to_idx (s : sub) : list nat := match s with SPair _ j _ | SIns j _ => [j] | SRem _ _ => [] end.

Fixpoint nat_list_eqb (a b : list nat) : bool :=
  match a, b with
  | [], [] => true
  | x :: a', y :: b' => Nat.eqb x y && nat_list_eqb a' b'
  | _, _ => false
  end.

(* insertion sort on nat, for the unordered containers *)
Fixpoint ins_nat (x : nat) (l : list nat) : list nat :=
  match l with [] => [x] | y :: l' => if Nat.leb x y then x :: l else y :: ins_nat x l' end.
Definition sort_nat (l : list nat) : list nat := fold_right ins_nat [] l.

Definition ordered_kind (k : kind) : bool := match k with KEditDist | KFixedLen | KKvp => true | _ => false end.

(* does the kind of compound fit the kind of node it edits? *)
Definition kind_fits (k : kind) (a b : tree) : bool :=
  match k, a, b with
  | (KEditDist | KFixedLen), Lst _ _ _, Lst _ _ _ => true
  | KMultiSet, MSet _ _, MSet _ _ => true
  | KFixedDict, FDict _, FDict _ => true
  | KKvp, Kvp _ _ _, Kvp _ _ _ => true
  | _, _, _ => false
  end.

(* ---------------------------------------------------------------- C01
   every child of a is accounted for exactly once (paired or removed), every child of b exactly once
   (paired or inserted), in order for ordered containers, recursively; a string edit spells both strings. *)
Fixpoint valid (a b : tree) (e : edit) {struct e} : bool :=
  match e with
  | EMatch _ | EReplace _ => true
  | EStr _ ops =>
      match a, b with
      | Leaf x, Leaf y => str_eqb (flat_map sop_from ops) (ltext x) && str_eqb (flat_map sop_to ops) (ltext y)
      | _, _ => false
      end
  | EComp k _ subs =>
      let fi := flat_map from_idx subs in
      let ti := flat_map to_idx subs in
      kind_fits k a b &&
      (if ordered_kind k
       then nat_list_eqb fi (seq 0 (length (children a))) && nat_list_eqb ti (seq 0 (length (children b)))
       else nat_list_eqb (sort_nat fi) (seq 0 (length (children a))) &&
            nat_list_eqb (sort_nat ti) (seq 0 (length (children b)))) &&
      (fix all (ss : list sub) : bool :=
         match ss with
         | [] => true
         | SPair i j e' :: ss' =>
             match nth_error (children a) i, nth_error (children b) j with
             | Some x, Some y => valid x y e' && all ss'
             | _, _ => false
             end
         | _ :: ss' => all ss'
         end) subs
  end.

(* ---------------------------------------------------------------- C03
   every compound's own cost is the sum of its sub-edits' own costs, at every level *)
Fixpoint additive (e : edit) : bool :=
  match e with
  | EMatch _ | EReplace _ => true
  | EStr c ops => c =? zsum (map sop_cost ops)
  | EComp _ c subs =>
      (c =? zsum (map sub_cost subs)) &&
      (fix all (ss : list sub) : bool :=
         match ss with
         | [] => true
         | SPair _ _ e' :: ss' => additive e' && all ss'
         | _ :: ss' => all ss'
         end) subs
  end.

(* the flat view (get_all_edits): leaves of the script with non-zero cost *)
Definition nz (c : Z) : list Z := if c =? 0 then [] else [c].
Fixpoint flat_costs (e : edit) : list Z :=
  match e with
  | EMatch c | EReplace c => nz c
  | EStr c _ => nz c
  | EComp _ _ subs =>
      (fix go (ss : list sub) : list Z :=
         match ss with
         | [] => []
         | SPair _ _ e' :: ss' => flat_costs e' ++ go ss'
         | SRem _ c :: ss' | SIns _ c :: ss' => nz c ++ go ss'
         end) subs
  end.

(* one case of the correspondence run: the two trees, the implementation's complete nested script, and
   the totals it reports through its other views *)
Record script_case := {
  sc_a : tree; sc_b : tree;
  sc_edit : edit;
  sc_flat_total : Z;       (* sum of bounds().upper_bound over get_all_edits() *)
  sc_edited_cost : Z;      (* sum of edited_cost() bookkeeping over the annotated diff tree, see harness *)
}.

Definition holds_C01 (c : script_case) : bool := valid (sc_a c) (sc_b c) (sc_edit c).

Definition holds_C03 (c : script_case) : bool :=
  additive (sc_edit c) &&
  (sc_flat_total c =? cost (sc_edit c)) &&
  (zsum (flat_costs (sc_edit c)) =? cost (sc_edit c)) &&
  (sc_edited_cost c =? cost (sc_edit c)).

(* ---------------------------------------------------------------- C02 (library half)
   zero total cost exactly when the documents are equal as data *)
Definition holds_C02 (c : script_case) : bool :=
  Bool.eqb (cost (sc_edit c) =? 0) (data_eqb (sc_a c) (sc_b c)).

(* ---------------------------------------------------------------- C10
   'none' strategy (FixedKeyDict): no pair with different keys; 'auto': every shared key paired with itself;
   list edits off: positional pairing + surplus tail only. *)
Definition key_of (t : tree) (i : nat) : option tree :=
  match nth_error (children t) i with Some c => Some (kvp_key c) | None => None end.

Definition pair_keys_equal (a b : tree) (s : sub) : bool :=
  match s with
  | SPair i j _ =>
      match key_of a i, key_of b j with
      | Some k, Some k' => node_eqb k k'
      | _, _ => false
      end
  | _ => true
  end.

Definition paired (subs : list sub) (i j : nat) : bool :=
  existsb (fun s => match s with SPair i' j' _ => Nat.eqb i i' && Nat.eqb j j' | _ => false end) subs.

(* every key present in both mappings is paired with itself *)
Definition shared_keys_paired (a b : tree) (subs : list sub) : bool :=
  forallb (fun i =>
    forallb (fun j =>
      match key_of a i, key_of b j with
      | Some k, Some k' => if node_eqb k k' then paired subs i j else true
      | _, _ => true
      end) (seq 0 (length (children b)))) (seq 0 (length (children a))).

(* positional: pairs (0,0),(1,1),... then removes of the surplus tail of a, then inserts of the surplus tail of b *)
Definition positional (a b : tree) (subs : list sub) : bool :=
  let n := length (children a) in
  let m := length (children b) in
  let k := Nat.min n m in
  let shape := map (fun s => match s with SPair i j _ => (0%nat, i, j) | SRem i _ => (1%nat, i, 0%nat) | SIns j _ => (2%nat, 0%nat, j) end) subs in
  let want := map (fun i => (0%nat, i, i)) (seq 0 k) ++ map (fun i => (1%nat, i, 0%nat)) (seq k (n - k))
              ++ map (fun j => (2%nat, 0%nat, j)) (seq k (m - k)) in
  (fix eqs (x y : list (nat * nat * nat)) : bool :=
     match x, y with
     | [], [] => true
     | (p, q, r) :: x', (p', q', r') :: y' => Nat.eqb p p' && Nat.eqb q q' && Nat.eqb r r' && eqs x' y'
     | _, _ => false
     end) shape want.

Definition no_rem_ins (subs : list sub) : bool :=
  forallb (fun s => match s with SPair _ _ _ => true | _ => false end) subs.

Fixpoint restricted (a b : tree) (e : edit) {struct e} : bool :=
  match e with
  | EComp k _ subs =>
      (match a, b with
       | FDict _, FDict _ => forallb (pair_keys_equal a b) subs           (* strategy none *)
       | MSet true _, MSet _ _ => shared_keys_paired a b subs             (* strategy auto *)
       | Lst ale alsl xs, Lst _ _ ys =>
           (if negb ale then positional a b subs else true) &&
           (if negb alsl && Nat.eqb (length xs) (length ys) then positional a b subs && no_rem_ins subs else true)
       | _, _ => true
       end) &&
      (fix all (ss : list sub) : bool :=
         match ss with
         | [] => true
         | SPair i j e' :: ss' =>
             match nth_error (children a) i, nth_error (children b) j with
             | Some x, Some y => restricted x y e' && all ss'
             | _, _ => false
             end
         | _ :: ss' => all ss'
         end) subs
  | _ => true
  end.

Definition holds_C10 (c : script_case) : bool := restricted (sc_a c) (sc_b c) (sc_edit c).
