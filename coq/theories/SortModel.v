(* C17 - bounds.sort with its Fibonacci heap modelled in full (definitions only).

   bounds.sort pushes every item into a FibonacciHeap(key=BoundedComparator) and pops until the heap is empty.
   The key comparison of that heap is BoundedComparator.__lt__, which TIGHTENS the two items while it compares
   them: it is not a function of the keys, its answers for one ordered pair can change over time (for two items
   with the same final value `a < b` can be False early and True later, and `a < b`, `b < a` are both True once
   both are definitive), and a heap node is compared with itself (`a[i] <= self._min` in _consolidate, which
   tightens that item completely).  So the heap of C16 (FibHeapModel.v: key order = a fixed function `lt`) cannot
   be instantiated; what is reused from it is the whole pointer-structure layer (hnode, the ring operations
   ring_add / add_child / del / find_root / splice / next_after, the degree table split_deg / sort_deg), and the
   operations that compare keys (push, _consolidate's linking loop and final scan, _extract_min) are restated
   here over an abstract *comparison oracle with state*:

       cmp : St -> nat -> nat -> outcome (bool * St)          (item a < item b ?, new state)

   With `cmp s a b = Done (lt a b, s)` these are literally push / cons_loop / cons_fold / scan_min / extract_min of
   FibHeapModel.v on a heap without deleted nodes (nodes carry id = key = item index; HeapNode.__le__'s
   `self.key == other.key` is object identity of the two BoundedComparator objects, i.e. equality of node ids).

   Specialisation (stated): bounds.sort never calls remove / decrease_key, so no node carries `deleted`; the
   `while self._min.deleted` loop of pop() and the `deleted` disjunct of HeapNode.__lt__ are not modelled.

   The concrete oracle `hcmp` is BoundedComparator.__lt__ (SearchModel.cmp_lt) on the item state `ms`; the
   adversary input is the list `ties` of id(self) < id(other) values, one per comparison.  The model logs every
   comparison and every pop (`hlog`), so the correspondence is lock-step: the implementation's sequence of key
   comparisons and pops, its sequence of tighten_bounds() calls and its output must all equal the model's. *)
From Coq Require Import List Bool ZArith Lia.
Require Import GT.PyBase GT.FibHeapSpec GT.FibHeapModel.
Require Import GT.BoundsSpec GT.SearchSpec GT.SearchModel.
Import ListNotations.
Open Scope Z_scope.

Notation fheap := FibHeapSpec.heap.

(* the item (index into the input) carried by a heap node *)
Definition it (t : hnode) : nat := Z.to_nat (nid t).
Definition mknode (i : nat) : hnode := HNode (Z.of_nat i) (Z.of_nat i) false false [].
Definition fempty : fheap := {| roots := []; minp := None; hn := 0 |}.

Section OracleHeap.
Variable St : Type.
Variable cmp : St -> nat -> nat -> outcome (bool * St).     (* HeapNode.__lt__ = key comparison, with effects *)
Variable tick : St -> nat -> St.                             (* bookkeeping: item i was popped *)

(* the inner `while a[d] is not None` of _consolidate: FibHeapModel.cons_loop with `if y < x` asked of the oracle *)
Fixpoint ocons_loop (fuel : nat) (s : St) (pre : list hnode) (x : hnode) (post : list hnode)
  : outcome (list hnode * St) :=
  match fuel with
  | O => OutOfFuel
  | S f =>
      match split_deg (deg x) pre with
      | Some (a, y, b) =>
          obind (cmp s (it y) (it x)) (fun '(r, s') =>
            if r then ocons_loop f s' a (add_child x y) (b ++ post)
            else ocons_loop f s' (a ++ b) (add_child y x) post)
      | None =>
          match split_deg (deg x) post with
          | Some (a, y, b) =>
              obind (cmp s (it y) (it x)) (fun '(r, s') =>
                if r then ocons_loop f s' (pre ++ a) (add_child x y) b
                else ocons_loop f s' pre (add_child y x) (a ++ b))
          | None => Done (pre ++ x :: post, s)
          end
      end
  end.

Fixpoint ocons_fold (s : St) (acc todo : list hnode) : outcome (list hnode * St) :=
  match todo with
  | [] => Done (acc, s)
  | x :: rest => obind (ocons_loop (S (length acc)) s acc x []) (fun '(acc', s') => ocons_fold s' acc' rest)
  end.

(* `for i in range(len(a)): if a[i] is not None: if a[i] <= self._min: self._min = a[i]`;
   HeapNode.__le__ = `self < other or self.key == other.key`: the comparison is always made first *)
Fixpoint oscan (s : St) (L : list hnode) (m : hnode) : outcome (hnode * St) :=
  match L with
  | [] => Done (m, s)
  | r :: L' => obind (cmp s (it r) (it m)) (fun '(c, s') =>
                 oscan s' L' (if c || Z.eqb (nid r) (nid m) then r else m))
  end.

(* _extract_min: FibHeapModel.extract_min; an internal inconsistency (XErr there) is Crash here *)
Definition oextract (s : St) (h : fheap) : outcome (hnode * fheap * St) :=
  match minp h with
  | None => Crash                                       (* None.item: pop() of an empty heap *)
  | Some z =>
      match find_root z (roots h) with
      | None => Crash
      | Some zn =>
          let l1 := splice (roots h) (nkids zn) in
          match l1 with
          | [] => Crash
          | f :: _ =>
              match next_after z f l1 with
              | None => Crash
              | Some nx =>
                  match del z l1 with
                  | [] => Done (zn, {| roots := []; minp := None; hn := hn h - 1 |}, s)
                  | l2 => obind (ocons_fold s [] l2) (fun '(l3, s1) =>
                          obind (oscan s1 (sort_deg l3) nx) (fun '(mn, s2) =>
                            Done (zn, {| roots := l3; minp := Some (nid mn); hn := hn h - 1 |}, s2)))
                  end
              end
          end
      end
  end.

(* push: `if self._min is None or node < self._min: self._min = node` *)
Definition opush (s : St) (i : nat) (h : fheap) : outcome (fheap * St) :=
  let rs := ring_add (mknode i) (roots h) in
  match minp h with
  | None => Done ({| roots := rs; minp := Some (Z.of_nat i); hn := hn h + 1 |}, s)
  | Some m => obind (cmp s i (Z.to_nat m)) (fun '(r, s') =>
                Done ({| roots := rs; minp := Some (if r then Z.of_nat i else m); hn := hn h + 1 |}, s'))
  end.

Fixpoint opush_all (s : St) (ids : list nat) (h : fheap) : outcome (fheap * St) :=
  match ids with
  | [] => Done (h, s)
  | i :: rest => obind (opush s i h) (fun '(h', s') => opush_all s' rest h')
  end.

(* `while heap: yield heap.pop()`; k = fuel (the number of items suffices) *)
Fixpoint opop_all (k : nat) (s : St) (h : fheap) (out : list nat) : outcome (list nat * St) :=
  if hn h <=? 0 then Done (rev out, s)
  else match k with
       | O => OutOfFuel
       | S k' => obind (oextract s h) (fun '(u, h', s') => opop_all k' (tick s' (it u)) h' (it u :: out))
       end.

Definition osort (s : St) (ids : list nat) : outcome (list nat * St) :=
  obind (opush_all s ids fempty) (fun '(h, s') => opop_all (length ids) s' h []).

End OracleHeap.

(* ------------------------------------------------------------------ the oracle of bounds.sort *)

Record hst := mkH { hm : ms; hties : list bool; hlog : list hop }.

Definition hcmp (fuel : nat) (s : hst) (a b : nat) : outcome (bool * hst) :=
  let tie := hd false (hties s) in
  obind (cmp_lt fuel (hm s) a b tie) (fun '(r, m') => Done (r, mkH m' (tl (hties s)) (HCmp a b tie :: hlog s))).

Definition htick (s : hst) (i : nat) : hst := mkH (hm s) (hties s) (HPop i :: hlog s).

(* bounds.sort(items): output order, item states afterwards, and what the heap did *)
Definition heap_sort (fuel : nat) (m : ms) (ids : list nat) (ties : list bool)
  : outcome (list nat * ms * list hop) :=
  obind (osort hst (hcmp fuel) htick (mkH m ties []) ids) (fun '(l, s) => Done (l, hm s, rev (hlog s))).

(* ------------------------------------------------------------------ correspondence *)

Definition hop_ties (l : list hop) : list bool :=
  flat_map (fun h => match h with HCmp _ _ t => [t] | HPop _ => [] end) l.

Definition hop_eqb (x y : hop) : bool :=
  match x, y with
  | HCmp a b t, HCmp a' b' t' => Nat.eqb a a' && Nat.eqb b b' && Bool.eqb t t'
  | HPop i, HPop j => Nat.eqb i j
  | _, _ => false
  end.

(* the implementation's output, its tighten_bounds() calls and the comparisons / pops of its heap equal those of
   the full model (given the observed id() order) *)
Definition corr_sort (c : case) : bool :=
  match c_op c with
  | OpSort =>
      let items := c_items c in
      let hops := o_hops (c_oracle c) in
      match heap_sort (fuel_for items) (mkMs items []) (seq 0 (length items)) (hop_ties hops) with
      | Done (l, m', hops') =>
          obs_eqb (OList l) (c_obs c) &&
          SearchModel.list_eqb ev_eqb (rev (evs m')) (c_events c) &&
          SearchModel.list_eqb hop_eqb hops' hops
      | _ => false
      end
  | _ => true
  end.

Definition corr_C17_full (c : case) : bool := corr_C17 c && corr_sort c.

(* diagnostics *)
Definition sort_answer (c : case) : option (list nat * list ev * list hop) :=
  let items := c_items c in
  match heap_sort (fuel_for items) (mkMs items []) (seq 0 (length items)) (hop_ties (o_hops (c_oracle c))) with
  | Done (l, m', hops') => Some (l, rev (evs m'), hops')
  | _ => None
  end.
