(* C04: the domain of the unconditional theorem for documents whose mappings are all FixedKeyDictNodes (C04_docs_none,
   MachineGuard.v) and the class of the open finding D41.  Definitions only; independent of the models. *)
From Coq Require Import ZArith List Bool.
Require Import GT.PyBase GT.Data GT.MachineSpec.
Import ListNotations.
Open Scope Z_scope.

(* no DictNode / MultiSetNode anywhere (dictionary strategy none) *)
Fixpoint no_mset (t : tree) : bool :=
  match t with
  | Leaf _ => true
  | Lst _ _ cs => forallb no_mset cs
  | Kvp _ k v => no_mset k && no_mset v
  | MSet _ _ => false
  | FDict cs => forallb no_mset cs
  end.

(* every list has the default options (allow_list_edits, allow_list_edits_when_same_length) *)
Fixpoint lists_default (t : tree) : bool :=
  match t with
  | Leaf _ => true
  | Lst ale alsl cs => ale && alsl && forallb lists_default cs
  | Kvp _ k v => lists_default k && lists_default v
  | MSet _ cs | FDict cs => forallb lists_default cs
  end.

(* str() of every leaf is at most d longer than its total_size (a NullNode has total_size 0 and str() "None") *)
Fixpoint text_slack (d : Z) (t : tree) : bool :=
  match t with
  | Leaf l => zlen (ltext l) <=? leaf_size l + d
  | Lst _ _ cs | MSet _ cs | FDict cs => forallb (text_slack d) cs
  | Kvp _ k v => text_slack d k && text_slack d v
  end.

(* two ways to have it: no null leaf at all (d = 0) / null leaves print as "None" (d = 4) *)
Fixpoint no_null (t : tree) : bool :=
  match t with
  | Leaf l => negb (lkind_eqb (lk l) KNull)
  | Lst _ _ cs | MSet _ cs | FDict cs => forallb no_null cs
  | Kvp _ k v => no_null k && no_null v
  end.
Fixpoint null_as_None (t : tree) : bool :=
  match t with
  | Leaf l => match lk l with KNull => str_eqb (ltext l) [78; 111; 110; 101] | _ => true end
  | Lst _ _ cs | MSet _ cs | FDict cs => forallb null_as_None cs
  | Kvp _ k v => null_as_None k && null_as_None v
  end.

(* the two sufficient conditions of C04_docs_none *)
Definition budget_safe (a b : tree) : bool := text_slack 0 b || (lists_default a && text_slack 4 b).

(* D41 (repaired in the code, a35fb43: LeafNode.edits caps a Match of two leaves by the cost of a Replace) was: a Match
   x -> null cost levenshtein(str(x), "None") although a NullNode's total_size is 0; under a FixedLengthSequenceEdit of
   several such pairs the children of a FixedKeyDictNodeEdit cost more than its cost_upper_bound, EditCollection.bounds()
   set valid = False and answered Range() = (-inf, +inf).  There is no finding class any more: a run in which an
   EditCollection is observed with the bounds (-inf, +inf) fails holds_C04 (the interval widens) and is a violation. *)
