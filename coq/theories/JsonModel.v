(* C12: executable model of graphtage's JSON printing (JSONFormatter + SequenceFormatter + StringFormatter +
   Printer, for the tree json.build_tree builds under default options) and a Gallina JSON reader for the
   printer's image (validated against json.loads / json5.loads on every printed text by the harness).
   Definitions only. *)
From Coq Require Import List Bool ZArith Lia.
Require Import GT.PyBase GT.JsonSpec.
Import ListNotations.
Open Scope Z_scope.

(* ================================================================== printer *)

(* JSONStringFormatter.escape = json.dumps(c)[1:-1]  (ensure_ascii=True):
   every character outside 0x20..0x7E, the quote and the backslash are escaped: backslash + one of
   quote, backslash, n, r, t, b, f ; otherwise backslash-u XXXX (lower-case hex), above the BMP a surrogate
   pair of two such escapes.  Note that 0x7F is escaped. *)
Definition hexd (d : Z) : Z := if d <? 10 then 48 + d else 87 + d.
Definition u4 (c : Z) : list Z :=
  [92; 117; hexd (c / 16 / 16 / 16); hexd ((c / 16 / 16) mod 16); hexd ((c / 16) mod 16); hexd (c mod 16)].
Definition sur_hi (c : Z) : Z := 55296 + (c - 65536) / 1024.
Definition sur_lo (c : Z) : Z := 56320 + (c - 65536) mod 1024.

Definition short_escape (c : Z) : option Z :=
  if c =? 34 then Some 34 else if c =? 92 then Some 92 else if c =? 10 then Some 110
  else if c =? 13 then Some 114 else if c =? 9 then Some 116 else if c =? 8 then Some 98
  else if c =? 12 then Some 102 else None.

Definition escape_cp (c : Z) : list Z :=
  match short_escape c with
  | Some e => [92; e]
  | None =>
      if (32 <=? c) && (c <=? 126) then [c]
      else if c <? 65536 then u4 c
      else u4 (sur_hi c) ++ u4 (sur_lo c)
  end.
Definition escape_string (s : list Z) : list Z := flat_map escape_cp s.

(* Printer: newline() writes '\n'; the next write() first emits indent_str (4 spaces) * indents *)
Definition indent (n : nat) : list Z := repeat 32 (4 * n).
Definition nl (n : nat) : list Z := 10 :: indent n.
(* item_newline of JSONListFormatter / JSONDictFormatter: nothing when the join option is set *)
Definition sep (join : bool) (n : nat) : list Z := if join then [] else nl n.

(* SequenceFormatter.print_SequenceNode: start symbol; per item: ',' (from the second on), item_newline, the item;
   a last item_newline iff there was an item (at the outer indentation); end symbol *)
Definition seq_text (open close : Z) (spi spc : list Z) (items : list (list Z)) : list Z :=
  match items with
  | [] => [open; close]
  | x :: r => open :: spi ++ x ++ flat_map (fun t => 44 :: spi ++ t) r ++ spc ++ [close]
  end.

Definition lit_null : list Z := [110; 117; 108; 108].
Definition lit_true : list Z := [116; 114; 117; 101].
Definition lit_false : list Z := [102; 97; 108; 115; 101].

Definition layout := (bool * bool)%type.      (* join_lists, join_dict_items *)

Definition jstring (s : list Z) : list Z := 34 :: escape_string s ++ [34].

(* the text printed for a tree whose mapping entries are in the order of kvs, at indentation depth n *)
Fixpoint jp (lay : layout) (n : nat) (v : jvalue) : list Z :=
  match v with
  | JNull => lit_null
  | JBool true => lit_true
  | JBool false => lit_false
  | JNum t => t
  | JStr s => jstring s
  | JArr l => seq_text 91 93 (sep (fst lay) (S n)) (sep (fst lay) n) (map (jp lay (S n)) l)
  | JObj kvs => seq_text 123 125 (sep (snd lay) (S n)) (sep (snd lay) n)
                  (map (fun kv => match kv with (k, x) => jstring k ++ [58; 32] ++ jp lay (S n) x end) kvs)
  end.

(* json.build_tree sorts the entries of every mapping (DictNode.from_dict); formatter.print writes no final newline *)
Definition jprint (lay : layout) (v : jvalue) : list Z := jp lay 0 (canon v).

(* ================================================================== reader *)

Definition is_ws (c : Z) : bool := (c =? 32) || (c =? 10) || (c =? 13) || (c =? 9).
Fixpoint skip_ws (s : list Z) : list Z :=
  match s with c :: r => if is_ws c then skip_ws r else s | [] => [] end.

Definition unhex (h : Z) : option Z :=
  if (48 <=? h) && (h <=? 57) then Some (h - 48)
  else if (97 <=? h) && (h <=? 102) then Some (h - 87)
  else if (65 <=? h) && (h <=? 70) then Some (h - 55)
  else None.
Definition hex4 (h1 h2 h3 h4 : Z) : option Z :=
  match unhex h1, unhex h2, unhex h3, unhex h4 with
  | Some a, Some b, Some c, Some d => Some (((a * 16 + b) * 16 + c) * 16 + d)
  | _, _, _, _ => None
  end.
Definition unesc_short (e : Z) : option Z :=
  if e =? 34 then Some 34 else if e =? 92 then Some 92 else if e =? 47 then Some 47
  else if e =? 98 then Some 8 else if e =? 102 then Some 12 else if e =? 110 then Some 10
  else if e =? 114 then Some 13 else if e =? 116 then Some 9 else None.

(* a decoded unit of a string body and whether it was written as a \uXXXX escape *)
Definition unit := (Z * bool)%type.
Definition pcons (u : unit) (o : option (list unit * list Z)) : option (list unit * list Z) :=
  match o with Some (us, rest) => Some (u :: us, rest) | None => None end.

(* the body of a string after its opening quote, up to and including the closing quote (strict mode:
   raw control characters are rejected) *)
Fixpoint punits (s : list Z) : option (list unit * list Z) :=
  match s with
  | [] => None
  | c :: r =>
      if c =? 34 then Some ([], r)
      else if c =? 92 then
        match r with
        | [] => None
        | e :: r1 =>
            if e =? 117 then
              match r1 with
              | h1 :: h2 :: h3 :: h4 :: r2 =>
                  match hex4 h1 h2 h3 h4 with
                  | Some u => pcons (u, true) (punits r2)
                  | None => None
                  end
              | _ => None
              end
            else match unesc_short e with
                 | Some x => pcons (x, false) (punits r1)
                 | None => None
                 end
        end
      else if c <? 32 then None
      else pcons (c, false) (punits r)
  end.

(* json.decoder scanstring: an escaped high surrogate immediately followed by an escaped low surrogate is one
   code point; everything else stands for itself *)
Fixpoint combine_sur (l : list unit) : list Z :=
  match l with
  | [] => []
  | (a, ea) :: t =>
      match t with
      | (b, eb) :: t' =>
          if ea && eb && is_high a && is_low b
          then (65536 + (a - 55296) * 1024 + (b - 56320)) :: combine_sur t'
          else a :: combine_sur t
      | [] => [a]
      end
  end.

(* the json5 library decodes every \uXXXX on its own (D17) *)
Definition decode_units (j5 : bool) (us : list unit) : list Z := if j5 then map fst us else combine_sur us.

Definition pstring (j5 : bool) (s : list Z) : option (list Z * list Z) :=
  match punits s with Some (us, rest) => Some (decode_units j5 us, rest) | None => None end.

Fixpoint span_num (s : list Z) : list Z * list Z :=
  match s with
  | c :: r => if is_numchar c then let (t, rest) := span_num r in (c :: t, rest) else ([], s)
  | [] => ([], [])
  end.
Definition pnum (s : list Z) : option (jvalue * list Z) :=
  let (t, rest) := span_num s in if num_ok t then Some (JNum t, rest) else None.

Fixpoint strip_prefix (p s : list Z) : option (list Z) :=
  match p with
  | [] => Some s
  | a :: p' => match s with b :: s' => if a =? b then strip_prefix p' s' else None | [] => None end
  end.
Definition plit (p : list Z) (v : jvalue) (s : list Z) : option (jvalue * list Z) :=
  match strip_prefix p s with Some r => Some (v, r) | None => None end.

(* recursive descent on explicit fuel; None also stands for "out of fuel", which the theorems exclude *)
Fixpoint pval (j5 : bool) (f : nat) (s : list Z) {struct f} : option (jvalue * list Z) :=
  match f with
  | O => None
  | S f' =>
      match skip_ws s with
      | [] => None
      | c :: r =>
          if is_numchar c then pnum (c :: r)
          else if c =? 34 then
            match pstring j5 r with Some (str, r') => Some (JStr str, r') | None => None end
          else if c =? 91 then
            match skip_ws r with
            | [] => None
            | c2 :: r2 =>
                if c2 =? 93 then Some (JArr [], r2)
                else match pelems j5 f' r with Some (l, r') => Some (JArr l, r') | None => None end
            end
          else if c =? 123 then
            match skip_ws r with
            | [] => None
            | c2 :: r2 =>
                if c2 =? 125 then Some (JObj [], r2)
                else match pmembers j5 f' r with Some (l, r') => Some (JObj l, r') | None => None end
            end
          else if c =? 116 then plit lit_true (JBool true) (c :: r)
          else if c =? 102 then plit lit_false (JBool false) (c :: r)
          else if c =? 110 then plit lit_null JNull (c :: r)
          else None
      end
  end
with pelems (j5 : bool) (f : nat) (s : list Z) {struct f} : option (list jvalue * list Z) :=
  match f with
  | O => None
  | S f' =>
      match pval j5 f' s with
      | None => None
      | Some (v, r) =>
          match skip_ws r with
          | [] => None
          | c :: r' =>
              if c =? 44 then
                match pelems j5 f' r' with Some (l, r'') => Some (v :: l, r'') | None => None end
              else if c =? 93 then Some ([v], r')
              else None
          end
      end
  end
with pmembers (j5 : bool) (f : nat) (s : list Z) {struct f} : option (list (list Z * jvalue) * list Z) :=
  match f with
  | O => None
  | S f' =>
      match skip_ws s with
      | [] => None
      | q :: r0 =>
          if q =? 34 then
            match pstring j5 r0 with
            | None => None
            | Some (k, r1) =>
                match skip_ws r1 with
                | [] => None
                | c1 :: r2 =>
                    if c1 =? 58 then
                      match pval j5 f' r2 with
                      | None => None
                      | Some (v, r3) =>
                          match skip_ws r3 with
                          | [] => None
                          | c :: r4 =>
                              if c =? 44 then
                                match pmembers j5 f' r4 with
                                | Some (l, r5) => Some ((k, v) :: l, r5)
                                | None => None
                                end
                              else if c =? 125 then Some ([(k, v)], r4)
                              else None
                          end
                      end
                    else None
                end
            end
          else None
      end
  end.

(* a whole text: one value, then only whitespace *)
Definition parse_doc (j5 : bool) (s : list Z) : option jvalue :=
  match pval j5 (S (length s)) s with
  | Some (v, r) => match skip_ws r with [] => Some v | _ :: _ => None end
  | None => None
  end.
Definition jparse : list Z -> option jvalue := parse_doc false.     (* json.loads *)
Definition j5parse : list Z -> option jvalue := parse_doc true.     (* json5.loads on the JSON subset *)

(* ================================================================== correspondence *)

(* the implementation's text is the model's; the model reader agrees with the real parser on it; to_obj of the
   loaded tree is the canonical form of the document *)
Definition corr_json (j : json_case) : bool :=
  zlist_eqb (jprint (jc_lay j) (jc_doc j)) (jc_text j) &&
  ojv_eqb (parse_doc (jc_json5 j) (jc_text j)) (jc_loads j) &&
  jv_eqb (canon (jc_doc j)) (jc_tobj j).
