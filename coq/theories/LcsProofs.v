(* C11 - string changes are minimal: the characters ScriptModel.str_script shows as unchanged form a longest
   common subsequence of the two strings, for ALL strings.
   1. lcs (StrSpec) is the maximal length of a common subsequence (upper bound + witness), is 1-Lipschitz in
      both arguments, invariant under reversal, additive over a common prefix / suffix; lcs_fast = lcs.
   2. Every cell (r, c) of the engine's matrix for two strings has cost r + c - 2 * lcs of the prefixes: the
      engine compares only the costs of the three predecessors (never predecessor + step), but neighbouring
      cells of this table never tie (parity), so its lexicographic tie-break on the wrapped path length is
      never consulted, and the decision coincides with the insert/delete-distance recurrence.
   3. C11 for str_script, and the executable statement holds_C11 on the model's own output. *)
From Coq Require Import ZArith List Bool Lia.
Require Import GT.PyBase GT.Data GT.ScriptSpec GT.EdEngine GT.EdFacts GT.ScriptModel GT.EdEngineProofs GT.StrSpec.
Import ListNotations.
Open Scope Z_scope.

(* the correspondence check of the harness and the model's own output as a case *)
Definition corr_C11 : str_case -> bool := corr_with str_script.
Definition model_case (s t : str) : str_case := mk_case s t (str_script s t).

(* ---------------------------------------------------------------- subsequences *)
Lemma subseq_refl : forall {A} (l : list A), subseq l l.
Proof. induction l; constructor; assumption. Qed.

Lemma subseq_length : forall {A} (w l : list A), subseq w l -> (length w <= length l)%nat.
Proof. induction 1; simpl; lia. Qed.

Lemma subseq_full_length : forall {A} (w l : list A), subseq w l -> length w = length l -> w = l.
Proof.
  induction 1; intros N; simpl in N.
  - destruct l; [reflexivity|discriminate].
  - f_equal. apply IHsubseq. lia.
  - apply subseq_length in H. lia.
Qed.

Lemma subseq_nil_r : forall {A} (w : list A), subseq w [] -> w = [].
Proof. intros A w H. inversion H. reflexivity. Qed.

Lemma subseq_tail : forall {A} (x : A) w l, subseq (x :: w) l -> subseq w l.
Proof.
  intros A x w l. induction l as [|y l IH]; intros H; inversion H; subst.
  - apply sub_skip. assumption.
  - apply sub_skip. apply IH. assumption.
Qed.

Lemma subseq_cons_r : forall {A} (w : list A) y l, subseq w (y :: l) ->
  subseq w l \/ exists w', w = y :: w' /\ subseq w' l.
Proof.
  intros A w y l H. inversion H; subst.
  - left. constructor.
  - right. eauto.
  - left. assumption.
Qed.

Lemma subseq_app : forall {A} (w1 l1 w2 l2 : list A), subseq w1 l1 -> subseq w2 l2 -> subseq (w1 ++ w2) (l1 ++ l2).
Proof.
  intros A w1 l1 w2 l2 H1 H2. induction H1; simpl.
  - induction l; simpl; [assumption|]. apply sub_skip. assumption.
  - apply sub_take. assumption.
  - apply sub_skip. assumption.
Qed.

Lemma subseq_rev : forall {A} (w l : list A), subseq w l -> subseq (rev w) (rev l).
Proof.
  induction 1; simpl.
  - constructor.
  - apply subseq_app; [assumption|]. apply subseq_refl.
  - rewrite <- (app_nil_r (rev w)). apply subseq_app; [assumption|]. constructor.
Qed.

(* ---------------------------------------------------------------- lcs *)
Lemma lcs_nil_r : forall l, lcs l [] = O.
Proof. destruct l; reflexivity. Qed.

Lemma lcs_cons : forall x l y m,
  lcs (x :: l) (y :: m) = if x =? y then S (lcs l m) else Nat.max (lcs l (y :: m)) (lcs (x :: l) m).
Proof. reflexivity. Qed.

(* adding one character to either string changes lcs by 0 or +1 *)
Lemma lcs_lipschitz_aux : forall n l m, (length l + length m <= n)%nat -> forall x y,
  (lcs l m <= lcs l (y :: m) <= S (lcs l m))%nat /\ (lcs l m <= lcs (x :: l) m <= S (lcs l m))%nat.
Proof.
  induction n as [|n IH]; intros l m Hn x y.
  - destruct l, m; simpl in Hn; try lia. simpl. destruct (x =? y); lia.
  - split.
    + destruct l as [|a l']; [simpl; lia|].
      rewrite lcs_cons. simpl in Hn.
      pose proof (IH l' m ltac:(lia) a y) as [H1 H2].
      destruct (a =? y); lia.
    + destruct m as [|b m']; [rewrite !lcs_nil_r; lia|].
      rewrite lcs_cons. simpl in Hn.
      pose proof (IH l m' ltac:(lia) x b) as [H1 H2].
      destruct (x =? b); lia.
Qed.

Lemma lcs_lipschitz_r : forall l m y, (lcs l m <= lcs l (y :: m) <= S (lcs l m))%nat.
Proof. intros. exact (proj1 (lcs_lipschitz_aux _ l m (Nat.le_refl _) 0 y)). Qed.

Lemma lcs_lipschitz_l : forall l m x, (lcs l m <= lcs (x :: l) m <= S (lcs l m))%nat.
Proof. intros. exact (proj2 (lcs_lipschitz_aux _ l m (Nat.le_refl _) x 0)). Qed.

(* no common subsequence is longer than lcs ... *)
Lemma lcs_upper_aux : forall n l m, (length l + length m <= n)%nat ->
  forall w, subseq w l -> subseq w m -> (length w <= lcs l m)%nat.
Proof.
  induction n as [|n IH]; intros l m Hn w Hl Hm.
  - destruct l, m; simpl in Hn; try lia. apply subseq_nil_r in Hl. subst. simpl. lia.
  - destruct l as [|x l']; [apply subseq_nil_r in Hl; subst; simpl; lia|].
    destruct m as [|y m']; [apply subseq_nil_r in Hm; subst; simpl; lia|].
    simpl in Hn. rewrite lcs_cons. destruct (x =? y) eqn:E.
    + destruct w as [|z w']; [simpl; lia|].
      assert (subseq w' l') by (inversion Hl; subst; [assumption|eapply subseq_tail; eassumption]).
      assert (subseq w' m') by (inversion Hm; subst; [assumption|eapply subseq_tail; eassumption]).
      pose proof (IH l' m' ltac:(lia) w' H H0). simpl. lia.
    + apply Z.eqb_neq in E.
      destruct (subseq_cons_r _ _ _ Hl) as [Hl'|(w' & -> & Hl')].
      * pose proof (IH l' (y :: m') ltac:(simpl; lia) w Hl' Hm). lia.
      * destruct (subseq_cons_r _ _ _ Hm) as [Hm'|(w'' & Ew & Hm')].
        -- pose proof (IH (x :: l') m' ltac:(simpl; lia) _ Hl Hm'). lia.
        -- congruence.
Qed.

Theorem lcs_upper : forall l m w, subseq w l -> subseq w m -> (length w <= lcs l m)%nat.
Proof. intros l m. exact (lcs_upper_aux _ l m (Nat.le_refl _)). Qed.

(* ... and one of that length exists *)
Lemma lcs_witness_aux : forall n l m, (length l + length m <= n)%nat ->
  exists w, subseq w l /\ subseq w m /\ length w = lcs l m.
Proof.
  induction n as [|n IH]; intros l m Hn.
  - destruct l, m; simpl in Hn; try lia. exists []. repeat split; constructor.
  - destruct l as [|x l']; [exists []; repeat split; constructor|].
    destruct m as [|y m']; [exists []; repeat split; constructor|].
    simpl in Hn. rewrite lcs_cons. destruct (x =? y) eqn:E.
    + apply Z.eqb_eq in E. subst y. destruct (IH l' m' ltac:(lia)) as (w & H1 & H2 & H3).
      exists (x :: w). repeat split; try (apply sub_take; assumption). simpl. lia.
    + destruct (Nat.max_spec (lcs l' (y :: m')) (lcs (x :: l') m')) as [[_ ->]|[_ ->]].
      * destruct (IH (x :: l') m' ltac:(simpl; lia)) as (w & H1 & H2 & H3).
        exists w. repeat split; try assumption. apply sub_skip. assumption.
      * destruct (IH l' (y :: m') ltac:(simpl; lia)) as (w & H1 & H2 & H3).
        exists w. repeat split; try assumption. apply sub_skip. assumption.
Qed.

Theorem lcs_witness : forall l m, exists w, subseq w l /\ subseq w m /\ length w = lcs l m.
Proof. intros l m. exact (lcs_witness_aux _ l m (Nat.le_refl _)). Qed.

Lemma lcs_rev_le : forall l m, (lcs (rev l) (rev m) <= lcs l m)%nat.
Proof.
  intros l m. destruct (lcs_witness (rev l) (rev m)) as (w & H1 & H2 & <-).
  apply subseq_rev in H1, H2. rewrite rev_involutive in H1, H2.
  rewrite <- (rev_length w). apply lcs_upper; assumption.
Qed.

Lemma lcs_rev : forall l m, lcs (rev l) (rev m) = lcs l m.
Proof.
  intros l m. apply Nat.le_antisymm; [apply lcs_rev_le|].
  pose proof (lcs_rev_le (rev l) (rev m)) as H. rewrite !rev_involutive in H. exact H.
Qed.

Lemma lcs_app_prefix : forall p l m, lcs (p ++ l) (p ++ m) = (length p + lcs l m)%nat.
Proof. induction p; intros; simpl app; [reflexivity|]. rewrite lcs_cons, Z.eqb_refl, IHp. reflexivity. Qed.

Lemma lcs_app_suffix : forall q l m, lcs (l ++ q) (m ++ q) = (lcs l m + length q)%nat.
Proof.
  intros q l m. rewrite <- lcs_rev, !rev_app_distr, lcs_app_prefix, lcs_rev, rev_length. lia.
Qed.

(* the table computation *)
Fixpoint suffix_lcs (l m : str) : list nat :=
  match m with
  | [] => [lcs l []]
  | _ :: m' => lcs l m :: suffix_lcs l m'
  end.

Lemma suffix_lcs_hd : forall l m, hd O (suffix_lcs l m) = lcs l m.
Proof. destruct m; reflexivity. Qed.

Lemma lcs_step_correct : forall x l m, lcs_step x m (suffix_lcs l m) = suffix_lcs (x :: l) m.
Proof.
  intros x l. induction m as [|y m IH]; [reflexivity|].
  cbn [suffix_lcs lcs_step]. rewrite IH, !suffix_lcs_hd, lcs_cons. reflexivity.
Qed.

Lemma suffix_lcs_nil : forall m, suffix_lcs [] m = repeat O (S (length m)).
Proof. induction m; [reflexivity|]. cbn [suffix_lcs]. rewrite IHm. reflexivity. Qed.

Theorem lcs_fast_correct : forall l m, lcs_fast l m = lcs l m.
Proof.
  intros l m. unfold lcs_fast. rewrite <- suffix_lcs_hd. f_equal.
  induction l as [|x l IH]; cbn [fold_right]; [symmetry; apply suffix_lcs_nil|].
  rewrite IH. apply lcs_step_correct.
Qed.

(* ---------------------------------------------------------------- the matrix of two strings *)
Lemma zz_leb_ne : forall a p b q, a <> b -> zz_leb (a, p) (b, q) = (a <? b).
Proof.
  intros a p b q H. unfold zz_leb, zz_ltb, zz_eqb. simpl.
  apply Z.eqb_neq in H. rewrite H. destruct (a <? b); reflexivity.
Qed.

(* when neither neighbour ties with the diagonal, the decision does not read the path lengths *)
Lemma best_cost_no_tie : forall d l u m i r, ccost l <> ccost d -> ccost u <> ccost d ->
  ccost (best d l u m i r) =
  if (ccost d <? ccost l) && (ccost d <? ccost u) && (m <? i) && (m <? r) then ccost d + m
  else if ccost u <? ccost d then ccost u + i else ccost l + r.
Proof.
  intros d l u m i r Hl Hu. unfold best.
  rewrite !zz_leb_ne by congruence.
  destruct ((ccost d <? ccost l) && (ccost d <? ccost u) && (m <? i) && (m <? r)); [reflexivity|].
  destruct (ccost u <? ccost d); reflexivity.
Qed.

Section StrCells.
  Variables s' t' : str.

  (* insert/delete distance of the prefixes of length c and r *)
  Definition dcell (r c : nat) : Z :=
    Z.of_nat r + Z.of_nat c - 2 * Z.of_nat (lcs (rev (firstn c s')) (rev (firstn r t'))).

  Lemma str_cell_cost : forall r, (r <= length t')%nat -> forall c, (c <= length s')%nat ->
    ccost (cell_at (matrix (str_rc s') (str_rc t') (str_mcs s' t')) r c) = dcell r c.
  Proof.
    pose proof (str_dims_ok s' t') as Hd.
    assert (Ls : length (str_rc s') = length s') by (unfold str_rc; apply map_length).
    assert (Lt : length (str_rc t') = length t') by (unfold str_rc; apply map_length).
    induction r as [|r IHr]; intros Hr; induction c as [|c IHc]; intros Hc.
    - reflexivity.
    - rewrite cell_0S by (try exact Hd; lia). cbn [ccost step_cell]. rewrite IHc by lia.
      rewrite str_rc_nth by lia. unfold dcell. cbn [firstn rev]. rewrite !lcs_nil_r. lia.
    - rewrite cell_S0 by (try exact Hd; lia). cbn [ccost step_cell]. rewrite IHr by lia.
      rewrite str_rc_nth by lia. unfold dcell. cbn [firstn rev lcs]. lia.
    - rewrite cell_SS by (try exact Hd; lia).
      pose proof (IHr ltac:(lia) c ltac:(lia)) as Ed.
      pose proof (IHr ltac:(lia) (S c) ltac:(lia)) as Eu.
      pose proof (IHc ltac:(lia)) as El.
      unfold dcell in *.
      rewrite (firstn_S_nth s' c 0) in * by lia. rewrite (firstn_S_nth t' r 0) in * by lia.
      rewrite !rev_app_distr in *. cbn [rev app] in *.
      set (a := rev (firstn c s')) in *. set (b := rev (firstn r t')) in *.
      set (x := nth c s' 0) in *. set (y := nth r t' 0) in *.
      pose proof (lcs_lipschitz_r a b y) as L1. pose proof (lcs_lipschitz_l a b x) as L2.
      pose proof (lcs_lipschitz_r (x :: a) b y) as L3. pose proof (lcs_lipschitz_l a (y :: b) x) as L4.
      rewrite best_cost_no_tie by lia.
      rewrite Ed, El, Eu, str_mcs_nth, !str_rc_nth by lia. fold x y.
      rewrite lcs_cons in *. unfold char_cost.
      destruct (x =? y);
        repeat match goal with |- context [?p <? ?q] => destruct (Z.ltb_spec p q) end; cbn [andb]; lia.
  Qed.

  Lemma str_final_cost : final_cost (str_rc s') (str_rc t') (str_mcs s' t') =
    Z.of_nat (length s') + Z.of_nat (length t') - 2 * Z.of_nat (lcs s' t').
  Proof.
    unfold final_cost. unfold str_rc at 3 4. rewrite !map_length.
    rewrite str_cell_cost by lia. unfold dcell. rewrite !firstn_all, lcs_rev. lia.
  Qed.
End StrCells.

(* ---------------------------------------------------------------- C11 *)
Lemma str_decompose : forall s t p q, trim Z.eqb s t = (p, q) ->
  s = firstn p s ++ middle p q s ++ skipn (length s - q) s /\
  t = firstn p s ++ middle p q t ++ skipn (length s - q) s.
Proof.
  intros s t p q T. pose proof (trim_bounds Z.eqb s t p q T) as (_ & _ & B1 & B2). split.
  - apply middle_split. exact B1.
  - rewrite (trim_Z_prefix s t p q T), (trim_Z_suffix s t p q T). apply middle_split. exact B2.
Qed.

(* the reported cost is the insert/delete distance *)
Theorem C11_cost : forall s t,
  fst (str_script s t) = Z.of_nat (length s) + Z.of_nat (length t) - 2 * Z.of_nat (lcs s t).
Proof.
  intros s t. destruct (trim Z.eqb s t) as [p q] eqn:T. rewrite (str_script_unfold s t p q T). cbn [fst].
  rewrite str_final_cost.
  destruct (str_decompose s t p q T) as [Es Et].
  set (pre := firstn p s) in *. set (suf := skipn (length s - q) s) in *.
  set (s' := middle p q s) in *. set (t' := middle p q t) in *.
  rewrite Es at 1 2. rewrite Et at 1 2.
  rewrite lcs_app_prefix, lcs_app_suffix, !app_length. lia.
Qed.

(* counting, for any list of character operations *)
Lemma sop_counts : forall ops,
  length (flat_map sop_from ops) = (length (kept ops) + n_sub ops + n_del ops)%nat /\
  length (flat_map sop_to ops) = (length (kept ops) + n_sub ops + n_add ops)%nat /\
  zsum (map sop_cost ops) = Z.of_nat (n_sub ops + n_del ops + n_add ops).
Proof.
  unfold n_sub, n_del, n_add, kept.
  induction ops as [|o ops (IH1 & IH2 & IH3)]; [repeat split|].
  change (zsum (map sop_cost (o :: ops))) with (sop_cost o + zsum (map sop_cost ops)).
  cbn [flat_map filter]. rewrite !app_length, IH1, IH2, IH3.
  destruct o; cbn [sop_from sop_to sop_cost is_sub is_del is_add length]; repeat split; lia.
Qed.

Lemma no_sub_n_sub : forall ops, no_sub ops = true -> n_sub ops = O.
Proof.
  unfold no_sub, n_sub. induction ops as [|o ops IH]; [reflexivity|]. cbn [forallb filter].
  intros H. apply andb_true_iff in H. destruct H as [H1 H2]. destruct (is_sub o); [discriminate|]. auto.
Qed.

Lemma kept_subseq_from : forall ops, subseq (kept ops) (flat_map sop_from ops).
Proof.
  unfold kept. induction ops as [|o ops IH]; [constructor|]. cbn [flat_map].
  destruct o; cbn [sop_from app]; try (apply sub_take; assumption); try (apply sub_skip; assumption). assumption.
Qed.

Lemma kept_subseq_to : forall ops, subseq (kept ops) (flat_map sop_to ops).
Proof.
  unfold kept. induction ops as [|o ops IH]; [constructor|]. cbn [flat_map].
  destruct o; cbn [sop_to app]; try (apply sub_take; assumption); try (apply sub_skip; assumption). assumption.
Qed.

Lemma no_sub_app : forall a b, no_sub (a ++ b) = no_sub a && no_sub b.
Proof. intros. unfold no_sub. apply forallb_app. Qed.

Lemma no_sub_keeps : forall l, no_sub (map SKeep l) = true.
Proof. induction l; [reflexivity|]. exact IHl. Qed.

(* unequal characters are never "matched": a match at cost 1 is not strictly cheaper than an insert *)
Theorem str_script_no_sub : forall s t, no_sub (snd (str_script s t)) = true.
Proof.
  intros s t. destruct (trim Z.eqb s t) as [p q] eqn:T. rewrite (str_script_unfold s t p q T). cbn [snd].
  rewrite !no_sub_app, !no_sub_keeps, andb_true_r. cbn [andb].
  set (s' := middle p q s). set (t' := middle p q t).
  pose proof (diag_strict_all _ _ _ (str_dims_ok s' t')) as D.
  pose proof (alignment_in_range _ _ _ (str_dims_ok s' t')) as R.
  unfold no_sub. rewrite forallb_forall. intros o Ho. apply in_map_iff in Ho. destruct Ho as (a & <- & Ha).
  rewrite Forall_forall in D, R. specialize (D a Ha). specialize (R a Ha).
  destruct a as [c r|c|r]; cbn [sop_of]; try reflexivity.
  destruct R as [Rc Rr]. unfold str_rc in Rc, Rr. rewrite map_length in Rc, Rr.
  destruct D as [D _]. rewrite str_mcs_nth, str_rc_nth in D by assumption.
  unfold char_cost in D. destruct (nth c s' 0 =? nth r t' 0); [reflexivity|lia].
Qed.

Theorem C11_kept_lcs : forall s t, length (kept (snd (str_script s t))) = lcs s t.
Proof.
  intros s t. pose proof (C11_cost s t) as C. rewrite str_script_cost in C.
  destruct (sop_counts (snd (str_script s t))) as (F & G & Z3).
  rewrite str_script_from in F. rewrite str_script_to in G.
  rewrite (no_sub_n_sub _ (str_script_no_sub s t)) in *. lia.
Qed.

(* C11: the characters shown as unchanged form a longest common subsequence of the two strings, no unequal
   characters are paired, and so the number of characters marked removed plus inserted is
   |s| + |t| - 2 * (length of a longest common subsequence): the smallest possible. *)
Theorem C11_minimal : forall s t, let ops := snd (str_script s t) in
  subseq (kept ops) s /\ subseq (kept ops) t /\
  (forall w, subseq w s -> subseq w t -> (length w <= length (kept ops))%nat) /\
  no_sub ops = true /\
  Z.of_nat (n_del ops + n_add ops) = Z.of_nat (length s) + Z.of_nat (length t) - 2 * Z.of_nat (length (kept ops)) /\
  fst (str_script s t) = Z.of_nat (n_del ops + n_add ops).
Proof.
  intros s t ops. subst ops.
  pose proof (kept_subseq_from (snd (str_script s t))) as K1. rewrite str_script_from in K1.
  pose proof (kept_subseq_to (snd (str_script s t))) as K2. rewrite str_script_to in K2.
  pose proof (C11_kept_lcs s t) as L. pose proof (str_script_no_sub s t) as N.
  destruct (sop_counts (snd (str_script s t))) as (F & G & Z3).
  rewrite str_script_from in F. rewrite str_script_to in G. rewrite <- str_script_cost in Z3.
  rewrite (no_sub_n_sub _ N) in *.
  repeat split; try assumption.
  - intros w H1 H2. rewrite L. apply lcs_upper; assumption.
  - lia.
Qed.

(* any other script for the same pair that pairs no unequal characters marks at least as many characters *)
Corollary C11_fewest_marks : forall s t ops',
  flat_map sop_from ops' = s -> flat_map sop_to ops' = t -> no_sub ops' = true ->
  (n_del (snd (str_script s t)) + n_add (snd (str_script s t)) <= n_del ops' + n_add ops')%nat.
Proof.
  intros s t ops' Hs Ht N.
  destruct (C11_minimal s t) as (_ & _ & M & _ & E & _).
  pose proof (kept_subseq_from ops') as K1. rewrite Hs in K1.
  pose proof (kept_subseq_to ops') as K2. rewrite Ht in K2.
  specialize (M _ K1 K2).
  destruct (sop_counts ops') as (F & G & _). rewrite Hs in F. rewrite Ht in G.
  rewrite (no_sub_n_sub _ N) in *. lia.
Qed.

(* the executable statement, on the model's own output *)
Lemma str_eqb_refl : forall a, str_eqb a a = true.
Proof. induction a; simpl; [reflexivity|]. rewrite Z.eqb_refl. exact IHa. Qed.

Theorem C11_holds : forall s t, holds_C11 (model_case s t) = true.
Proof.
  intros s t. unfold holds_C11, holds_ops, model_case, mk_case. cbn [st_s st_t st_lo st_hi st_ops].
  rewrite str_script_from, str_script_to, !str_eqb_refl, lcs_fast_correct, C11_kept_lcs, Nat.eqb_refl,
    str_script_no_sub.
  destruct (C11_minimal s t) as (_ & _ & _ & _ & _ & E). rewrite E, !Z.eqb_refl. reflexivity.
Qed.

(* what holds_C11 = true says about ANY observed script, declaratively *)
Lemma str_eqb_eq : forall a b, str_eqb a b = true -> a = b.
Proof.
  induction a; destruct b; simpl; intros H; try discriminate; [reflexivity|].
  apply andb_true_iff in H. destruct H as [H1 H2]. apply Z.eqb_eq in H1. f_equal; auto.
Qed.

Theorem holds_ops_sound : forall c, holds_ops c = true ->
  let ops := st_ops c in let s := st_s c in let t := st_t c in
  flat_map sop_from ops = s /\ flat_map sop_to ops = t /\
  subseq (kept ops) s /\ subseq (kept ops) t /\
  (forall w, subseq w s -> subseq w t -> (length w <= length (kept ops))%nat) /\
  no_sub ops = true /\
  Z.of_nat (n_del ops + n_add ops) = Z.of_nat (length s) + Z.of_nat (length t) - 2 * Z.of_nat (length (kept ops)).
Proof.
  intros c H ops s t. unfold holds_ops in H. fold ops s t in H.
  repeat (apply andb_true_iff in H; destruct H as [H ?]).
  apply str_eqb_eq in H. apply str_eqb_eq in H2. apply Nat.eqb_eq in H1.
  rewrite lcs_fast_correct in H1.
  pose proof (kept_subseq_from ops) as K1. rewrite H in K1.
  pose proof (kept_subseq_to ops) as K2. rewrite H2 in K2.
  destruct (sop_counts ops) as (F & G & _). rewrite H in F. rewrite H2 in G.
  rewrite (no_sub_n_sub _ H0) in *.
  repeat split; try assumption.
  - intros w W1 W2. rewrite H1. apply lcs_upper; assumption.
  - lia.
Qed.

Theorem holds_C11_sound : forall c, holds_C11 c = true ->
  let ops := st_ops c in let s := st_s c in let t := st_t c in
  flat_map sop_from ops = s /\ flat_map sop_to ops = t /\
  subseq (kept ops) s /\ subseq (kept ops) t /\
  (forall w, subseq w s -> subseq w t -> (length w <= length (kept ops))%nat) /\
  no_sub ops = true /\
  Z.of_nat (n_del ops + n_add ops) = Z.of_nat (length s) + Z.of_nat (length t) - 2 * Z.of_nat (length (kept ops)) /\
  st_lo c = st_hi c /\ st_hi c = Z.of_nat (n_del ops + n_add ops).
Proof.
  intros c H ops s t. unfold holds_C11 in H.
  apply andb_true_iff in H. destruct H as [H H2]. apply andb_true_iff in H. destruct H as [H H1].
  apply Z.eqb_eq in H1, H2.
  destruct (holds_ops_sound c H) as (A1 & A2 & A3 & A4 & A5 & A6 & A7).
  repeat split; assumption.
Qed.

(* the correspondence check is exact: an observed script that passes it IS the model's output,
   so the theorems above transfer to it *)
Lemma sops_same_eq : forall a b, sops_same a b = true -> a = b.
Proof.
  induction a as [|p a IH]; destruct b as [|q b]; simpl; intros H; try discriminate; [reflexivity|].
  apply andb_true_iff in H. destruct H as [H1 H2]. f_equal; [|apply IH; exact H2].
  destruct p, q; simpl in H1; try discriminate;
    try (apply andb_true_iff in H1; destruct H1 as [H1 H3]; apply Z.eqb_eq in H3);
    apply Z.eqb_eq in H1; congruence.
Qed.

Theorem corr_C11_sound : forall c, corr_C11 c = true ->
  st_lo c = fst (str_script (st_s c) (st_t c)) /\ st_hi c = fst (str_script (st_s c) (st_t c)) /\
  st_ops c = snd (str_script (st_s c) (st_t c)).
Proof.
  intros c H. unfold corr_C11, corr_with in H. destruct (str_script (st_s c) (st_t c)) as [k ops].
  apply andb_true_iff in H. destruct H as [H H2]. apply andb_true_iff in H. destruct H as [H0 H1].
  apply Z.eqb_eq in H0, H1. apply sops_same_eq in H2. simpl. auto.
Qed.

Corollary corr_C11_holds : forall c, corr_C11 c = true -> holds_C11 c = true.
Proof.
  intros [s t lo hi ops] H. destruct (corr_C11_sound _ H) as (E1 & E2 & E3). simpl in E1, E2, E3. subst.
  exact (C11_holds s t).
Qed.

(* the class of the finding kf_C11_equal, on the model's side: for equal strings the model's script keeps
   every character and costs 0 (the real code computes the same script but never reports a definitive cost) *)
Theorem kf_class_model : forall s, fst (str_script s s) = 0 /\ kept (snd (str_script s s)) = s.
Proof.
  intros s. pose proof (C11_cost s s) as C.
  assert (L : lcs s s = length s).
  { rewrite <- (app_nil_r s) at 1 2. rewrite lcs_app_prefix. simpl. lia. }
  rewrite L in C. split; [lia|].
  pose proof (kept_subseq_from (snd (str_script s s))) as K. rewrite str_script_from in K.
  pose proof (C11_kept_lcs s s) as N. rewrite L in N.
  apply subseq_full_length; assumption.
Qed.

(* the statements are not vacuous: a pair with a repeated character, a shared prefix and a shared suffix *)
Example C11_example :
  let s := [97; 98; 99; 98; 100] in let t := [97; 99; 98; 98; 120; 100] in
  str_script s t = (3, [SKeep 97; SDel 98; SKeep 99; SKeep 98; SAdd 98; SAdd 120; SKeep 100]) /\
  kept (snd (str_script s t)) = [97; 99; 98; 100] /\ lcs s t = 4%nat /\ lcs_fast s t = 4%nat /\
  holds_C11 (model_case s t) = true /\ corr_C11 (model_case s t) = true /\
  kf_C11_equal (model_case s t) = false /\ kf_C11_equal {| st_s := [97]; st_t := [97]; st_lo := 0; st_hi := 2; st_ops := [SKeep 97] |} = true /\
  holds_C11 {| st_s := [97]; st_t := [97]; st_lo := 0; st_hi := 2; st_ops := [SKeep 97] |} = false.
Proof. vm_compute. repeat split; reflexivity. Qed.

Example subseq_example : subseq [97; 98; 100] [97; 98; 99; 98; 100] /\ ~ subseq [98; 97] [97; 98; 99].
Proof.
  split; [repeat constructor|]. intros H.
  repeat match goal with H : subseq _ _ |- _ => inversion H; clear H; subst end.
Qed.
