(* Facts about the levenshtein_distance model needed by C02: the distance of a string to itself is 0. *)
From Coq Require Import ZArith List Bool Lia.
Require Import GT.Data GT.LevModel.
Import ListNotations.
Open Scope Z_scope.

Lemma lev_col_rest_length : forall tc s prev diag above, (length s <= length prev)%nat ->
  length (lev_col_rest tc s prev diag above) = length s.
Proof.
  intros tc. induction s as [|sc s IH]; intros prev diag above H; [reflexivity|].
  destruct prev as [|p prev]; cbn in *; [lia|]. rewrite IH by lia. reflexivity.
Qed.

Lemma lev_next_col_length : forall tc s prev, length prev = S (length s) -> length (lev_next_col tc s prev) = S (length s).
Proof.
  intros tc s prev H. destruct prev as [|p0 prev]; [discriminate|]. cbn in *. rewrite lev_col_rest_length by lia. reflexivity.
Qed.

(* entry i+1 of the new column, from entry i of the new column and entries i, i+1 of the previous one *)
Lemma lev_col_rest_nth : forall tc s prev diag above i, (length s <= length prev)%nat -> (i < length s)%nat ->
  nth i (lev_col_rest tc s prev diag above) 0 =
  Z.min (Z.min (nth i (above :: lev_col_rest tc s prev diag above) 0 + 1) (nth i prev 0 + 1))
        (nth i (diag :: prev) 0 + (if nth i s 0 =? tc then 0 else 1)).
Proof.
  intros tc. induction s as [|sc s IH]; intros prev diag above i Hl Hi; [cbn in Hi; lia|].
  destruct prev as [|p prev]; [cbn in Hl; lia|]. destruct i as [|i]; [reflexivity|].
  cbn [lev_col_rest nth]. rewrite IH by (cbn in *; lia). reflexivity.
Qed.

Lemma lev_next_col_nth0 : forall tc s prev, nth 0 (lev_next_col tc s prev) 0 = nth 0 prev 0 + 1 \/ prev = [].
Proof. intros tc s [|p0 prev]; [right; reflexivity|left; reflexivity]. Qed.

Lemma lev_next_col_nthS : forall tc s prev i, length prev = S (length s) -> (i < length s)%nat ->
  nth (S i) (lev_next_col tc s prev) 0 =
  Z.min (Z.min (nth i (lev_next_col tc s prev) 0 + 1) (nth (S i) prev 0 + 1))
        (nth i prev 0 + (if nth i s 0 =? tc then 0 else 1)).
Proof.
  intros tc s prev i Hl Hi. destruct prev as [|p0 prev]; [discriminate|]. cbn [lev_next_col].
  change (nth (S i) ((p0 + 1) :: lev_col_rest tc s prev p0 (p0 + 1)) 0) with (nth i (lev_col_rest tc s prev p0 (p0 + 1)) 0).
  rewrite lev_col_rest_nth by (cbn in *; lia). reflexivity.
Qed.

Lemma lev_next_col_nonneg : forall tc s prev, length prev = S (length s) -> Forall (fun x => 0 <= x) prev ->
  forall i, (i <= length s)%nat -> 0 <= nth i (lev_next_col tc s prev) 0.
Proof.
  intros tc s prev Hl Hp. assert (Hn : forall i, (i <= length s)%nat -> 0 <= nth i prev 0).
  { intros i Hi. rewrite Forall_forall in Hp. apply Hp. apply nth_In. lia. }
  induction i as [|i IH]; intro Hi.
  - destruct (lev_next_col_nth0 tc s prev) as [->| ->]; [|discriminate]. specialize (Hn 0%nat). lia.
  - rewrite lev_next_col_nthS by lia. pose proof (Hn i). pose proof (Hn (S i)). specialize (IH ltac:(lia)).
    destruct (nth i s 0 =? tc); lia.
Qed.

Definition lev_cols (s t : str) : list Z := fold_left (fun col tc => lev_next_col tc s col) t (lev_col0 s).

Lemma lev_col0_length : forall s, length (lev_col0 s) = S (length s).
Proof. intro s. unfold lev_col0. rewrite map_length, seq_length. reflexivity. Qed.

Lemma lev_cols_length : forall s t, length (lev_cols s t) = S (length s).
Proof.
  intros s t. unfold lev_cols. generalize (lev_col0_length s). generalize (lev_col0 s).
  induction t as [|tc t IH]; intros col H; cbn; [exact H|]. apply IH. apply lev_next_col_length. exact H.
Qed.

Lemma lev_cols_nonneg : forall s t i, (i <= length s)%nat -> 0 <= nth i (lev_cols s t) 0.
Proof.
  intros s t. unfold lev_cols.
  assert (H0 : Forall (fun x => 0 <= x) (lev_col0 s)).
  { unfold lev_col0. apply Forall_forall. intros x Hx. apply in_map_iff in Hx. destruct Hx as [n [<- _]]. lia. }
  generalize (lev_col0_length s) H0. generalize (lev_col0 s).
  induction t as [|tc t IH]; intros col Hl Hp i Hi; cbn.
  - rewrite Forall_forall in Hp. apply Hp. apply nth_In. lia.
  - apply IH; [apply lev_next_col_length; exact Hl| |exact Hi].
    apply Forall_forall. intros x Hx. apply (In_nth _ _ 0) in Hx. destruct Hx as [k [Hk <-]].
    rewrite lev_next_col_length in Hk by exact Hl. apply lev_next_col_nonneg; auto. lia.
Qed.

Lemma lev_cols_snoc : forall s t tc, lev_cols s (t ++ [tc]) = lev_next_col tc s (lev_cols s t).
Proof. intros. unfold lev_cols. rewrite fold_left_app. reflexivity. Qed.

Lemma firstn_S_nth_Z : forall (s : str) j, (j < length s)%nat -> firstn (S j) s = firstn j s ++ [nth j s 0].
Proof.
  induction s as [|x s IH]; intros j Hj; [cbn in Hj; lia|]. destruct j as [|j]; [reflexivity|].
  change (firstn (S (S j)) (x :: s)) with (x :: firstn (S j) s). rewrite IH by (cbn in Hj; lia). reflexivity.
Qed.

(* the diagonal of the matrix of a string against itself is 0 *)
Lemma lev_diag_zero : forall s j, (j <= length s)%nat -> nth j (lev_cols s (firstn j s)) 0 = 0.
Proof.
  intros s. induction j as [|j IH]; intro Hj.
  - cbn. unfold lev_col0. destruct (length s); reflexivity.
  - assert (Hjs : (j < length s)%nat) by lia.
    rewrite (firstn_S_nth_Z s j Hjs), lev_cols_snoc.
    rewrite lev_next_col_nthS by (rewrite ?lev_cols_length; lia). rewrite IH by lia. rewrite Z.eqb_refl.
    pose proof (lev_next_col_nonneg (nth j s 0) s (lev_cols s (firstn j s)) (lev_cols_length _ _)) as Hnn.
    assert (Hall : Forall (fun x => 0 <= x) (lev_cols s (firstn j s))).
    { apply Forall_forall. intros x Hx. apply (In_nth _ _ 0) in Hx. destruct Hx as [k [Hk <-]].
      rewrite lev_cols_length in Hk. apply lev_cols_nonneg. lia. }
    specialize (Hnn Hall j ltac:(lia)). pose proof (lev_cols_nonneg s (firstn j s) (S j) ltac:(lia)). lia.
Qed.

Lemma last_nth : forall (l : list Z) d, last l d = nth (length l - 1) l d.
Proof.
  induction l as [|x l IH]; intro d; [reflexivity|]. destruct l as [|y l]; [reflexivity|].
  change (last (x :: y :: l) d) with (last (y :: l) d). rewrite IH. cbn [length]. 
  replace (S (S (length l)) - 1)%nat with (S (length (y :: l) - 1)) by (cbn; lia). reflexivity.
Qed.

Theorem lev_dp_refl : forall s, lev_dp s s = 0.
Proof.
  intro s. unfold lev_dp, lev_last_col. change (fold_left _ s (lev_col0 s)) with (lev_cols s s).
  rewrite last_nth, lev_cols_length. replace (S (length s) - 1)%nat with (length s) by lia.
  pose proof (lev_diag_zero s (length s) (le_n _)) as H. rewrite firstn_all in H. exact H.
Qed.
