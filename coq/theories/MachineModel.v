(* Small-step models of the Bounded protocol (bounds() / tighten_bounds()) of graphtage's edit classes, as the code
   is written.  Definitions only (no proofs): state types and step functions, one combinator per class,
   parameterised by the state type / operations of the children:
     constM            ConstantCostEdit (Match, Replace, Remove, Insert)                     edits.py:142-167
     sumM              KeyValuePairEdit; XMLElementEdit, DataClassEdit, PyObjEdit are the same   graphtage.py:162-166
     rut               the repeat_until_tightened decorator                                   bounds.py:241-262
     fixedM            FixedLengthSequenceEdit                                                sequences.py:92-111
     edM               EditDistance (StringEdit delegates to one over constant children)      levenshtein.py:161-351
   and the universal machine UM d over states `st` of nesting depth <= d, with `initU a b` = the state of the edit
   a.edits(b) for the list / string / scalar / key-value fragment of trees.
   Observer: every machine step is  tighten_bounds()  followed by  bounds()  (the active observer of the harness):
   EditDistance.bounds() finalises a completed matrix, so a state is always the one left behind by bounds(). *)
From Coq Require Import ZArith List Bool Lia.
Require Import GT.PyBase GT.Data GT.EdTypes GT.EdEngine GT.LevModel GTgen.EdGen GT.EdParams GT.ScriptSpec GT.ScriptModel
               GT.MachineSpec.
Import ListNotations.
Open Scope Z_scope.

(* ---------------------------------------------------------------- ranges *)
Definition zdefb (r : zr) : bool := fst r =? snd r.                               (* Range.definitive *)
Definition zr_add (a b : zr) : zr := (fst a + fst b, snd a + snd b).              (* Range.__add__ *)
Definition zr_sum (l : list zr) : zr := fold_right zr_add (0, 0) l.
(* new is strictly tighter than old at one end *)
Definition tighter (new old : zr) : bool := (fst old <? fst new) || (snd new <? snd old).
Definition widened (new old : zr) : bool := (fst new <? fst old) || (snd old <? snd new).

(* ---------------------------------------------------------------- ConstantCostEdit *)
Definition constM : machine := {| St := Z; bnd := fun c => (c, c); tig := fun c => (c, false) |}.

(* ---------------------------------------------------------------- `a.tighten_bounds() or b.tighten_bounds() or ...`
   = `for e in edits: if e.tighten_bounds(): return True` / `return False` *)
Section FirstTrue.
  Context {X : Type}.
  Variable t : X -> X * bool.
  Fixpoint first_true (l : list X) : list X * bool :=
    match l with
    | [] => ([], false)
    | s :: l' =>
        let p := t s in
        if snd p then (fst p :: l', true)
        else let q := first_true l' in (fst p :: fst q, snd q)
    end.
End FirstTrue.

(* KeyValuePairEdit and the other component-wise compounds: bounds = sum, tighten = first component that tightens *)
Definition sumM (C : machine) : machine :=
  {| St := list (St C);
     bnd := fun l => zr_sum (map (bnd C) l);
     tig := first_true (tig C) |}.

(* ---------------------------------------------------------------- repeat_until_tightened *)
Section Rut.
  Context {S : Type}.
  Variables (b : S -> zr) (f : S -> S).
  (* fuel: the decorator loops while the decorated function leaves the bounds unchanged (or widens them, which is
     only logged); an exhausted fuel is reported as False on a proper interval, i.e. as a contract violation *)
  Fixpoint rut_loop (fuel : nat) (start : zr) (s : S) : S * bool :=
    match fuel with
    | O => (s, false)
    | Datatypes.S fuel' =>
        let s1 := f s in
        let nb := b s1 in
        if widened nb start then rut_loop fuel' start s1
        else if zdefb nb || tighter nb start then (s1, true)
        else rut_loop fuel' start s1
    end.
  Definition rut (fuel : nat) (s : S) : S * bool :=
    if zdefb (b s) then (s, false) else rut_loop fuel (b s) s.
End Rut.
Definition rut_fuel : nat := 8.

(* ---------------------------------------------------------------- FixedLengthSequenceEdit
   state: the positional sub-edits and the constant total of the Remove/Insert edits of the surplus tail *)
Definition fixed_bnd {X} (b : X -> zr) (s : list X * Z) : zr :=
  let r := zr_sum (map b (fst s)) in (fst r + snd s, snd r + snd s).
Definition fixed_tig {X} (b : X -> zr) (t : X -> X * bool) (s : list X * Z) : (list X * Z) * bool :=
  rut (fixed_bnd b) (fun s => (fst (first_true t (fst s)), snd s)) rut_fuel s.
Definition fixedM (C : machine) : machine :=
  {| St := (list (St C) * Z)%type; bnd := fixed_bnd (bnd C); tig := fixed_tig (bnd C) (tig C) |}.

(* ---------------------------------------------------------------- EditDistance *)
Fixpoint set_nth {A} (n : nat) (x : A) (l : list A) : list A :=
  match l, n with
  | [], _ => []
  | _ :: l', O => x :: l'
  | y :: l', Datatypes.S n' => y :: set_nth n' x l'
  end.
Definition set2 {A} (m : list (list A)) (r c : nat) (x : A) : list (list A) :=
  set_nth r (set_nth c x (nth r m [])) m.

Record ed (X : Type) := mk_ed {
  e_K : Z;                          (* constant_cost *)
  e_U : Z;                          (* cost_upper_bound *)
  e_rc : list Z;                    (* costs of Remove(from_seq[c]) *)
  e_ic : list Z;                    (* costs of Insert(to_seq[r]) *)
  e_kids : list (list X);           (* e_kids[r][c]: the edit from_seq[c].edits(to_seq[r]); all created up front (creation is pure) *)
  e_d : nat;                        (* number of fringe diagonals started; 0 <-> _fringe_row = -1; diagonal k has anchor
                                       (k, 0) for k <= len(to_seq), else (len(to_seq), k - len(to_seq)) *)
  e_cost : list (list cell);        (* costs / path_costs, (len(to_seq)+1) x (len(from_seq)+1), numpy zeros initially *)
  e_done : option Z;                (* Some c: bounds() has finalised (edits built, _cleanup done) with total c *)
  e_err : bool                      (* an assertion of the code failed (a cell edit stopped tightening on a proper interval) *)
}.
Arguments mk_ed {X}. Arguments e_K {X}. Arguments e_U {X}. Arguments e_rc {X}. Arguments e_ic {X}.
Arguments e_kids {X}. Arguments e_d {X}. Arguments e_cost {X}. Arguments e_done {X}. Arguments e_err {X}.

Definition bstep (p : cell) (w : Z) (d : dir) : cell :=
  {| ccost := ccost p + w; cpath := wrap16 (cpath p + 1); cdir := d |}.

(* _fringe_diagonal for the anchor of diagonal k: cells (r, k - r), r descending, 0 <= r <= m, k - r <= n *)
Definition diag (m n k : nat) : list (nat * nat) :=
  filter (fun p => Nat.leb (snd p) n) (map (fun r => (r, (k - r)%nat)) (rev (seq 0 (Datatypes.S (Nat.min k m))))).

Definition zmin_list (l : list Z) : Z := match l with [] => 0 | x :: l' => fold_right Z.min x l' end.

Section ED.
  Context {X : Type}.
  Variables (b : X -> zr) (t : X -> X * bool).

  Definition em (s : ed X) : nat := length (e_ic s).
  Definition en (s : ed X) : nat := length (e_rc s).

  Definition dmin (s : ed X) (k : nat) : Z :=
    zmin_list (map (fun p => ccost (cell_at (e_cost s) (fst p) (snd p))) (diag (em s) (en s) k)).

  (* EditDistance.bounds() on a state left behind by bounds() *)
  Definition ed_bnd (s : ed X) : zr :=
    if Nat.eqb (en s) 0 && Nat.eqb (em s) 0 && (e_K s =? 0) then (0, 0)
    else match e_done s with
         | Some c => (c, c)
         | None =>
             if Nat.leb (e_d s) 1 || Nat.eqb (em s) 0 then (e_K s, e_U s)          (* _fringe_row <= 0 *)
             else (Z.max (e_K s) (Z.min (dmin s (e_d s - 1)) (dmin s (e_d s - 2))), e_U s)
         end.

  (* while x.tighten_bounds(): pass      (fuel: the width of the interval bounds the number of True results) *)
  Fixpoint run_fix (fuel : nat) (x : X) : option X :=
    match fuel with
    | O => None
    | Datatypes.S f => let p := t x in if snd p then run_fix f (fst p) else Some (fst p)
    end.
  (* while not x.bounds().definitive() and x.tighten_bounds(): pass *)
  Fixpoint run_def (fuel : nat) (x : X) : option X :=
    if zdefb (b x) then Some x else
    match fuel with
    | O => None
    | Datatypes.S f => let p := t x in if snd p then run_def f (fst p) else Some (fst p)
    end.
  Definition fix_fuel (x : X) : nat := Datatypes.S (Z.to_nat (width (b x))).

  Definition set_err (s : ed X) : ed X :=
    mk_ed (e_K s) (e_U s) (e_rc s) (e_ic s) (e_kids s) (e_d s) (e_cost s) (e_done s) true.
  Definition set_d (s : ed X) (d : nat) : ed X :=
    mk_ed (e_K s) (e_U s) (e_rc s) (e_ic s) (e_kids s) d (e_cost s) (e_done s) (e_err s).
  Definition set_cost (s : ed X) (r c : nat) (x : cell) : ed X :=
    mk_ed (e_K s) (e_U s) (e_rc s) (e_ic s) (e_kids s) (e_d s) (set2 (e_cost s) r c x) (e_done s) (e_err s).
  Definition set_kid (s : ed X) (r c : nat) (x : X) : ed X :=
    mk_ed (e_K s) (e_U s) (e_rc s) (e_ic s) (set2 (e_kids s) r c x) (e_d s) (e_cost s) (e_done s) (e_err s).
  Definition set_done (s : ed X) (c : Z) : ed X :=
    mk_ed (e_K s) (e_U s) (e_rc s) (e_ic s) (e_kids s) (e_d s) (e_cost s) (Some c) (e_err s).

  Definition kid_at (s : ed X) (r c : nat) : option X := nth_error (nth r (e_kids s) []) c.

  (* _best_match(row, col) for row, col >= 1 on a definitive cell edit *)
  Definition cell_value (s : ed X) (r c : nat) (m : Z) : cell :=
    best (cell_at (e_cost s) (r - 1) (c - 1)) (cell_at (e_cost s) r (c - 1)) (cell_at (e_cost s) (r - 1) c)
         m (nth (r - 1) (e_ic s) 0) (nth (c - 1) (e_rc s) 0).

  (* one inner cell of the fringe: tighten its edit until it reports False, assert definitive, _best_match *)
  Definition proc_cell (s : ed X) (r c : nat) : ed X :=
    match kid_at s (r - 1) (c - 1) with
    | None => set_err s
    | Some x =>
        match run_fix (fix_fuel x) x with
        | None => set_err s
        | Some x' =>
            if zdefb (b x') then set_cost (set_kid s (r - 1) (c - 1) x') r c (cell_value s r c (fst (b x')))
            else set_err (set_kid s (r - 1) (c - 1) x')
        end
    end.

  (* _add_node for the row-0 / column-0 cells of diagonal k (inner cells are created up front) *)
  Definition add_border (s : ed X) (k : nat) : ed X :=
    let s1 := if Nat.leb 1 k && Nat.leb k (en s)
              then set_cost s 0 k (bstep (cell_at (e_cost s) 0 (k - 1)) (nth (k - 1) (e_rc s) 0) DLeft) else s in
    if Nat.leb 1 k && Nat.leb k (em s)
    then set_cost s1 k 0 (bstep (cell_at (e_cost s1) (k - 1) 0) (nth (k - 1) (e_ic s) 0) DUp) else s1.

  Definition proc_diag (s : ed X) (k : nat) : ed X :=
    fold_left (fun s p => if Nat.leb 1 (fst p) && Nat.leb 1 (snd p) then proc_cell s (fst p) (snd p) else s)
              (diag (em s) (en s) k) s.

  (* the call that adds the last diagonal (_next_fringe() returns False), followed by bounds():
     one tighten_bounds() of the lower right cell if it is not definitive (ret), then - inside the call if ret is
     False, else in the observer's bounds() - edits(): tighten it fully, back-trace (_best_match(m, n) fills its
     cost), _cleanup().  If ret is False the call reports whether the final bounds are tighter than the initial ones. *)
  Definition finalize (initial : zr) (s : ed X) : ed X * bool :=
    let m := em s in
    let n := en s in
    let s1 := add_border (set_d s (Datatypes.S (m + n))) (m + n) in
    if Nat.leb 1 m && Nat.leb 1 n then
      match kid_at s1 (m - 1) (n - 1) with
      | None => (set_err s1, false)
      | Some x =>
          let px := t x in
          let x1 := if zdefb (b x) then x else fst px in
          let ret := if zdefb (b x) then false else snd px in
          match run_def (fix_fuel x1) x1 with
          | None => (set_err (set_kid s1 (m - 1) (n - 1) x1), ret)
          | Some x2 =>
              if zdefb (b x2) then
                let s2 := set_kid s1 (m - 1) (n - 1) x2 in
                let cl := cell_value s2 m n (fst (b x2)) in
                (set_done (set_cost s2 m n cl) (ccost cl), ret || tighter (ccost cl, ccost cl) initial)
              else (set_err (set_kid s1 (m - 1) (n - 1) x2), ret)
          end
      end
    else (set_done s1 (ccost (cell_at (e_cost s1) m n)),
          tighter (ccost (cell_at (e_cost s1) m n), ccost (cell_at (e_cost s1) m n)) initial).

  (* the `while True` loop of tighten_bounds() while the matrix is being built *)
  Fixpoint ed_loop (fuel : nat) (initial : zr) (s : ed X) : ed X * bool :=
    match fuel with
    | O => (set_err s, false)
    | Datatypes.S f =>
        let k := e_d s in
        if Nat.leb (em s + en s) k then finalize initial s
        else
          let s1 := add_border (set_d s (Datatypes.S k)) k in
          let s2 := if Nat.eqb k 0 then s1 else proc_diag s1 k in
          if e_err s2 then (s2, false)
          else if tighter (ed_bnd s2) initial then (s2, true)
          else ed_loop f initial s2
    end.

  Definition ed_tig (s : ed X) : ed X * bool :=
    if Nat.eqb (en s) 0 && Nat.eqb (em s) 0 then (s, false)
    else match e_done s with
         | Some _ => (s, false)
         | None => if e_err s then (s, false) else ed_loop (Datatypes.S (em s + en s)) (ed_bnd s) s
         end.
End ED.

Definition edM (C : machine) : machine :=
  {| St := ed (St C); bnd := ed_bnd; tig := ed_tig (bnd C) (tig C) |}.

(* EditDistance.__init__ : constant_cost = the |len(from) - len(to)| smallest (total_size + penalty) of the longer
   FULL sequence (a heap is popped that many times), cost_upper_bound = everything removed and inserted;
   the matrix is over the sequences with the shared prefix (p) and suffix (q) trimmed *)
Fixpoint zinsert (x : Z) (l : list Z) : list Z :=
  match l with [] => [x] | y :: l' => if x <=? y then x :: l else y :: zinsert x l' end.
Definition zsort (l : list Z) : list Z := fold_right zinsert [] l.
Definition sum_smallest (k : nat) (l : list Z) : Z := zsum (firstn k (zsort l)).

Definition ed_constant_cost (frc fic : list Z) : Z :=
  if Nat.ltb (length frc) (length fic) then sum_smallest (length fic - length frc) fic
  else if Nat.ltb (length fic) (length frc) then sum_smallest (length frc - length fic) frc
  else 0.

Definition ed_init {X} (frc fic : list Z) (p q : nat) (kids : list (list X)) : ed X :=
  let rc := middle p q frc in
  let ic := middle p q fic in
  mk_ed (ed_constant_cost frc fic) (zsum frc + zsum fic) rc ic kids 0
        (repeat (repeat start_cell (Datatypes.S (length rc))) (Datatypes.S (length ic))) None false.

(* ---------------------------------------------------------------- the universal machine
   one state type for all classes; tigU d steps states of nesting depth <= d *)
Inductive st :=
  | SConst (c : Z)                              (* ConstantCostEdit *)
  | SSum (l : list st)                          (* KeyValuePairEdit: [key_edit; value_edit] *)
  | SFixed (l : list st) (extra : Z)            (* FixedLengthSequenceEdit *)
  | SED (e : ed st).                            (* EditDistance; StringEdit (pure delegation to an EditDistance) *)

Fixpoint bndU (s : st) : zr :=
  match s with
  | SConst c => (c, c)
  | SSum l => zr_sum (map bndU l)
  | SFixed l x => let r := zr_sum (map bndU l) in (fst r + x, snd r + x)
  | SED e => ed_bnd e
  end.

Fixpoint tigU (d : nat) (s : st) : st * bool :=
  match d with
  | O => (s, false)
  | S d' =>
      match s with
      | SConst c => (s, false)
      | SSum l => let p := first_true (tigU d') l in (SSum (fst p), snd p)
      | SFixed l x => let p := fixed_tig bndU (tigU d') (l, x) in (SFixed (fst (fst p)) (snd (fst p)), snd p)
      | SED e => let p := ed_tig bndU (tigU d') e in (SED (fst p), snd p)
      end
  end.

Definition UM (d : nat) : machine := {| St := st; bnd := bndU; tig := tigU d |}.

Fixpoint nat_max_list (l : list nat) : nat := match l with [] => O | x :: l' => Nat.max x (nat_max_list l') end.
Fixpoint sheight (s : st) : nat :=
  match s with
  | SConst _ => O
  | SSum l => S (nat_max_list (map sheight l))
  | SFixed l _ => S (nat_max_list (map sheight l))
  | SED e => S (nat_max_list (map (fun row => nat_max_list (map sheight row)) (e_kids e)))
  end.

(* ---------------------------------------------------------------- a.edits(b) for the modelled fragment *)
Definition children_eqb (cs ds : list tree) : bool :=
  (fix go (xs ys : list tree) : bool :=
     match xs, ys with
     | [], [] => true
     | x :: xs', y :: ys' => node_eqb x y && go xs' ys'
     | _, _ => false
     end) cs ds.

Definition list_dispatch (a b : tree) : ldispatch :=
  match a, b with
  | Lst ale alsl cs, Lst _ _ ds =>
      list_dispatch_gen true (children_eqb cs ds) ale alsl (zlen cs) (zlen ds) (all_leaves cs) (all_leaves ds)
  | Lst ale alsl cs, _ => list_dispatch_gen false false ale alsl (zlen cs) 0 (all_leaves cs) true
  | _, _ => LReplace
  end.

(* the pairs whose edit is a ConstantCostEdit, with its cost *)
Definition const_of (a b : tree) : option Z :=
  match a with
  | Leaf x => match leaf_script x a b with
              | OK (EMatch c) | OK (EReplace c) => Some c
              | _ => None
              end
  | Lst _ _ _ => match list_dispatch a b with
                 | LMatch0 => Some 0
                 | LReplace => Some (replace_cost a b)
                 | _ => None
                 end
  | Kvp ake k _ => match b with
                   | Kvp _ k' _ => if ake || node_eqb k k' then None else Some (replace_cost a b)
                   | _ => None
                   end
  | _ => None
  end.

Fixpoint all_some_l {A} (l : list (option A)) : option (list A) :=
  match l with
  | [] => Some []
  | Some x :: l' => match all_some_l l' with Some r => Some (x :: r) | None => None end
  | None :: _ => None
  end.

(* string_edit_distance(s, t): EditDistance over one-character StringNodes (total_size 1), penalty 0 *)
Definition str_state (s t : str) : st :=
  let '(p, q) := trim Z.eqb s t in
  let s' := middle p q s in
  let t' := middle p q t in
  SED (ed_init (map (fun _ => 1) s) (map (fun _ => 1) t) p q
               (map (fun d => map (fun c => SConst (char_cost c d)) s') t')).

Fixpoint initU (a b : tree) {struct a} : option st :=
  match const_of a b with
  | Some c => Some (SConst c)
  | None =>
      match a with
      | Leaf x =>
          match b with
          | Leaf y => match lk x, lk y with
                      | KStr, KStr => Some (str_state (ltext x) (ltext y))
                      | _, _ => None
                      end
          | _ => None
          end
      | Lst ale alsl cs =>
          let ds := match b with Lst _ _ ds => ds | _ => [] end in
          let M := map (fun c => map (fun d => initU c d) ds) cs in            (* M[i][j] = cs[i].edits(ds[j]) *)
          match list_dispatch a b with
          | LFixed =>
              let n := length cs in
              let m := length ds in
              let pairs := map (fun i => match mget M i i with Some (Some s) => Some s | _ => None end)
                               (seq 0 (Nat.min n m)) in
              let extra :=
                  (if Nat.ltb m n
                   then zsum (map (fun i => remove_cost (nth i cs dummy) 1) (seq (remove_from_pos n m) (n - remove_from_pos n m)))
                   else 0) +
                  (if Nat.ltb n m
                   then zsum (map (fun j => insert_cost (nth j ds dummy) 1) (seq (insert_from_pos n m) (m - insert_from_pos n m)))
                   else 0) in
              match all_some_l pairs with
              | Some l => Some (SFixed l extra)
              | None => None
              end
          | LEditDist penalty =>
              let '(p, q) := trim node_eqb cs ds in
              let nc := length (middle p q cs) in
              let nr := length (middle p q ds) in
              let kids := map (fun r => all_some_l (map (fun c => match mget M (p + c) (p + r) with
                                                                  | Some (Some s) => Some s | _ => None end)
                                                        (seq 0 nc))) (seq 0 nr) in
              match all_some_l kids with
              | Some ks => Some (SED (ed_init (map (fun c => remove_cost c penalty) cs)
                                              (map (fun d => insert_cost d penalty) ds) p q ks))
              | None => None
              end
          | _ => None
          end
      | Kvp ake k v =>
          match b with
          | Kvp _ k' v' =>
              let ke := if node_eqb k k' then Some (SConst 0) else initU k k' in
              let ve := if node_eqb v v' then Some (SConst 0) else initU v v' in
              match ke, ve with
              | Some x, Some y => Some (SSum [x; y])
              | _, _ => None
              end
          | _ => None
          end
      | _ => None
      end
  end.

(* ---------------------------------------------------------------- correspondence *)
Definition ev_eqb (x y : ev) : bool :=
  match x, y with
  | EB p, EB q => rng_eqb p q
  | ET p, ET q => Bool.eqb p q
  | _, _ => false
  end.
Fixpoint evs_eqb (x y : list ev) : bool :=
  match x, y with
  | [], [] => true
  | p :: x', q :: y' => ev_eqb p q && evs_eqb x' y'
  | _, _ => false
  end.

(* the root's observations up to and including the bounds() after its first False *)
Fixpoint upto_false (evs : list ev) : list ev :=
  match evs with
  | [] => []
  | ET false :: EB b :: _ => [ET false; EB b]
  | e :: evs' => e :: upto_false evs'
  end.

(* the transport encoding of the harness sends a run of identical consecutive bounds() observations once *)
Fixpoint dedup_B (prev : option rng) (evs : list ev) : list ev :=
  match evs with
  | [] => []
  | EB b :: evs' =>
      match prev with
      | Some p => if rng_eqb p b then dedup_B prev evs' else EB b :: dedup_B (Some b) evs'
      | None => EB b :: dedup_B (Some b) evs'
      end
  | ET r :: evs' => ET r :: dedup_B None evs'
  end.

Record ccase := { cc_case : case; cc_root : bool }.

Definition model_trace (a b : tree) : option (list ev) :=
  match initU a b with
  | Some s =>     (* AbstractEdit.__init__ queries bounds() once (initial_bounds), then the observer drives *)
      Some (EB (rng_of (bndU s)) :: trace_of (UM (sheight s)) (S (S (Z.to_nat (width (bndU s))))) s)
  | None => None
  end.

(* is the pair inside the modelled fragment (and the first object the actively driven root edit)? *)
Definition modelled_C04 (c : ccase) : bool :=
  cc_root c && match initU (c_a (cc_case c)) (c_b (cc_case c)) with Some _ => true | None => false end.

Definition corr_C04 (c : ccase) : bool :=
  if cc_root c then
    match model_trace (c_a (cc_case c)) (c_b (cc_case c)), c_objs (cc_case c) with
    | Some tr, o :: _ => evs_eqb (dedup_B None tr) (upto_false (ot_events o))
    | Some _, [] => false
    | None, _ => true
    end
  else true.
